"""C15 — Jackknife estimate is schedule-independent and matches the delete-d formula.

Tie T: harness/translate/jackknife.py regenerates Gen/Jackknife.lean (per-task reseed, loop body, variance-scaling
statements, probe slice) from the tree under test.
Tie C: the real `compute_jackknife_estimates` is run with many worker counts, a statistic with data-dependent delays,
scrambled global `random` state and repeated calls; the schedule that the real pool actually executed is observed
(pid / start time / checksum of the reduced array logged by the statistic) and fed, with the index lists drawn by the
real `random` module, to the Lean driver (model `compute` at Float).  All real outputs of one configuration must be
bit-identical and within 1e-12 of the model and of the executable spec formula.
Search: the property itself on the real code with references computed here, never the model:
  * single calls: the delete-d formula evaluated in exact rational arithmetic (`fractions`) on the subsample
    statistics of the same seeded draws, determinism across num_cores / global state, data untouched;
  * sessions: ONE long-lived Jackknife object serving a sequence of calls with arrays of different lengths and
    shapes, different statistics and num_cores; every call is compared with the formula for the CURRENT array; a
    failure that disappears on a fresh object is reported as `instance-reuse-...` with the whole (minimised) history,
    after it has been reproduced in a new process;
  * error-path sessions: between the valid calls the object serves calls that end in an exception which the caller
    catches (statistic raising or returning a non-number on its k-th invocation — probe call, first, second, middle,
    last sample — data too short, invalid num_cores / data / function; num_cores 1 and > 1); the following valid
    calls are judged against the formula for the object's constructor arguments -> `instance-reuse-after-error-...`;
  * magnitude sweeps: c = +-2^k for k over [-996, 996] (c*x exact) and shifts +-2^j up to 2^40 (x+s exact), data with
    tiny relative spread: the exact formula, the scaling law est(c x) = |c| est(x) (to a few ulp, since scaling by a
    power of two is exact in every floating-point step) and the shift law, each with a tolerance derived from the
    rounding of the statistic's own values - no absolute floor, so a hidden absolute or relative tolerance shows.
Devices applied at random to every configuration (correspondence and search alike; the judge is the same model /
formula, which only sees the logical content): the Jackknife object is replaced by its copy.copy / copy.deepcopy /
pickle round trip before use (in sessions the copy carries on); the data array is a copy / deepcopy / pickle round trip,
an ndarray subclass, a (writable or read-only) array over a memoryview / bytes buffer, a strided or negative-stride view,
Fortran ordered; the statistic is handed over as function + kwargs, function + positional args, functools.partial,
callable object or bound method; the call runs in a fresh working directory with np.seterr(all="warn") and other print
options, after the caller's `random` / `np.random` were advanced; the call must leave `random`, `np.random`, cwd,
np.geterr() and the print options as it found them.  Lists / tuples are not numpy arrays: the documented TypeError
(or, should the code accept them, the value of the equivalent array) is asserted.  A few cases per run are repeated in
child interpreters with different PYTHONHASHSEED and differently advanced generators: values must be bit-identical.
"""
import copy
import functools
import json
import math
import os
import pickle
import random
import shutil
import subprocess
import sys
import tempfile
import time
import warnings
import zlib
from fractions import Fraction

import numpy as np

import common
from common import f2h, h2f
from translate import jackknife as tj

warnings.filterwarnings("ignore")

KINDS_1D = ["mean", "slowmean", "rms", "maxabs", "mutmean"]
KINDS_2D = ["mean", "slowmean", "rms", "maxabs", "wmean", "mutmean"]
HOMOG = {"mean": "lin", "slowmean": "lin", "wmean": "lin", "rms": "abs", "maxabs": "abs"}


# ------------------------------------------------------------------ translator (tie T)
def translate(ctx):
    text, regions = tj.render(common.read_src("Jackknife.py"))
    changed = common.write_if_changed(common.LEAN / "SparkxVerif/Gen/Jackknife.lean", text)
    golden = common.LEAN / "golden/Gen/Jackknife.lean"
    ctx.cov["gen_equals_golden"] = golden.exists() and golden.read_text() == text
    if changed:
        ctx.notes.append("Gen/Jackknife.lean regenerated (source differs from last run)")
    return regions


# ------------------------------------------------------------------ the statistic handed to the real code
class StatFault(RuntimeError):
    """raised by the statistic on purpose (error-path steps of the long-lived-object sessions)"""


def _bump(path):
    """number of earlier invocations recorded in the counter file (atomic across processes: O_APPEND)"""
    fd = os.open(path, os.O_WRONLY | os.O_APPEND)
    try:
        os.write(fd, b"x")
        return os.lseek(fd, 0, os.SEEK_CUR) - 1
    finally:
        os.close(fd)


def stat(x, kind="mean", log=None, slow=0, fault=None, counter=None):
    """User statistic.  Runs in the pool's worker processes (and once, as the probe call, in the parent).
    `slow` > 0 adds a delay that depends on the data it sees, which perturbs the completion order of the tasks.
    `log` = path of a file to which (pid, start, end, checksum of the array seen) is appended.
    `fault` = {"type": "raise-at" | "bad-return-at", "k": i, "what": ...}: misbehave on the i-th invocation of this call
    (invocation 0 is the probe call in the parent), counted through the file `counter` shared by all processes."""
    if fault is not None:
        if _bump(counter) == fault["k"]:
            if fault["type"] == "raise-at":
                raise StatFault(f"statistic fails on purpose at invocation {fault['k']}")
            w = fault.get("what")
            return [1.0, 2.0] if w == "list" else np.array([1.0, 2.0]) if w == "array" else "x" if w == "str" else None
    t0 = time.monotonic_ns()
    crc = zlib.crc32(np.ascontiguousarray(x).tobytes())
    if kind in ("mean", "slowmean"):
        v = float(np.mean(x))
    elif kind == "rms":
        v = float(np.sqrt(np.mean(x * x)))
    elif kind == "wmean":
        v = float(np.sum(x[:, 0] * x[:, 1]) / np.sum(x[:, 1]))
    elif kind == "maxabs":
        v = float(np.max(np.abs(x)))
    elif kind == "mutmean":
        v = float(np.mean(x))
        x[...] = 0.0  # writes into the array it was handed
    else:
        raise ValueError(kind)
    if slow:
        time.sleep(((crc >> 3) % 5) * slow * 1e-3)
    if log:
        fd = os.open(log, os.O_WRONLY | os.O_APPEND | os.O_CREAT)
        os.write(fd, f"{os.getpid()} {t0} {time.monotonic_ns()} {crc}\n".encode())
        os.close(fd)
    return v


class StatObj:
    """the statistic as a callable object / through a bound method (picklable: module-level class)"""

    def __init__(self, kind):
        self.kind = kind

    def __call__(self, x, **kw):
        return stat(x, kind=self.kind, **kw)

    def evaluate(self, x, **kw):
        return stat(x, kind=self.kind, **kw)


class TaggedArray(np.ndarray):
    """a trivial ndarray subclass"""


FN_FORMS = ["function", "args", "partial", "object", "method"]
CLONES = ["copy", "deepcopy", "pickle"]


def clone(o, form):
    if form == "copy":
        return copy.copy(o)
    if form == "deepcopy":
        return copy.deepcopy(o)
    if form == "pickle":
        return pickle.loads(pickle.dumps(o))
    return o


def call_form(form, kind, **kw):
    """(function, positional args after num_cores, kwargs) handing the same statistic over in different ways"""
    if form == "args":
        return stat, (kind,), kw
    if form == "partial":
        return functools.partial(stat, kind=kind), (), kw
    if form == "object":
        return StatObj(kind), (), kw
    if form == "method":
        return StatObj(kind).evaluate, (), kw
    return stat, (), dict(kw, kind=kind)


def gen_dev(rng):
    return dict(obj=rng.choice(["plain"] * 3 + CLONES), fn=rng.choice(["function"] * 2 + FN_FORMS),
                data=rng.choice(["plain"] * 3 + CLONES), env=rng.random() < 0.3)


def ref_stat(x, kind):
    return stat(np.array(x, copy=True), kind=("mean" if kind == "mutmean" else kind))


# ------------------------------------------------------------------ real generator draws (parameter of the model)
def draws_for(seed, n, d, N):
    st = random.getstate()
    try:
        out = []
        for i in range(N):
            random.seed(seed + i)
            out.append(random.sample(range(n), d))
    finally:
        random.setstate(st)
    return out


def check_draw_contract(draws, n, d):
    return all(len(x) == d and len(set(x)) == d and all(0 <= i < n for i in x) for x in draws)


# ------------------------------------------------------------------ configurations
LAYOUTS = ["c", "c", "f", "strided", "negstride", "subclass", "frombuffer", "frombuffer-ro"]


class Cfg:
    def __init__(self, base, layout, kind, frac, N, seed, dev=None):
        self.base = base  # C-contiguous float64/int64 array holding the logical data
        self.layout = layout  # how the array object handed to the code is laid out / typed (see fresh)
        self.kind = kind
        self.frac = frac
        self.N = N
        self.seed = seed
        self.n = len(base)
        self.d = int(frac * self.n)
        self.dev = dict(dev or {})  # devices: obj / fn / data / env (see gen_dev)

    def fresh(self):
        """a new array object with the requested memory layout / type and the logical content of `base`;
        second value: an object whose bytes must not change either (memory next to a view, backing buffer)"""
        b = self.base
        arr, guard = b.copy(), None
        if self.layout == "f" and b.ndim == 2:
            arr = np.asfortranarray(b.copy())
        elif self.layout == "strided":
            big = np.zeros((2 * self.n,) + b.shape[1:], dtype=b.dtype)
            big[::2] = b
            big[1::2] = -77
            arr, guard = big[::2], big[1::2]
        elif self.layout == "negstride":
            arr = b[::-1].copy()[::-1]
        elif self.layout == "subclass":
            arr = b.copy().view(TaggedArray)
        elif self.layout == "frombuffer":
            buf = bytearray(b.tobytes())
            arr = np.frombuffer(memoryview(buf), dtype=b.dtype).reshape(b.shape)
        elif self.layout == "frombuffer-ro":
            arr = np.frombuffer(b.tobytes(), dtype=b.dtype).reshape(b.shape)
        form = self.dev.get("data", "plain")
        if form != "plain":
            arr, guard = clone(arr, form), None
        return arr, guard

    def canon(self):
        return (self.base.shape, str(self.base.dtype), self.base.tobytes(), self.layout, self.kind, self.frac, self.N,
                self.seed, tuple(sorted(self.dev.items())))

    def as_json(self):
        return dict(data=self.base.tolist(), dtype=str(self.base.dtype), layout=self.layout, kind=self.kind,
                    frac=self.frac, N=self.N, seed=self.seed, n=self.n, d=self.d, dev=self.dev)

    @staticmethod
    def from_json(j):
        return Cfg(np.array(j["data"], dtype=j.get("dtype", "float64")), j.get("layout", "c"), j["kind"],
                   float(j["frac"]), int(j["N"]), int(j["seed"]), j.get("dev"))


def gen_cfg(rng, want_d1=None, allow_mut=True, small=False, magnitude=False):
    two_d = rng.random() < 0.45
    n = rng.randint(3, 14 if small else 60)
    if want_d1 is None:
        want_d1 = rng.random() < 0.3
    d = 1 if want_d1 else rng.randint(1, n - 1)
    frac = (d + 0.5) / n
    assert int(frac * n) == d and 0.0 < frac < 1.0
    N = rng.randint(2, 12 if small else 40)
    kinds = [k for k in (KINDS_2D if two_d else KINDS_1D) if allow_mut or k != "mutmean"]
    kind = rng.choice(kinds)
    ncols = rng.randint(2, 3) if two_d else None
    shape = (n, ncols) if two_d else (n,)
    style = rng.choice(["dyadic", "dyadic", "uniform", "int"])
    if kind in ("wmean", "mutmean", "rms") and style == "int":
        style = "dyadic"
    cnt = n * (ncols or 1)
    if style == "dyadic":
        vals = [rng.randint(-400, 400) / 16.0 for _ in range(cnt)]
    elif style == "uniform":
        vals = [rng.uniform(-3.0, 5.0) for _ in range(cnt)]
    else:
        vals = [rng.randint(-50, 50) for _ in range(cnt)]
    base = np.array(vals, dtype=("int64" if style == "int" else "float64")).reshape(shape)
    if kind == "wmean":
        base[:, 1] = np.abs(base[:, 1]) + 0.5  # positive weights
    layout = rng.choice(LAYOUTS)
    if kind == "mutmean" and layout == "frombuffer-ro":
        layout = "frombuffer"  # a statistic that writes into its argument cannot be given a read-only array
    seed = rng.choice([42, 0, rng.randint(-5, 5), rng.randint(0, 2 ** 31), rng.randint(-2 ** 40, 2 ** 40)])
    if magnitude and base.dtype == np.float64:
        base = rescale(rng, base, kind)
    return Cfg(base, layout, kind, frac, N, seed, gen_dev(rng))


def rescale(rng, base, kind):
    """move order-one data to another magnitude regime: multiply by +-2^k (exact) or add +-2^j (exact for the
    dyadic / short-mantissa data generated here; otherwise simply other data)"""
    if kind == "wmean" or rng.random() < 0.6:
        k = rng.choice([-1, 1]) * rng.randint(18, 400)
        return base * math.ldexp(rng.choice([-1.0, 1.0]), k)
    return base + math.ldexp(rng.choice([-1.0, 1.0]), rng.randint(12, 40))


def gen_cfg_for_object(rng, frac, N, seed, avoid_n=None, lo=3, hi=60, allow_mut=False, allow_short=True):
    """another array (other length / shape / statistic) for an object that already exists with (frac, N, seed)"""
    cfg = gen_cfg(rng, allow_mut=allow_mut, small=False)
    good = [n for n in range(lo, hi + 1) if int(frac * n) >= 1 and n != avoid_n]
    short = [n for n in range(lo, hi + 1) if int(frac * n) < 1]
    if good and not (allow_short and short and rng.random() < 0.12):
        # prefer a length whose d differs from the one the object saw before
        dprev = None if avoid_n is None else int(frac * avoid_n)
        diff = [n for n in good if int(frac * n) != dprev]
        n = rng.choice(diff or good)
    elif short:
        n = rng.choice(short)
    else:
        n = rng.randint(lo, hi)
    reps = -(-n // cfg.n)
    base = np.concatenate([cfg.base + (0.25 * r if cfg.base.dtype == np.float64 else r) for r in range(reps)])[:n].copy()
    if cfg.kind == "wmean":
        base[:, 1] = np.abs(base[:, 1]) + 0.5
    return Cfg(base, cfg.layout, cfg.kind, frac, N, seed, cfg.dev)


# ------------------------------------------------------------------ running the real code
def scramble_global(rng):
    """put the process-global `random` generator (and numpy's) into an arbitrary state"""
    random.seed(rng.getrandbits(64))
    for _ in range(rng.randint(0, 5)):
        random.random()
    np.random.seed(rng.getrandbits(32))


def np_state_equal(a, b):
    return a[0] == b[0] and np.array_equal(a[1], b[1]) and tuple(a[2:]) == tuple(b[2:])


def run_real(cfg, cores, slow=0, obj=None, want_log=True):
    """one call of the real compute_jackknife_estimates for `cfg`, with cfg's devices applied.  The returned dict
    carries the object that served the call (`obj`: the copy, when the object was copied before use)."""
    from sparkx.Jackknife import Jackknife
    arr, guard = cfg.fresh()
    guard_before = None if guard is None else bytes(guard.tobytes())
    log = None
    if want_log:
        fd, log = tempfile.mkstemp(prefix="c15_", suffix=".log")
        os.close(fd)
    dev = cfg.dev
    tmpdir = None
    saved = None
    try:
        j = obj if obj is not None else Jackknife(cfg.frac, cfg.N, cfg.seed)
        j = clone(j, dev.get("obj", "plain"))
        fn, args, kw = call_form(dev.get("fn", "function"), cfg.kind, log=log, slow=slow)
        if dev.get("env"):
            saved = (os.getcwd(), np.geterr(), np.get_printoptions())
            tmpdir = tempfile.mkdtemp(prefix="c15_cwd_")
            os.chdir(tmpdir)
            np.seterr(all="warn")
            np.set_printoptions(precision=3, suppress=True, linewidth=40)
        before = (random.getstate(), np.random.get_state(), os.getcwd(), np.geterr(), np.get_printoptions())
        try:
            r = j.compute_jackknife_estimates(arr, fn, cores, *args, **kw)
        except ValueError as e:
            return dict(err="value", msg=str(e), after=np.array(arr, copy=True), obj=j)
        finally:
            after = (random.getstate(), np.random.get_state(), os.getcwd(), np.geterr(), np.get_printoptions())
        env_problems = [name for name, same in (
            ("random state", after[0] == before[0]), ("np.random state", np_state_equal(after[1], before[1])),
            ("working directory", after[2] == before[2]), ("np.geterr()", after[3] == before[3]),
            ("numpy print options", after[4] == before[4])) if not same]
        entries = []
        if log:
            me = os.getpid()
            for ln in open(log).read().splitlines():
                pid, t0, t1, crc = (int(t) for t in ln.split())
                if pid != me:
                    entries.append((t0, t1, pid, crc))
    finally:
        if saved is not None:
            os.chdir(saved[0])
            np.seterr(**saved[1])
            np.set_printoptions(**saved[2])
        if tmpdir:
            shutil.rmtree(tmpdir, ignore_errors=True)
        if log and os.path.exists(log):
            os.unlink(log)
    res = dict(value=float(r), type_ok=isinstance(r, float), after=np.array(arr, copy=True), entries=sorted(entries),
               obj=j, env_problems=env_problems)
    if guard is not None:
        res["padding_ok"] = bytes(guard.tobytes()) == guard_before
    return res


def observed_schedule(cfg, data_after_probe, draws, entries):
    """map the statistic's log to a schedule [(worker, task)] in start order; None if it cannot be resolved"""
    by_crc = {}
    for i, idx in enumerate(draws):
        red = np.delete(data_after_probe, idx, axis=0)
        by_crc.setdefault(zlib.crc32(np.ascontiguousarray(red).tobytes()), []).append(i)
    workers = {}
    sched = []
    for t0, t1, pid, crc in entries:
        lst = by_crc.get(crc)
        if not lst:
            return None
        w = workers.setdefault(pid, len(workers))
        sched.append((w, lst.pop(0)))
    if sorted(i for _, i in sched) != list(range(len(draws))):
        return None
    return sched


def out_of_order(entries, sched):
    """did some task finish before a task with a smaller index? (completion order differs from task order)"""
    ends = {i: e[1] for (w, i), e in zip(sched, entries)}
    order = sorted(ends, key=lambda i: ends[i])
    return order != sorted(order)


def data_after_probe(cfg):
    a = np.array(cfg.base, copy=True)
    if cfg.kind == "mutmean":
        a[: max(1, cfg.n // 100)] = 0.0
    return a


def enc_line(cfg, draws, sched):
    flat = np.asarray(cfg.base, dtype="float64").reshape(-1)
    ncols = 1 if cfg.base.ndim == 1 else cfg.base.shape[1]
    dr = "|".join(",".join(str(i) for i in x) for x in draws) if cfg.d >= 1 else "-"
    sc = ";".join(f"{w}:{i}" for w, i in sched)
    return "\t".join(["call", cfg.kind, str(cfg.seed), str(cfg.d), str(cfg.N), str(ncols), common.fl(flat), dr, sc])


def tol(*xs):
    """1e-12 relative to the size of the subsample statistics / the estimate (no absolute floor: data of any
    magnitude are compared at the same relative accuracy)"""
    return 1e-12 * max([abs(x) for x in xs] + [5e-324])


# ------------------------------------------------------------------ correspondence (tie C)
def correspond(ctx):
    rng = ctx.rng
    ctx.rule = ("configurations = (1-D / 2-D data of 3..60 rows in C / Fortran / strided layout, float or int, statistic in "
                "{mean, slow mean, rms, max|x|, weighted mean, a statistic that zeroes its argument}, delete fraction giving "
                "d in 1..n-1 with d=1 over-represented, N in 2..40, seeds incl. negative and > 2^31); every configuration "
                "is run on the real class with several num_cores, data-dependent delays, scrambled global random state and "
                "repeated calls on one object; the schedule actually executed by the real pool is observed and replayed on "
                "the model. case = (configuration, num_cores, observed schedule); non-trivial = at least two worker "
                "processes executed tasks, or d = 1, or the statistic writes into its argument")
    ctx.assumptions += [
        "C15: Python's `random` (seed, sample) is a parameter of the model; the harness supplies the real draws and checks "
        "on each that `sample(range(n), d)` returned d distinct indices below n",
        "C15: the OS / multiprocessing scheduler is outside the model: the theorem covers every schedule of the abstract "
        "pool (any assignment of tasks to workers, any order, any worker generator state); real schedules are sampled "
        "and each observed one is replayed on the model",
        "C15: d = int(delete_fraction * len(data)) is computed by Python and handed to the model (1 <= d < n checked); "
        "integer sub-expressions of the scaling statements are rendered in Nat (agrees with Python ints for d <= n, N >= 1)",
        "C15: the statistic is a function of the array it is handed; data_unmodified assumes it does not write into its "
        "argument (the probe call `function(data[:max(1, n//100)])` hands it a VIEW of the caller's array)",
        "C15: 'deterministic function of (data, statistic, fraction, N, seed)' is also read across interpreter sessions "
        "(different PYTHONHASHSEED, differently advanced generators) and as 'the call leaves the caller's random / "
        "np.random state, cwd, np.geterr() and print options as found' (the model's compute returns the parent's generator "
        "unchanged); the constructor's documented rd.seed(seed) is not judged",
        "C15: the API takes no file names or free text, so the text devices (CRLF, non-ASCII, trailing blanks) and one-shot "
        "iterators do not apply; lists / tuples are documented to raise TypeError, which is what is asserted",
    ]
    ncfg = ctx.n(4, 30)
    if ctx.thorough:
        core_sets = [list(range(1, 17))] * ncfg
    else:
        core_sets = [sorted({1, 2, 16, rng.randint(3, 6), rng.randint(7, 12), rng.randint(13, 15)}) for _ in range(ncfg)]
    cfgs = [Cfg.from_json(c) for c in corpus()]
    for i in range(ncfg):
        cfgs.append(gen_cfg(rng, want_d1=(i % 3 == 0)))
    # the same kind of configurations at other magnitudes (tiny, huge, far from zero relative to the spread)
    for i in range(ctx.n(2, 10)):
        cfgs.append(gen_cfg(rng, magnitude=True))
    # one inadmissible configuration (delete fraction too small -> d = 0 -> the call raises)
    bad = gen_cfg(rng, want_d1=True, allow_mut=False)
    bad.frac = 0.5 / bad.n
    bad.d = int(bad.frac * bad.n)
    cfgs.append(bad)
    lines, meta = [], []
    for ci, cfg in enumerate(cfgs):
        cores_list = core_sets[ci % len(core_sets)]
        if cfg.d < 1:
            scramble_global(rng)
            r = run_real(cfg, 2, want_log=False)
            lines.append(enc_line(cfg, [], [(0, i) for i in range(cfg.N)]))
            meta.append((cfg, 2, r, None, None, "raise"))
            continue
        draws = draws_for(cfg.seed, cfg.n, cfg.d, cfg.N)
        if not check_draw_contract(draws, cfg.n, cfg.d):
            ctx.brk("correspondence-broken", "random.sample contract violated by a supplied draw", case=cfg.as_json())
            continue
        dap = data_after_probe(cfg)
        runs = []
        for cores in cores_list:
            scramble_global(rng)
            slow = rng.choice([0, 1, 2]) if cfg.kind != "slowmean" else 2
            runs.append((cores, run_real(cfg, cores, slow=slow), "fresh"))
        # ONE long-lived object: this configuration, then another array (other length / shape / statistic), then this
        # configuration again; every call (the intermediate one too) is compared with the model for ITS array
        from sparkx.Jackknife import Jackknife
        obj = Jackknife(cfg.frac, cfg.N, cfg.seed)
        c1, c2 = rng.choice(cores_list), rng.choice(cores_list)
        scramble_global(rng)
        runs.append((c1, run_real(cfg, c1, slow=1, obj=obj), "object-first"))
        obj = runs[-1][1].get("obj", obj)  # when the object was copied before use, the copy carries on
        other = gen_cfg_for_object(rng, cfg.frac, cfg.N, cfg.seed, avoid_n=cfg.n)
        co = rng.choice([1, 2, 3])
        scramble_global(rng)
        ro = run_real(other, co, obj=obj)
        obj = ro.get("obj", obj)
        if other.d < 1:
            lines.append(enc_line(other, [], [(0, i) for i in range(other.N)]))
            meta.append((other, co, ro, None, None, "raise"))
        elif "err" in ro:
            ctx.brk("correspondence-broken", f"long-lived object: call raised {ro['msg']!r} for an admissible array "
                                             f"(n={other.n}, d={other.d}) after a call with n={cfg.n}, d={cfg.d}",
                    case=dict(first=cfg.as_json(), then=other.as_json()))
        else:
            dro = draws_for(other.seed, other.n, other.d, other.N)
            so = observed_schedule(other, data_after_probe(other), dro, ro["entries"])
            if so is None:
                so = [(0, i) for i in range(other.N)]
                ctx.count("schedule-not-resolved")
            lines.append(enc_line(other, dro, so))
            meta.append((other, co, ro, so, dro, "object-other-array"))
        scramble_global(rng)
        runs.append((c2, run_real(cfg, c2, slow=0, obj=obj), "object-again"))
        vals = set()
        for cores, r, how in runs:
            if "err" in r:
                ctx.brk("correspondence-broken", f"real call raised {r['msg']!r} for an admissible configuration",
                        case=dict(cfg=cfg.as_json(), num_cores=cores))
                continue
            sched = observed_schedule(cfg, dap, draws, r["entries"])
            unresolved = sched is None
            if unresolved:
                sched = [(0, i) for i in range(cfg.N)]
                ctx.count("schedule-not-resolved")
            lines.append(enc_line(cfg, draws, sched))
            meta.append((cfg, cores, r, sched, draws, how))
            vals.add(f2h(r["value"]))
        if len(vals) > 1:
            ctx.brk("correspondence-broken",
                    f"real outputs of one configuration are not bit-identical across num_cores/schedules/global state/repeats: {sorted(vals)}",
                    case=dict(cfg=cfg.as_json(), runs=[(c, r.get("value"), how) for c, r, how in runs]))
    outs = common.run_driver("C15", lines)
    seen_scheds = set()
    for (cfg, cores, r, sched, draws, how), out in zip(meta, outs):
        if how == "raise":
            ok = ("err" in r) and out == "err value" and np.array_equal(r["after"], cfg.base)
            ctx.case(("raise", cfg.canon()), False, sample=dict(op="inadmissible", cfg=cfg.as_json(), code=r.get("err"), model=out))
            ctx.count("inadmissible-d=0")
            if not ok:
                ctx.brk("correspondence-broken", f"inadmissible fraction: code {r.get('err', r.get('value'))!r} vs model {out!r}",
                        case=cfg.as_json())
            continue
        workers_used = len({w for w, _ in sched})
        ooo = out_of_order(r["entries"], sched) if len(r["entries"]) == len(sched) else False
        nontriv = workers_used >= 2 or cfg.d == 1 or cfg.kind == "mutmean"
        ctx.case((cfg.canon(), cores, tuple(sched)), nontriv,
                 sample=dict(cfg=cfg.as_json(), num_cores=cores, how=how, observed_schedule=sched, code=r["value"], model=out[:200]))
        seen_scheds.add((cfg.canon(), tuple(sched)))
        ctx.count(f"cores={cores}")
        ctx.count(f"kind={cfg.kind}")
        ctx.count(f"ndim={cfg.base.ndim}/layout={cfg.layout}/{cfg.base.dtype}")
        ctx.count("d=1" if cfg.d == 1 else "d>1")
        ctx.count("data-regime=" + regime(np.asarray(cfg.base, dtype="float64").reshape(-1).tolist()))
        ctx.count(f"workers_used={workers_used}")
        ctx.count("completion-out-of-task-order" if ooo else "completion-in-task-order")
        ctx.count(f"call={how}")
        for dk in ("obj", "fn", "data"):
            ctx.count(f"device/{dk}={cfg.dev.get(dk, 'plain' if dk != 'fn' else 'function')}")
        if cfg.dev.get("env"):
            ctx.count("device/env=fresh-cwd+seterr-warn+printoptions")
        if not out.startswith("ok "):
            ctx.brk("correspondence-broken", f"model answered {out!r}, code returned {r['value']!r}",
                    case=dict(cfg=cfg.as_json(), num_cores=cores, schedule=sched))
            continue
        f = out.split(" ")
        ths_m, est_m, spec_m, after_m = common.parse_fl(f[1]), h2f(f[2]), h2f(f[3]), common.parse_fl(f[4])
        scale = max([abs(t) for t in ths_m] + [0.0])
        problems = []
        if not r["type_ok"]:
            problems.append("return value is not a float")
        if abs(r["value"] - est_m) > tol(scale, est_m):
            problems.append(f"estimate: code {r['value']!r} vs model {est_m!r}")
        if abs(r["value"] - spec_m) > tol(scale, spec_m):
            problems.append(f"estimate: code {r['value']!r} vs executable spec formula {spec_m!r}")
        after_real = np.asarray(r["after"], dtype="float64").reshape(-1).tolist()
        if after_real != after_m:
            problems.append("data array after the call differs from the model's")
        if r.get("padding_ok") is False:
            problems.append("memory next to the strided view was written")
        if r.get("env_problems"):
            problems.append("the call changed the caller's " + ", ".join(r["env_problems"]) + " (the model leaves them)")
        if problems:
            ctx.brk("correspondence-broken", "; ".join(problems),
                    case=dict(cfg=cfg.as_json(), num_cores=cores, schedule=sched, draws=draws, model=out[:400]))
    ctx.cov["distinct_observed_schedules"] = len(seen_scheds)


# ------------------------------------------------------------------ oracle on the real code (independent of the model)
TWO = Fraction(2)
ULP = 2.0 ** -53


def regime(xs):
    """magnitude class of a data set (used in violation keys and in the evidence histogram)"""
    xs = [float(x) for x in xs]
    M = max(abs(x) for x in xs)
    spread = max(xs) - min(xs)
    if M == 0.0:
        return "all-zero"
    if spread > 0 and M / spread > 2.0 ** 12:
        return "offset/spread>2^12"
    if M < 2.0 ** -20:
        return "magnitude<2^-20"
    if M > 2.0 ** 20:
        return "magnitude>2^20"
    return "order-one"


def cfg_regime(cfg):
    return regime(np.asarray(cfg.base, dtype="float64").reshape(-1).tolist())


def subsample_stats(cfg):
    """the N delete-d subsample statistics of the CURRENT array: same seeded draws, the user's statistic evaluated
    here in the parent (bit-identical to what a worker computes: same function, same C-ordered reduced array)"""
    data = np.array(cfg.base, copy=True)
    draws = draws_for(cfg.seed, cfg.n, cfg.d, cfg.N)
    return [ref_stat(np.delete(data, idx, axis=0), cfg.kind) for idx in draws]


def exact_formula(cfg, ths=None):
    """delete-d formula in exact rational arithmetic over the subsample statistics.
    Returns dict(E, tol, assertable, ths): E = sqrt((n-d)/(d N) sum (theta_i - mean)^2) (correctly rounded from the
    exact rational), tol = rigorous bound on what a floating-point evaluation of the same formula may differ by:
    the float mean of the theta_i is off by at most e = (N+2) 2^-53 max|theta|, which changes the estimate by at most
    sqrt(f N) e; every other step is a few ulp.  assertable = the squared deviations are inside the double range (so no
    evaluation of the formula under/overflows) and the tolerance is small against E."""
    ths = subsample_stats(cfg) if ths is None else ths
    n, d, N = cfg.n, cfg.d, cfg.N
    if not all(math.isfinite(t) for t in ths):
        return dict(E=None, tol=None, assertable=False, ths=ths, why="statistic not finite")
    F = [Fraction(t) for t in ths]
    m = sum(F) / N
    devs = [(t - m) ** 2 for t in F]
    SD = sum(devs)
    f = Fraction(n - d, d * N)
    E2 = f * SD
    maxD = max(devs)
    tmax = max(abs(t) for t in ths)
    if maxD != 0 and not (TWO ** -900 <= maxD <= TWO ** 900 and tmax < 2.0 ** 900):
        return dict(E=None, tol=None, assertable=False, ths=ths, why="squared deviations outside the double range")
    E = exact_sqrt(E2)
    e = (N + 2) * ULP * tmax
    tol_ = math.sqrt(float(f) * N) * e + 64 * ULP * E
    return dict(E=E, tol=tol_, assertable=(E == 0.0 or tol_ <= 0.25 * E), ths=ths,
                why="rounding of the statistic's values comparable to their spread")


def exact_sqrt(q):
    """float nearest to sqrt of a non-negative Fraction inside the double range (integer arithmetic, no under/overflow
    on the way)"""
    if q == 0:
        return 0.0
    sh = 0
    # scale by 4^sh so that the integer square root carries > 64 significant bits
    num, den = q.numerator, q.denominator
    while num.bit_length() - den.bit_length() < 130:
        num <<= 2
        sh += 1
    return math.ldexp(float(math.isqrt(num // den)), -sh)


def step_problem(cfg, r):
    """one call of the real code against the property, for the array it was given.  None or (clause, what, detail)."""
    if cfg.d < 1:
        if "err" not in r:
            return ("inadmissible-not-raised", f"n={cfg.n}, fraction {cfg.frac}: d = 0 but the call returned {r['value']!r}",
                    dict(code=r["value"]))
        return None
    if "err" in r:
        return ("admissible-call-raised", f"n={cfg.n} d={cfg.d}: admissible but the call raised {r['msg']!r}", dict(msg=r["msg"]))
    if cfg.kind != "mutmean" and (not np.array_equal(r["after"], cfg.base) or r.get("padding_ok") is False):
        return ("data-modified", "the data array was modified by the call", {})
    if r.get("env_problems"):
        return ("environment-modified", "the call changed the caller's " + ", ".join(r["env_problems"]), dict(changed=r["env_problems"]))
    ex = exact_formula(cfg)
    if not ex["assertable"]:
        return None
    v = r["value"]
    if not (math.isfinite(v) and abs(v - ex["E"]) <= ex["tol"]):
        return ("formula", f"n={cfg.n} d={cfg.d} N={cfg.N} ({cfg.kind}, {cfg_regime(cfg)}): code returns {v!r}, delete-d formula "
                           f"sqrt((n-d)/(d N) sum (theta_i-mean)^2) in exact arithmetic = {ex['E']!r} (tolerance {ex['tol']:.3g})",
                dict(code=v, expected=ex["E"], tolerance=ex["tol"], thetas=ex["ths"]))
    return None


def formula_key(cfg):
    rg = cfg_regime(cfg)
    if rg == "order-one":
        return "formula/d=1" if cfg.d == 1 else "formula/d>1"
    return "formula/" + rg


def oracle_check(cfg, rng, cores_list=None):
    """returns [] or a list of (key, what, detail) — the property failing on the REAL code for this configuration"""
    out = []
    if cfg.kind == "mutmean":
        return out
    cores_list = cores_list or [1, rng.choice([2, 3, 4, 16])]
    vals = []
    for cores in cores_list:
        scramble_global(rng)
        r = run_real(cfg, cores, slow=rng.choice([0, 1]), want_log=False)
        pr = step_problem(cfg, r)
        if pr:
            key = formula_key(cfg) if pr[0] == "formula" else (pr[0] + ("/" + cfg.kind if pr[0] == "data-modified" else ""))
            out.append((key, pr[1], dict(pr[2], num_cores=cores)))
            return out
        if "err" in r:
            return out
        vals.append((cores, r["value"]))
    v0 = vals[0][1]
    if any(f2h(v) != f2h(v0) for _, v in vals):
        out.append(("determinism/num_cores-or-global-rng", f"outputs differ between runs: {vals}", dict(runs=vals)))
    if cfg_regime(cfg) != "order-one":
        return out
    ths = subsample_stats(cfg)
    scale = max(abs(t) for t in ths)
    # scaling with an arbitrary (not power-of-two) factor
    h = HOMOG.get(cfg.kind)
    if h and cfg.base.dtype == np.float64:
        c = rng.choice([-3.0, 0.5, 2.0, -0.25, 8.0])
        sc = Cfg(cfg.base * c, cfg.layout, cfg.kind, cfg.frac, cfg.N, cfg.seed)
        scramble_global(rng)
        r = run_real(sc, rng.choice(cores_list), want_log=False)
        if "err" in r or abs(r["value"] - abs(c) * v0) > 1e-9 * abs(c) * max(abs(v0), 1e-3 * scale):
            out.append((f"scaling/{cfg.kind}", f"estimate(c x) = {r.get('value')!r} but |c| estimate(x) = {abs(c) * v0!r} (c={c})",
                        dict(c=c, scaled=r.get("value"), base=v0)))
    # shift for the mean
    if cfg.kind in ("mean", "slowmean") and cfg.base.dtype == np.float64:
        s = rng.choice([1.0, -2.5, 16.0, 100.0])
        sh = Cfg(cfg.base + s, cfg.layout, cfg.kind, cfg.frac, cfg.N, cfg.seed)
        scramble_global(rng)
        r = run_real(sh, rng.choice(cores_list), want_log=False)
        if "err" in r or abs(r["value"] - v0) > 1e-9 * max(abs(v0), 1e-3 * (scale + abs(s))):
            out.append(("shift-mean", f"estimate(x + s) = {r.get('value')!r} but estimate(x) = {v0!r} (s={s})",
                        dict(s=s, shifted=r.get("value"), base=v0)))
    return out


# ------------------------------------------------------------------ long-lived objects
class Step:
    """one call on the long-lived object: a valid call (fault None), judged against the formula, or an error-path call
    (fault = dict, see run_fault) that is expected to end in an exception which the caller catches"""

    def __init__(self, cfg, cores, fault=None):
        self.cfg, self.cores, self.fault = cfg, cores, fault

    def brief(self):
        c = self.cfg
        return dict(n=c.n, d=c.d, kind=c.kind, ndim=c.base.ndim, num_cores=self.cores, **({"fault": self.fault} if self.fault else {}))


class Session:
    """one Jackknife(frac, N, seed) object and the calls it serves, in order"""

    def __init__(self, frac, N, seed, steps):
        self.frac, self.N, self.seed = frac, N, seed
        self.steps = [st if isinstance(st, Step) else Step(*st) for st in steps]

    def as_json(self, failing_step=None):
        return dict(mode="session", frac=self.frac, N=self.N, seed=self.seed, failing_step=failing_step,
                    steps=[dict(data=st.cfg.base.tolist(), dtype=str(st.cfg.base.dtype), layout=st.cfg.layout,
                                kind=st.cfg.kind, num_cores=st.cores, n=st.cfg.n, d=st.cfg.d, fault=st.fault)
                           for st in self.steps])

    @staticmethod
    def from_json(j):
        fr, N, sd = float(j["frac"]), int(j["N"]), int(j["seed"])
        return Session(fr, N, sd, [Step(Cfg(np.array(st["data"], dtype=st.get("dtype", "float64")), st.get("layout", "c"),
                                            st["kind"], fr, N, sd), int(st["num_cores"]), st.get("fault")) for st in j["steps"]])

    def canon(self):
        return (self.frac, self.N, self.seed,
                tuple((st.cfg.canon(), st.cores, json.dumps(st.fault, sort_keys=True)) for st in self.steps))


def gen_session(rng, thorough=False):
    frac = rng.choice([0.1, 0.2, 0.25, 0.3, 0.4, 0.5, 0.6, round(rng.uniform(0.05, 0.9), 3)])
    N = rng.randint(4, 24)
    seed = rng.choice([42, 7, rng.randint(-5, 5), rng.randint(0, 2 ** 31)])
    steps = []
    prev_n = None
    for _ in range(rng.randint(3, 5)):
        cfg = gen_cfg_for_object(rng, frac, N, seed, avoid_n=prev_n, lo=3, hi=120 if rng.random() < 0.5 else 40)
        cores = rng.choice([1, 2, 3, 4] + ([8, 16] if thorough else []))
        steps.append(Step(cfg, cores))
        prev_n = cfg.n
    return Session(frac, N, seed, steps)


# ---- error-path calls
def fault_catalogue(N):
    """every kind of call that ends in an exception, at every point of the call where it can happen:
    statistic raising / returning a non-number on its k-th invocation (0 = probe call, 1 = first sample executed,
    2, middle, N = last), data too short, invalid arguments"""
    ks = sorted({0, 1, 2, max(1, N // 2 + 1), N})
    cat = [dict(type="raise-at", k=k) for k in ks]
    cat += [dict(type="bad-return-at", k=k, what=w) for k, w in zip(ks, ["list", "none", "array", "str", "list"])]
    cat += [dict(type="short-data"), dict(type="bad-num-cores", value=0), dict(type="bad-num-cores", value=-2),
            dict(type="data-not-array"), dict(type="function-not-callable")]
    return cat


def gen_error_sessions(rng, thorough=False):
    """sessions that cover the whole fault catalogue with num_cores = 1 and > 1; every error-path call is followed by a
    valid call (other array / statistic / num_cores) on the same object"""
    frac = rng.choice([0.2, 0.25, 0.3, 0.4, 0.5])
    N = rng.randint(5, 12)
    seed = rng.choice([42, 7, rng.randint(0, 2 ** 31)])
    todo = [(f, c) for f in fault_catalogue(N) for c in (1, rng.choice([2, 3, 4]))]
    rng.shuffle(todo)
    out = []
    while todo:
        steps = []
        prev_n = None
        if rng.random() < 0.5:
            cfg = gen_cfg_for_object(rng, frac, N, seed, lo=6, hi=40, allow_short=False)
            steps.append(Step(cfg, rng.choice([1, 2, 3])))
            prev_n = cfg.n
        for f, c in [todo.pop() for _ in range(min(len(todo), rng.randint(2, 4)))]:
            cf = gen_cfg_for_object(rng, frac, N, seed, avoid_n=prev_n, lo=6, hi=40, allow_short=False)
            steps.append(Step(cf, c, f))
            cv = gen_cfg_for_object(rng, frac, N, seed, avoid_n=cf.n, lo=6, hi=40, allow_short=False)
            steps.append(Step(cv, rng.choice([1, 2, 3] + ([8] if thorough else []))))
            prev_n = cv.n
        out.append(Session(frac, N, seed, steps))
    return out


def run_fault(cfg, cores, obj, fault):
    """an error-path call on `obj`, the exception caught as a caller would; returns the exception's class name or None"""
    arr, _ = cfg.fresh()
    t = fault["type"]
    counter = None
    try:
        try:
            if t in ("raise-at", "bad-return-at"):
                fd, counter = tempfile.mkstemp(prefix="c15_cnt_", suffix=".bin")
                os.close(fd)
                obj.compute_jackknife_estimates(arr, stat, cores, kind=cfg.kind, fault=fault, counter=counter)
            elif t == "short-data":
                obj.compute_jackknife_estimates(arr[:1], stat, cores, kind=cfg.kind)
            elif t == "bad-num-cores":
                obj.compute_jackknife_estimates(arr, stat, fault["value"], kind=cfg.kind)
            elif t == "data-not-array":
                obj.compute_jackknife_estimates(arr.tolist(), stat, cores, kind=cfg.kind)
            elif t == "function-not-callable":
                obj.compute_jackknife_estimates(arr, 3, cores)
            else:
                raise ValueError("unknown fault " + t)
        except Exception as e:  # noqa: BLE001 - this is the caller catching whatever the call raises
            return type(e).__name__
        return None
    finally:
        if counter and os.path.exists(counter):
            os.unlink(counter)


def run_session(sess, rng, stats=None):
    """all calls on ONE object; returns the first failing VALID step (index, clause, what, detail) or None.
    Valid calls are judged against the formula for the object's constructor arguments and the array of that call."""
    from sparkx.Jackknife import Jackknife
    obj = Jackknife(sess.frac, sess.N, sess.seed)
    for k, st in enumerate(sess.steps):
        scramble_global(rng)
        if st.fault is not None:
            obj = clone(obj, st.cfg.dev.get("obj", "plain"))
            exc = run_fault(st.cfg, st.cores, obj, st.fault)
            if stats is not None:
                t = f"{st.fault['type']}" + (f"@{st.fault['k']}" if "k" in st.fault else "")
                stats[f"error-step/{t}/cores={'1' if st.cores == 1 else '>1'}/{'raised ' + exc if exc else 'returned'}"] = \
                    stats.get(f"error-step/{t}/cores={'1' if st.cores == 1 else '>1'}/{'raised ' + exc if exc else 'returned'}", 0) + 1
            continue
        r = run_real(st.cfg, st.cores, obj=obj, want_log=False)
        obj = r.get("obj", obj)  # an object that was copied / pickled before use: the copy carries on
        pr = step_problem(st.cfg, r)
        if pr:
            return (k,) + pr
    return None


def session_check(sess, rng, stats=None):
    """[] or [(key, what, replay_input, detail)]"""
    bad = run_session(sess, rng, stats)
    if bad is None:
        return []
    k, clause, what, detail = bad
    cfg, cores = sess.steps[k].cfg, sess.steps[k].cores
    scramble_global(rng)
    fresh = step_problem(cfg, run_real(cfg, cores, want_log=False))
    if fresh is not None:
        # the call fails on a brand-new object too: not a matter of the object's history
        key = formula_key(cfg) if fresh[0] == "formula" else fresh[0]
        return [(key, fresh[1], cfg.as_json(), fresh[2])]
    # minimise the history: drop earlier calls while the last one still fails in the same way
    hist = Session(sess.frac, sess.N, sess.seed, sess.steps[:k + 1])
    changed = True
    while changed and len(hist.steps) > 1:
        changed = False
        cands = [Session(hist.frac, hist.N, hist.seed, hist.steps[:j] + hist.steps[j + 1:]) for j in range(len(hist.steps) - 1)]
        # an error-path call that can be replaced by the same call without the fault is not what matters
        cands += [Session(hist.frac, hist.N, hist.seed,
                          hist.steps[:j] + [Step(hist.steps[j].cfg, max(1, hist.steps[j].cores))] + hist.steps[j + 1:])
                  for j in range(len(hist.steps) - 1) if hist.steps[j].fault is not None]
        for cand in cands:
            b = run_session(cand, rng)
            if b is not None and b[0] == len(cand.steps) - 1 and b[1] == clause:
                hist = cand
                changed = True
                break
    b = run_session(hist, rng)
    if b is not None:
        what, detail = b[2], b[3]
    inp = hist.as_json(failing_step=len(hist.steps) - 1)
    after_error = any(st.fault is not None for st in hist.steps[:-1])
    detail = dict(detail, fresh_object="same call on a new Jackknife object satisfies the property",
                  history=[st.brief() for st in hist.steps],
                  reproduced_in_new_process=reproduces_in_new_process(inp))
    earlier = [("error-path call " + json.dumps(st.fault) + f" with num_cores={st.cores}") if st.fault
               else f"array of length {st.cfg.n}" for st in hist.steps[:-1]]
    return [(f"instance-reuse-{'after-error-' if after_error else ''}{clause}",
             f"call {len(hist.steps)} on a re-used Jackknife object (earlier: {'; '.join(earlier)}; now an array of length "
             f"{hist.steps[-1].cfg.n}): {what}; a fresh object is right",
             inp, detail)]


def reproduces_in_new_process(inp):
    fd, path = tempfile.mkstemp(prefix="c15_replay_", suffix=".json")
    try:
        with os.fdopen(fd, "w") as fh:
            json.dump(dict(property="C15", input=inp), fh)
        r = subprocess.run([sys.executable, str(common.VERIF / "harness" / "main.py"), "C15", "--replay", path],
                           capture_output=True, text=True, timeout=600)
        return r.returncode == 1 and "VIOLATION" in r.stdout
    except Exception as e:  # noqa: BLE001
        return f"could not be re-run: {type(e).__name__}"
    finally:
        if os.path.exists(path):
            os.unlink(path)


# ------------------------------------------------------------------ array-likes that are not numpy arrays
def array_like_check(cfg, rng, stats):
    """lists / tuples: the docs demand a numpy array (TypeError).  Either that, or - should the code accept them - the
    value for the equivalent array."""
    from sparkx.Jackknife import Jackknife
    out = []
    for form, conv in (("list", lambda a: a.tolist()), ("tuple", lambda a: tuple(a.tolist()))):
        arr, _ = cfg.fresh()
        scramble_global(rng)
        fn, args, kw = call_form(cfg.dev.get("fn", "function"), cfg.kind)
        try:
            v = float(Jackknife(cfg.frac, cfg.N, cfg.seed).compute_jackknife_estimates(conv(arr), fn, rng.choice([1, 2]), *args, **kw))
        except TypeError:
            stats[f"array-like/{form}/TypeError as documented"] = stats.get(f"array-like/{form}/TypeError as documented", 0) + 1
            continue
        except Exception as e:  # noqa: BLE001
            out.append((f"array-like/{form}", f"data given as {form}: documented TypeError, got {type(e).__name__}: {e}",
                        dict(cfg.as_json(), mode="array-like", form=form), dict(raised=type(e).__name__)))
            continue
        stats[f"array-like/{form}/accepted"] = stats.get(f"array-like/{form}/accepted", 0) + 1
        plain = Cfg(cfg.base, "c", cfg.kind, cfg.frac, cfg.N, cfg.seed)
        pr = step_problem(plain, dict(value=v, after=cfg.base))
        if pr:
            out.append((f"array-like/{form}", f"data given as {form} is accepted but: {pr[1]}",
                        dict(cfg.as_json(), mode="array-like", form=form), pr[2]))
    return out


# ------------------------------------------------------------------ other interpreter sessions
def child_main(path):
    """entry point of a child interpreter: run the cases of the file after advancing the generators, print the values"""
    job = json.loads(open(path).read())
    r = random.Random(job["advance"])
    out = []
    for cj, cores in job["cases"]:
        scramble_global(r)
        for _ in range(r.randint(0, 50)):
            random.random()
            np.random.random()
        res = run_real(Cfg.from_json(cj), cores, want_log=False)
        out.append(f2h(res["value"]) if "value" in res else "err:" + res.get("msg", ""))
    print("C15CHILD " + json.dumps(out))


def cross_session_values(cases, rng, nchildren=3):
    """{label: [hex value per case]} for this process and `nchildren` fresh interpreters with different PYTHONHASHSEED"""
    res = {}
    mine = []
    for cfg, cores in cases:
        scramble_global(rng)
        r = run_real(cfg, cores, want_log=False)
        mine.append(f2h(r["value"]) if "value" in r else "err:" + r.get("msg", ""))
    res[f"this process (PYTHONHASHSEED={os.environ.get('PYTHONHASHSEED', 'unset')})"] = mine
    hdir = str(common.VERIF / "harness")
    procs = []
    tmp = tempfile.mkdtemp(prefix="c15_child_")
    try:
        for i, hs in enumerate((["0", "1"] + [str(rng.randint(2, 4_000_000_000)) for _ in range(8)])[:nchildren]):
            path = os.path.join(tmp, f"job{i}.json")
            with open(path, "w") as fh:
                json.dump(dict(advance=rng.getrandbits(32), cases=[(c.as_json(), k) for c, k in cases]), fh)
            code = ("import sys; sys.path.insert(0, %r); sys.path.insert(0, %r); import props.C15 as m; m.child_main(%r)"
                    % (hdir, str(common.REPO / "src"), path))
            procs.append((hs, subprocess.Popen([sys.executable, "-c", code], env=dict(os.environ, PYTHONHASHSEED=hs),
                                               stdout=subprocess.PIPE, stderr=subprocess.PIPE, text=True)))
        for hs, p_ in procs:
            try:
                so, se = p_.communicate(timeout=600)
            except subprocess.TimeoutExpired:
                p_.kill()
                so, se = "", "timeout"
            line = [l for l in so.splitlines() if l.startswith("C15CHILD ")]
            res[f"child interpreter PYTHONHASHSEED={hs}"] = json.loads(line[-1][9:]) if line else ["child failed: " + se[-300:]] * len(cases)
    finally:
        shutil.rmtree(tmp, ignore_errors=True)
    return res


def cross_session_check(cases, rng, nchildren=3):
    """[] or [(key, what, replay_input, detail)]: the same call in different interpreter sessions"""
    res = cross_session_values(cases, rng, nchildren)
    out = []
    for i, (cfg, cores) in enumerate(cases):
        vals = {lab: v[i] for lab, v in res.items()}
        if len(set(vals.values())) > 1:
            shown = {lab: (h2f(v) if len(v) == 16 and not v.startswith("err") and not v.startswith("child") else v) for lab, v in vals.items()}
            out.append(("determinism/across-interpreter-sessions",
                        f"n={cfg.n} d={cfg.d} N={cfg.N} seed={cfg.seed} ({cfg.kind}, num_cores={cores}): the value differs between "
                        f"interpreter sessions: {shown}", dict(cfg.as_json(), mode="cross-session", num_cores=cores), dict(values=shown)))
            break
    return out


# ------------------------------------------------------------------ magnitude sweeps
K_BINS = [-996, -700, -440, -300, -150, -80, -50, -36, -28, -22, -16, -8, -1,
          1, 8, 16, 22, 28, 36, 50, 80, 150, 300, 440, 700, 996]


def gen_sweep_base(rng, i):
    """order-one dyadic data (multiples of 1/16 below 32): 2^k x and x + 2^j are exact for every k, j used"""
    two_d = (i % 2 == 1)
    n = rng.randint(6, 40)
    d = rng.randint(1, n - 1) if i % 3 else 1
    frac = (d + 0.5) / n
    N = rng.randint(4, 24)
    kind = rng.choice(["wmean", "rms", "mean", "maxabs"] if two_d else ["mean", "rms", "maxabs", "slowmean"])
    if i < 2:
        kind = "mean" if i == 0 else "wmean"
    ncols = 2 if two_d else None
    cnt = n * (ncols or 1)
    if rng.random() < 0.3 and kind != "wmean":
        # tiny relative spread around an order-one level
        lvl = rng.choice([1.0, 8.0, -16.0])
        vals = [lvl + rng.randint(-400, 400) * 2.0 ** -rng.choice([20, 30]) for _ in range(cnt)]
    else:
        vals = [rng.randint(-400, 400) / 16.0 for _ in range(cnt)]
    base = np.array(vals, dtype="float64").reshape((n, ncols) if two_d else (n,))
    if kind == "wmean":
        base[:, 1] = np.abs(base[:, 1]) + 0.5
    return Cfg(base, rng.choice(["c", "f", "strided"]), kind, frac, N, rng.choice([42, rng.randint(0, 2 ** 31)]))


def law_range_ok(cfg, k, ths):
    """may every floating-point step of statistic and estimate be scaled by 2^k without leaving the normal range?"""
    xs = [abs(float(x)) for x in np.asarray(cfg.base, dtype="float64").reshape(-1) if x != 0]
    F = [Fraction(t) for t in ths]
    m = sum(F) / len(F)
    devs = [abs(t - m) for t in F if t != m]
    mags = [Fraction(x) for x in xs] + devs + [abs(t) for t in F if t != 0]
    if not mags:
        return False
    lo, hi = min(mags) * TWO ** k, max(mags) * TWO ** k
    return TWO ** -440 <= lo and hi <= TWO ** 440


def magnitude_check(cfg, rng, dense=False):
    """[] or [(key, what, replay_input, detail)]; counts what it could assert in `stats`"""
    out, stats = [], {}

    def cnt(t):
        stats[t] = stats.get(t, 0) + 1
    cores = rng.choice([1, 2, 3])
    scramble_global(rng)
    r0 = run_real(cfg, cores, want_log=False)
    pr = step_problem(cfg, r0)
    if pr or "err" in r0:
        if pr:
            out.append((formula_key(cfg) if pr[0] == "formula" else pr[0], pr[1], cfg.as_json(), pr[2]))
        return out, stats
    v0 = r0["value"]
    ths0 = subsample_stats(cfg)
    seen = set()
    law = dict(scale_ok=[], scale_bad=[], shift_ok=[], shift_bad=[])  # exponents at which each law held / failed
    # ---- scaling by +-2^k
    ks = []
    for a, b in zip(K_BINS[:-1], K_BINS[1:]):
        for _ in range(3 if dense else 1):
            ks.append(rng.randint(a, b))
    if HOMOG.get(cfg.kind):
        for k in ks:
            if k == 0:
                continue
            sign = rng.choice([-1.0, 1.0])
            c = math.ldexp(sign, k)
            sb = cfg.base * c
            if not (np.all(np.isfinite(sb)) and np.array_equal(sb / c, cfg.base)):
                cnt("scale/not-exactly-representable")
                continue
            sc = Cfg(sb, cfg.layout, cfg.kind, cfg.frac, cfg.N, cfg.seed)
            scramble_global(rng)
            r = run_real(sc, rng.choice([1, 2, 3]), want_log=False)
            if not law_range_ok(cfg, k, ths0):
                cnt("scale/outside-float-range(run, not asserted)")
                continue
            rg = cfg_regime(sc)
            prs = step_problem(sc, r)
            if prs:
                key = formula_key(sc) if prs[0] == "formula" else prs[0]
                if key not in seen:
                    seen.add(key)
                    out.append((key, prs[1], sc.as_json(), prs[2]))
                if "err" in r:
                    continue
            want = math.ldexp(v0, k)
            got = r["value"]
            cnt("scale/asserted")
            if got == want:
                cnt("scale/bit-exact")
            good = math.isfinite(got) and abs(got - want) <= 8 * 2 * ULP * want
            law["scale_ok" if good else "scale_bad"].append(k)
            if not good:
                key = f"scaling/{cfg.kind}/{rg}"
                if key not in seen:
                    seen.add(key)
                    out.append((key, f"estimate(c x) = {got!r} but |c| estimate(x) = {want!r} for c = {'-' if sign < 0 else ''}2^{k} "
                                     f"(c x is exact; statistic {cfg.kind})",
                                dict(mode="scale", base=cfg.as_json(), k=k, sign=sign), dict(c=c, scaled=got, base=v0, expected=want)))
    # ---- shifting by +-2^j (statistic = mean)
    if cfg.kind in ("mean", "slowmean"):
        js = list(range(0, 41, 2)) if dense else [0, 4, 10, 14, 17, 20, 24, 30, 35, 40]
        f = (cfg.n - cfg.d) / (cfg.d * cfg.N)
        for j in js:
            s = math.ldexp(rng.choice([-1.0, 1.0]), j)
            sb = cfg.base + s
            if not np.array_equal(sb - s, cfg.base):
                cnt("shift/not-exactly-representable")
                continue
            sh = Cfg(sb, cfg.layout, cfg.kind, cfg.frac, cfg.N, cfg.seed)
            scramble_global(rng)
            r = run_real(sh, rng.choice([1, 2, 3]), want_log=False)
            rg = cfg_regime(sh)
            prs = step_problem(sh, r)
            if prs:
                key = formula_key(sh) if prs[0] == "formula" else prs[0]
                if key not in seen:
                    seen.add(key)
                    out.append((key, prs[1], sh.as_json(), prs[2]))
                if "err" in r:
                    continue
            # |est(theta~) - est(theta)| <= sqrt(f) ||theta~ - theta||_2: rounding of the shifted statistic's values
            ths = subsample_stats(sh)
            eth = max(abs(Fraction(t) - (Fraction(t0) + Fraction(s))) for t, t0 in zip(ths, ths0))
            tmax = max(abs(t) for t in ths)
            tl = math.sqrt(f * cfg.N) * (float(eth) + (cfg.N + 2) * ULP * (tmax + max(abs(t) for t in ths0))) + 64 * ULP * v0
            if tl > 0.25 * v0:
                cnt("shift/rounding-of-the-statistic-dominates(run, not asserted)")
                continue
            cnt("shift/asserted")
            got = r["value"]
            good = math.isfinite(got) and abs(got - v0) <= tl
            law["shift_ok" if good else "shift_bad"].append(j)
            if not good:
                key = f"shift-mean/{rg}"
                if key not in seen:
                    seen.add(key)
                    out.append((key, f"estimate(x + s) = {got!r} but estimate(x) = {v0!r} for s = {s!r} (x + s is exact; tolerance {tl:.3g})",
                                dict(mode="shift", base=cfg.as_json(), s=s), dict(s=s, shifted=got, base=v0, tolerance=tl)))
    for o in out:
        if o[0].startswith("scaling/"):
            o[3]["law_failed_for_c=2^k,k="] = sorted(law["scale_bad"])
            o[3]["law_held_for_c=2^k,k="] = sorted(law["scale_ok"])
        if o[0].startswith("shift-mean/"):
            o[3]["law_failed_for_s=2^j,j="] = sorted(law["shift_bad"])
            o[3]["law_held_for_s=2^j,j="] = sorted(law["shift_ok"])
    return out, stats


def law_replay(inp, rng):
    """re-check one scaling / shift law instance from a replay file"""
    cfg = Cfg.from_json(inp["base"])
    v0 = run_real(cfg, 2, want_log=False)["value"]
    if inp["mode"] == "scale":
        k, sign = int(inp["k"]), float(inp["sign"])
        sc = Cfg(cfg.base * math.ldexp(sign, k), cfg.layout, cfg.kind, cfg.frac, cfg.N, cfg.seed)
        got = run_real(sc, 2, want_log=False).get("value")
        want = math.ldexp(v0, k)
        if got is None or not (math.isfinite(got) and abs(got - want) <= 16 * ULP * want):
            return [(f"scaling/{cfg.kind}/{cfg_regime(sc)}", f"estimate(c x) = {got!r} but |c| estimate(x) = {want!r} (c = {sign}*2^{k})")]
        return []
    s = float(inp["s"])
    sh = Cfg(cfg.base + s, cfg.layout, cfg.kind, cfg.frac, cfg.N, cfg.seed)
    got = run_real(sh, 2, want_log=False).get("value")
    ths0, ths = subsample_stats(cfg), subsample_stats(sh)
    f = (cfg.n - cfg.d) / (cfg.d * cfg.N)
    eth = max(abs(Fraction(t) - (Fraction(t0) + Fraction(s))) for t, t0 in zip(ths, ths0))
    tl = math.sqrt(f * cfg.N) * (float(eth) + (cfg.N + 2) * ULP * (max(abs(t) for t in ths) + max(abs(t) for t in ths0))) + 64 * ULP * v0
    if got is None or not (math.isfinite(got) and abs(got - v0) <= tl):
        return [(f"shift-mean/{cfg_regime(sh)}", f"estimate(x + s) = {got!r} but estimate(x) = {v0!r} (s = {s!r}, tolerance {tl:.3g})")]
    return []


# ------------------------------------------------------------------ shrinking single-call failures
def shrink(cfg, key, rng):
    """smaller n / N that still shows the same failure"""
    cur = cfg
    changed = True
    while changed:
        changed = False
        cands = []
        if cur.N > 2:
            cands.append(Cfg(cur.base, "c", cur.kind, cur.frac, max(2, cur.N // 2), cur.seed))
            cands.append(Cfg(cur.base, "c", cur.kind, cur.frac, cur.N - 1, cur.seed))
        if cur.n > 3:
            for m in (max(3, cur.n // 2), cur.n - 1):
                fr = (cur.d + 0.5) / m
                if cur.d < m and fr < 1.0 and int(fr * m) == cur.d:
                    cands.append(Cfg(cur.base[:m].copy(), "c", cur.kind, fr, cur.N, cur.seed))
        if cur.d > 2:
            for dd in (2, cur.d // 2, cur.d - 1):
                fr = (dd + 0.5) / cur.n
                if 2 <= dd < cur.d and int(fr * cur.n) == dd:
                    cands.append(Cfg(cur.base, "c", cur.kind, fr, cur.N, cur.seed))
        for c in cands:
            if any(k == key for k, _, _ in oracle_check(c, rng, cores_list=[1, 2])):
                cur = c
                changed = True
                break
    return cur


def search(ctx, budget_s):
    rng = ctx.rng
    t0 = time.time()
    n = 0
    found = set()
    HOW = "./check C15 --replay <this file>"

    def report(cfg, probs):
        for key, what, detail in probs:
            if key in found or sum(1 for k in found if k.split("/")[0] == key.split("/")[0]) >= 2:
                continue
            found.add(key)
            small = shrink(cfg, key, rng) if key.startswith("formula/d") else cfg
            p2 = [p for p in oracle_check(small, rng, cores_list=[1, 2]) if p[0] == key] or [(key, what, detail)]
            ctx.violation(key, p2[0][1], dict(input=small.as_json(), detail=p2[0][2], how_to_replay=HOW))

    def report4(probs):
        for key, what, inp, detail in probs:
            if key in found or sum(1 for k in found if k.split("/")[0] == key.split("/")[0]) >= 2:
                continue  # one defect shows in many magnitude classes: two witnesses per clause are enough
            found.add(key)
            ctx.violation(key, what, dict(input=inp, detail=detail, how_to_replay=HOW))
    for case in corpus():
        cfg = Cfg.from_json(case)
        report(cfg, oracle_check(cfg, rng))
        n += 1
    # (1) long-lived objects serving sequences of calls
    ns = 0
    for i in range(ctx.n(5, 25)):
        sess = gen_session(rng, ctx.thorough)
        probs = session_check(sess, rng)
        ns += 1
        ds = {st.cfg.d for st in sess.steps}
        ctx.case(("session", sess.canon()), len(ds) >= 2)
        ctx.count("oracle/session-calls", len(sess.steps))
        ctx.count(f"oracle/session-distinct-d={min(len(ds), 4)}")
        if any(st.cfg.d < 1 for st in sess.steps):
            ctx.count("oracle/session-with-inadmissible-call")
        report4(probs)
        if any(k.startswith("instance-reuse") for k in found):
            break
    # (1b) the same with error-path calls (caught by the caller) between the valid ones: whole fault catalogue x
    #      num_cores in {1, >1}
    ne = 0
    for rep in range(ctx.n(1, 4)):
        for sess in gen_error_sessions(rng, ctx.thorough):
            st_ = {}
            probs = session_check(sess, rng, st_)
            ne += 1
            for t, k in st_.items():
                ctx.count("oracle/" + t, k)
            ctx.case(("error-session", sess.canon()), True)
            ctx.count("oracle/error-session-calls", len(sess.steps))
            report4(probs)
    ctx.cov["oracle_error_sessions"] = ne
    # (1c) lists / tuples instead of arrays; (1d) the same calls in other interpreter sessions
    st_ = {}
    for i in range(ctx.n(2, 6)):
        report4(array_like_check(gen_cfg(rng, allow_mut=False, small=True), rng, st_))
    for t, k in st_.items():
        ctx.count("oracle/" + t, k)
    cases = []
    for i in range(ctx.n(3, 8)):
        c = gen_cfg(rng, want_d1=(i == 0), allow_mut=False, small=(i % 2 == 0), magnitude=(i == 2))
        if i == 1:  # more than half of the rows deleted
            dd = c.n - max(1, c.n // 4)
            c = Cfg(c.base, c.layout, c.kind, (dd + 0.5) / c.n, c.N, c.seed, c.dev)
        cases.append((c, rng.choice([1, 2, 3])))
        ctx.case(("cross-session", c.canon()), True)
    nch = ctx.n(3, 4)
    report4(cross_session_check(cases, rng, nch))
    ctx.count("oracle/cross-session-cases", len(cases))
    ctx.count("oracle/cross-session-child-interpreters", nch)
    # (2) magnitude sweeps for the formula, the scaling law and the shift law
    nm = 0
    for i in range(ctx.n(3, 10)):
        cfg = gen_sweep_base(rng, i)
        probs, stats = magnitude_check(cfg, rng, dense=ctx.thorough)
        nm += 1
        for t, k in stats.items():
            ctx.count("oracle/sweep/" + t, k)
        ctx.case(("sweep", cfg.canon()), True)
        report4(probs)
        if len([k for k in found if k.split("/")[0] in ("formula", "scaling", "shift-mean")]) >= 4:
            break
    # (3) random single-call configurations, some of them at other magnitudes
    limit = 400 if ctx.thorough else 60
    t0 = time.time()  # the directed phases above are bounded by their case counts; the budget is for the random phase
    while time.time() - t0 < budget_s and n < limit:
        cfg = gen_cfg(rng, want_d1=(n % 3 == 0), allow_mut=False, small=(n % 2 == 0), magnitude=(n % 5 == 4))
        probs = oracle_check(cfg, rng)
        n += 1
        ctx.case(("oracle", cfg.canon()), True)
        ctx.count("oracle/d=1" if cfg.d == 1 else "oracle/d>1")
        ctx.count("oracle/data-regime=" + cfg_regime(cfg))
        if probs:
            report(cfg, probs)
            if len(found) >= 5:
                break
    ctx.cov["oracle_cases"] = n
    ctx.cov["oracle_sessions"] = ns
    ctx.cov["oracle_magnitude_sweeps"] = nm


def corpus():
    p = common.VERIF / "harness/corpus/C15"
    out = []
    if p.exists():
        for f in sorted(p.glob("*.json")):
            out.append(json.loads(f.read_text()))
    return out


def replay(ctx, path):
    d = json.loads(open(path).read())
    inp = d.get("input")
    if not inp:
        print(f"[C15] replay file names a broken obligation, not an input: {d.get('broken')}")
        return 1
    mode = inp.get("mode", "single")
    if mode == "session":
        sess = Session.from_json(inp)
        bad = run_session(sess, ctx.rng)
        probs = []
        if bad is not None:
            k, clause, what, _ = bad
            cfg, cores = sess.steps[k].cfg, sess.steps[k].cores
            fresh = step_problem(cfg, run_real(cfg, cores, want_log=False))
            ae = "after-error-" if any(st.fault is not None for st in sess.steps[:k]) else ""
            key = f"instance-reuse-{ae}{clause}" if fresh is None else clause
            probs = [(key, f"call {k + 1} of {len(sess.steps)} on one Jackknife object: {what}" +
                      ("; the same call on a fresh object is right" if fresh is None else ""))]
    elif mode in ("scale", "shift"):
        probs = law_replay(inp, ctx.rng)
    elif mode == "cross-session":
        probs = [(k, w) for k, w, _, _ in cross_session_check([(Cfg.from_json(inp), int(inp.get("num_cores", 2)))], ctx.rng, 3)]
    elif mode == "array-like":
        probs = [(k, w) for k, w, _, _ in array_like_check(Cfg.from_json(inp), ctx.rng, {})]
    else:
        cfg = Cfg.from_json(inp)
        probs = [(k, w) for k, w, _ in oracle_check(cfg, ctx.rng, cores_list=[1, 2, 5])]
    if probs:
        print(f"VIOLATION property=C15 replay={path}")
        for key, what in probs:
            print(f"[{key}] {what}")
        return 1
    print("[C15] replay: property holds on this input now")
    return 0
