"""C15 — Jackknife estimate is schedule-independent and matches the delete-d formula.

Tie T: harness/translate/jackknife.py regenerates Gen/Jackknife.lean (per-task reseed, loop body, variance-scaling
statements, probe slice) from the tree under test.
Tie C: the real `compute_jackknife_estimates` is run with many worker counts, a statistic with data-dependent delays,
scrambled global `random` state and repeated calls; the schedule that the real pool actually executed is observed
(pid / start time / checksum of the reduced array logged by the statistic) and fed, with the index lists drawn by the
real `random` module, to the Lean driver (model `compute` at Float).  All real outputs of one configuration must be
bit-identical and within 1e-12 of the model and of the executable spec formula.
Search: the property itself on the real code with references computed here (numpy, `math.fsum`), never the model.
"""
import json
import math
import os
import random
import tempfile
import time
import warnings
import zlib

import numpy as np

import common
from common import f2h, h2f
from translate import jackknife as tj

warnings.filterwarnings("ignore")

KINDS_1D = ["mean", "slowmean", "rms", "maxabs", "mutmean"]
KINDS_2D = ["mean", "slowmean", "rms", "maxabs", "wmean", "mutmean"]
HOMOG = {"mean": "lin", "slowmean": "lin", "wmean": "lin", "rms": "abs", "maxabs": "abs"}


# ------------------------------------------------------------------ translator (tie T)
def translate(ctx):
    text, regions = tj.render(common.read_src("Jackknife.py"))
    changed = common.write_if_changed(common.LEAN / "SparkxVerif/Gen/Jackknife.lean", text)
    golden = common.LEAN / "golden/Gen/Jackknife.lean"
    ctx.cov["gen_equals_golden"] = golden.exists() and golden.read_text() == text
    if changed:
        ctx.notes.append("Gen/Jackknife.lean regenerated (source differs from last run)")
    return regions


# ------------------------------------------------------------------ the statistic handed to the real code
def stat(x, kind="mean", log=None, slow=0):
    """User statistic.  Runs in the pool's worker processes (and once, as the probe call, in the parent).
    `slow` > 0 adds a delay that depends on the data it sees, which perturbs the completion order of the tasks.
    `log` = path of a file to which (pid, start, end, checksum of the array seen) is appended."""
    t0 = time.monotonic_ns()
    crc = zlib.crc32(np.ascontiguousarray(x).tobytes())
    if kind in ("mean", "slowmean"):
        v = float(np.mean(x))
    elif kind == "rms":
        v = float(np.sqrt(np.mean(x * x)))
    elif kind == "wmean":
        v = float(np.sum(x[:, 0] * x[:, 1]) / np.sum(x[:, 1]))
    elif kind == "maxabs":
        v = float(np.max(np.abs(x)))
    elif kind == "mutmean":
        v = float(np.mean(x))
        x[...] = 0.0  # writes into the array it was handed
    else:
        raise ValueError(kind)
    if slow:
        time.sleep(((crc >> 3) % 5) * slow * 1e-3)
    if log:
        fd = os.open(log, os.O_WRONLY | os.O_APPEND | os.O_CREAT)
        os.write(fd, f"{os.getpid()} {t0} {time.monotonic_ns()} {crc}\n".encode())
        os.close(fd)
    return v


def ref_stat(x, kind):
    return stat(np.array(x, copy=True), kind=("mean" if kind == "mutmean" else kind))


# ------------------------------------------------------------------ real generator draws (parameter of the model)
def draws_for(seed, n, d, N):
    st = random.getstate()
    try:
        out = []
        for i in range(N):
            random.seed(seed + i)
            out.append(random.sample(range(n), d))
    finally:
        random.setstate(st)
    return out


def check_draw_contract(draws, n, d):
    return all(len(x) == d and len(set(x)) == d and all(0 <= i < n for i in x) for x in draws)


# ------------------------------------------------------------------ configurations
class Cfg:
    def __init__(self, base, layout, kind, frac, N, seed):
        self.base = base  # C-contiguous float64/int64 array holding the logical data
        self.layout = layout  # "c" | "f" | "strided"
        self.kind = kind
        self.frac = frac
        self.N = N
        self.seed = seed
        self.n = len(base)
        self.d = int(frac * self.n)

    def fresh(self):
        """a new array object with the requested memory layout and the logical content of `base`"""
        b = self.base
        if self.layout == "f" and b.ndim == 2:
            return np.asfortranarray(b.copy()), None
        if self.layout == "strided":
            big = np.zeros((2 * self.n,) + b.shape[1:], dtype=b.dtype)
            big[::2] = b
            big[1::2] = -77
            return big[::2], big
        return b.copy(), None

    def canon(self):
        return (self.base.shape, str(self.base.dtype), self.base.tobytes(), self.layout, self.kind, self.frac, self.N,
                self.seed)

    def as_json(self):
        return dict(data=self.base.tolist(), dtype=str(self.base.dtype), layout=self.layout, kind=self.kind,
                    frac=self.frac, N=self.N, seed=self.seed, n=self.n, d=self.d)

    @staticmethod
    def from_json(j):
        return Cfg(np.array(j["data"], dtype=j.get("dtype", "float64")), j.get("layout", "c"), j["kind"],
                   float(j["frac"]), int(j["N"]), int(j["seed"]))


def gen_cfg(rng, want_d1=None, allow_mut=True, small=False):
    two_d = rng.random() < 0.45
    n = rng.randint(3, 14 if small else 60)
    if want_d1 is None:
        want_d1 = rng.random() < 0.3
    d = 1 if want_d1 else rng.randint(1, n - 1)
    frac = (d + 0.5) / n
    assert int(frac * n) == d and 0.0 < frac < 1.0
    N = rng.randint(2, 12 if small else 40)
    kinds = [k for k in (KINDS_2D if two_d else KINDS_1D) if allow_mut or k != "mutmean"]
    kind = rng.choice(kinds)
    ncols = rng.randint(2, 3) if two_d else None
    shape = (n, ncols) if two_d else (n,)
    style = rng.choice(["dyadic", "dyadic", "uniform", "int"])
    if kind in ("wmean", "mutmean", "rms") and style == "int":
        style = "dyadic"
    cnt = n * (ncols or 1)
    if style == "dyadic":
        vals = [rng.randint(-400, 400) / 16.0 for _ in range(cnt)]
    elif style == "uniform":
        vals = [rng.uniform(-3.0, 5.0) for _ in range(cnt)]
    else:
        vals = [rng.randint(-50, 50) for _ in range(cnt)]
    base = np.array(vals, dtype=("int64" if style == "int" else "float64")).reshape(shape)
    if kind == "wmean":
        base[:, 1] = np.abs(base[:, 1]) + 0.5  # positive weights
    layout = rng.choice(["c", "c", "f", "strided"])
    seed = rng.choice([42, 0, rng.randint(-5, 5), rng.randint(0, 2 ** 31), rng.randint(-2 ** 40, 2 ** 40)])
    return Cfg(base, layout, kind, frac, N, seed)


# ------------------------------------------------------------------ running the real code
def scramble_global(rng):
    """put the process-global `random` generator (and numpy's) into an arbitrary state"""
    random.seed(rng.getrandbits(64))
    for _ in range(rng.randint(0, 5)):
        random.random()
    np.random.seed(rng.getrandbits(32))


def run_real(cfg, cores, slow=0, obj=None, want_log=True):
    from sparkx.Jackknife import Jackknife
    arr, big = cfg.fresh()
    big_before = None if big is None else big.copy()
    log = None
    if want_log:
        fd, log = tempfile.mkstemp(prefix="c15_", suffix=".log")
        os.close(fd)
    try:
        j = obj if obj is not None else Jackknife(cfg.frac, cfg.N, cfg.seed)
        try:
            r = j.compute_jackknife_estimates(arr, stat, cores, kind=cfg.kind, log=log, slow=slow)
        except ValueError as e:
            return dict(err="value", msg=str(e), after=np.array(arr, copy=True))
        entries = []
        if log:
            me = os.getpid()
            for ln in open(log).read().splitlines():
                pid, t0, t1, crc = (int(t) for t in ln.split())
                if pid != me:
                    entries.append((t0, t1, pid, crc))
    finally:
        if log and os.path.exists(log):
            os.unlink(log)
    res = dict(value=float(r), type_ok=isinstance(r, float), after=np.array(arr, copy=True), entries=sorted(entries))
    if big is not None:
        res["padding_ok"] = bool(np.array_equal(big[1::2], big_before[1::2]))
    return res


def observed_schedule(cfg, data_after_probe, draws, entries):
    """map the statistic's log to a schedule [(worker, task)] in start order; None if it cannot be resolved"""
    by_crc = {}
    for i, idx in enumerate(draws):
        red = np.delete(data_after_probe, idx, axis=0)
        by_crc.setdefault(zlib.crc32(np.ascontiguousarray(red).tobytes()), []).append(i)
    workers = {}
    sched = []
    for t0, t1, pid, crc in entries:
        lst = by_crc.get(crc)
        if not lst:
            return None
        w = workers.setdefault(pid, len(workers))
        sched.append((w, lst.pop(0)))
    if sorted(i for _, i in sched) != list(range(len(draws))):
        return None
    return sched


def out_of_order(entries, sched):
    """did some task finish before a task with a smaller index? (completion order differs from task order)"""
    ends = {i: e[1] for (w, i), e in zip(sched, entries)}
    order = sorted(ends, key=lambda i: ends[i])
    return order != sorted(order)


def data_after_probe(cfg):
    a = np.array(cfg.base, copy=True)
    if cfg.kind == "mutmean":
        a[: max(1, cfg.n // 100)] = 0.0
    return a


def enc_line(cfg, draws, sched):
    flat = np.asarray(cfg.base, dtype="float64").reshape(-1)
    ncols = 1 if cfg.base.ndim == 1 else cfg.base.shape[1]
    dr = "|".join(",".join(str(i) for i in x) for x in draws) if cfg.d >= 1 else "-"
    sc = ";".join(f"{w}:{i}" for w, i in sched)
    return "\t".join(["call", cfg.kind, str(cfg.seed), str(cfg.d), str(cfg.N), str(ncols), common.fl(flat), dr, sc])


def tol(*xs):
    return 1e-12 * max([1.0] + [abs(x) for x in xs])


# ------------------------------------------------------------------ correspondence (tie C)
def correspond(ctx):
    rng = ctx.rng
    ctx.rule = ("configurations = (1-D / 2-D data of 3..60 rows in C / Fortran / strided layout, float or int, statistic in "
                "{mean, slow mean, rms, max|x|, weighted mean, a statistic that zeroes its argument}, delete fraction giving "
                "d in 1..n-1 with d=1 over-represented, N in 2..40, seeds incl. negative and > 2^31); every configuration "
                "is run on the real class with several num_cores, data-dependent delays, scrambled global random state and "
                "repeated calls on one object; the schedule actually executed by the real pool is observed and replayed on "
                "the model. case = (configuration, num_cores, observed schedule); non-trivial = at least two worker "
                "processes executed tasks, or d = 1, or the statistic writes into its argument")
    ctx.assumptions += [
        "C15: Python's `random` (seed, sample) is a parameter of the model; the harness supplies the real draws and checks "
        "on each that `sample(range(n), d)` returned d distinct indices below n",
        "C15: the OS / multiprocessing scheduler is outside the model: the theorem covers every schedule of the abstract "
        "pool (any assignment of tasks to workers, any order, any worker generator state); real schedules are sampled "
        "and each observed one is replayed on the model",
        "C15: d = int(delete_fraction * len(data)) is computed by Python and handed to the model (1 <= d < n checked); "
        "integer sub-expressions of the scaling statements are rendered in Nat (agrees with Python ints for d <= n, N >= 1)",
        "C15: the statistic is a function of the array it is handed; data_unmodified assumes it does not write into its "
        "argument (the probe call `function(data[:max(1, n//100)])` hands it a VIEW of the caller's array)",
    ]
    ncfg = ctx.n(4, 30)
    if ctx.thorough:
        core_sets = [list(range(1, 17))] * ncfg
    else:
        core_sets = [sorted({1, 2, 16, rng.randint(3, 6), rng.randint(7, 12), rng.randint(13, 15)}) for _ in range(ncfg)]
    cfgs = [Cfg.from_json(c) for c in corpus()]
    for i in range(ncfg):
        cfgs.append(gen_cfg(rng, want_d1=(i % 3 == 0)))
    # one inadmissible configuration (delete fraction too small -> d = 0 -> the call raises)
    bad = gen_cfg(rng, want_d1=True, allow_mut=False)
    bad.frac = 0.5 / bad.n
    bad.d = int(bad.frac * bad.n)
    cfgs.append(bad)
    lines, meta = [], []
    for ci, cfg in enumerate(cfgs):
        cores_list = core_sets[ci % len(core_sets)]
        if cfg.d < 1:
            scramble_global(rng)
            r = run_real(cfg, 2, want_log=False)
            lines.append(enc_line(cfg, [], [(0, i) for i in range(cfg.N)]))
            meta.append((cfg, 2, r, None, None, "raise"))
            continue
        draws = draws_for(cfg.seed, cfg.n, cfg.d, cfg.N)
        if not check_draw_contract(draws, cfg.n, cfg.d):
            ctx.brk("correspondence-broken", "random.sample contract violated by a supplied draw", case=cfg.as_json())
            continue
        dap = data_after_probe(cfg)
        runs = []
        for cores in cores_list:
            scramble_global(rng)
            slow = rng.choice([0, 1, 2]) if cfg.kind != "slowmean" else 2
            runs.append((cores, run_real(cfg, cores, slow=slow), "fresh"))
        # repeated calls on ONE object, another call (other data, other state) in between
        from sparkx.Jackknife import Jackknife
        obj = Jackknife(cfg.frac, cfg.N, cfg.seed)
        c1, c2 = rng.choice(cores_list), rng.choice(cores_list)
        scramble_global(rng)
        runs.append((c1, run_real(cfg, c1, slow=1, obj=obj), "object-first"))
        other = gen_cfg(rng, allow_mut=False, small=True)
        other.frac, other.N, other.seed = cfg.frac, cfg.N, cfg.seed
        other.d = int(other.frac * other.n)
        scramble_global(rng)
        run_real(other, rng.choice([1, 3]), obj=obj, want_log=False)
        scramble_global(rng)
        runs.append((c2, run_real(cfg, c2, slow=0, obj=obj), "object-again"))
        vals = set()
        for cores, r, how in runs:
            if "err" in r:
                ctx.brk("correspondence-broken", f"real call raised {r['msg']!r} for an admissible configuration",
                        case=dict(cfg=cfg.as_json(), num_cores=cores))
                continue
            sched = observed_schedule(cfg, dap, draws, r["entries"])
            unresolved = sched is None
            if unresolved:
                sched = [(0, i) for i in range(cfg.N)]
                ctx.count("schedule-not-resolved")
            lines.append(enc_line(cfg, draws, sched))
            meta.append((cfg, cores, r, sched, draws, how))
            vals.add(f2h(r["value"]))
        if len(vals) > 1:
            ctx.brk("correspondence-broken",
                    f"real outputs of one configuration are not bit-identical across num_cores/schedules/global state/repeats: {sorted(vals)}",
                    case=dict(cfg=cfg.as_json(), runs=[(c, r.get("value"), how) for c, r, how in runs]))
    outs = common.run_driver("C15", lines)
    seen_scheds = set()
    for (cfg, cores, r, sched, draws, how), out in zip(meta, outs):
        if how == "raise":
            ok = ("err" in r) and out == "err value" and np.array_equal(r["after"], cfg.base)
            ctx.case(("raise", cfg.canon()), False, sample=dict(op="inadmissible", cfg=cfg.as_json(), code=r.get("err"), model=out))
            ctx.count("inadmissible-d=0")
            if not ok:
                ctx.brk("correspondence-broken", f"inadmissible fraction: code {r.get('err', r.get('value'))!r} vs model {out!r}",
                        case=cfg.as_json())
            continue
        workers_used = len({w for w, _ in sched})
        ooo = out_of_order(r["entries"], sched) if len(r["entries"]) == len(sched) else False
        nontriv = workers_used >= 2 or cfg.d == 1 or cfg.kind == "mutmean"
        ctx.case((cfg.canon(), cores, tuple(sched)), nontriv,
                 sample=dict(cfg=cfg.as_json(), num_cores=cores, how=how, observed_schedule=sched, code=r["value"], model=out[:200]))
        seen_scheds.add((cfg.canon(), tuple(sched)))
        ctx.count(f"cores={cores}")
        ctx.count(f"kind={cfg.kind}")
        ctx.count(f"ndim={cfg.base.ndim}/layout={cfg.layout}/{cfg.base.dtype}")
        ctx.count("d=1" if cfg.d == 1 else "d>1")
        ctx.count(f"workers_used={workers_used}")
        ctx.count("completion-out-of-task-order" if ooo else "completion-in-task-order")
        ctx.count(f"call={how}")
        if not out.startswith("ok "):
            ctx.brk("correspondence-broken", f"model answered {out!r}, code returned {r['value']!r}",
                    case=dict(cfg=cfg.as_json(), num_cores=cores, schedule=sched))
            continue
        f = out.split(" ")
        ths_m, est_m, spec_m, after_m = common.parse_fl(f[1]), h2f(f[2]), h2f(f[3]), common.parse_fl(f[4])
        scale = max([abs(t) for t in ths_m] + [0.0])
        problems = []
        if not r["type_ok"]:
            problems.append("return value is not a float")
        if abs(r["value"] - est_m) > tol(scale, est_m):
            problems.append(f"estimate: code {r['value']!r} vs model {est_m!r}")
        if abs(r["value"] - spec_m) > tol(scale, spec_m):
            problems.append(f"estimate: code {r['value']!r} vs executable spec formula {spec_m!r}")
        after_real = np.asarray(r["after"], dtype="float64").reshape(-1).tolist()
        if after_real != after_m:
            problems.append("data array after the call differs from the model's")
        if r.get("padding_ok") is False:
            problems.append("memory next to the strided view was written")
        if problems:
            ctx.brk("correspondence-broken", "; ".join(problems),
                    case=dict(cfg=cfg.as_json(), num_cores=cores, schedule=sched, draws=draws, model=out[:400]))
    ctx.cov["distinct_observed_schedules"] = len(seen_scheds)


# ------------------------------------------------------------------ oracle on the real code (independent of the model)
def reference(cfg, base=None):
    """delete-d formula from the same draws, computed here with numpy + fsum"""
    data = np.array(cfg.base if base is None else base, copy=True)
    n, d, N = cfg.n, cfg.d, cfg.N
    draws = draws_for(cfg.seed, n, d, N)
    ths = [ref_stat(np.delete(data, idx, axis=0), cfg.kind) for idx in draws]
    m = math.fsum(ths) / N
    return math.sqrt((n - d) / (d * N) * math.fsum((t - m) ** 2 for t in ths)), ths


def oracle_check(cfg, rng, cores_list=None):
    """returns [] or a list of (key, what, detail) — the property failing on the REAL code for this configuration"""
    out = []
    if cfg.d < 1 or cfg.kind == "mutmean":
        return out
    cores_list = cores_list or [1, rng.choice([2, 3, 4, 16])]
    ref, ths = reference(cfg)
    scale = max(abs(t) for t in ths)
    vals = []
    for cores in cores_list:
        scramble_global(rng)
        r = run_real(cfg, cores, slow=rng.choice([0, 1]), want_log=False)
        if "err" in r:
            out.append(("admissible-call-raised", f"d={cfg.d} admissible but the call raised {r['msg']!r}", dict(num_cores=cores)))
            return out
        vals.append((cores, r["value"]))
        if not np.array_equal(r["after"], cfg.base) or r.get("padding_ok") is False:
            out.append((f"data-modified/{cfg.kind}", "the data array was modified by the call", dict(num_cores=cores)))
    v0 = vals[0][1]
    if any(f2h(v) != f2h(v0) for _, v in vals):
        out.append(("determinism/num_cores-or-global-rng", f"outputs differ between runs: {vals}", dict(runs=vals)))
    if abs(v0 - ref) > 1e-9 * max(abs(ref), abs(v0)) + 1e-12 * scale:
        key = "formula/d=1" if cfg.d == 1 else "formula/d>1"
        out.append((key, f"n={cfg.n} d={cfg.d} N={cfg.N}: code returns {v0!r}, delete-d formula "
                         f"sqrt((n-d)/(d N) sum (theta_i-mean)^2) = {ref!r}", dict(code=v0, expected=ref, thetas=ths)))
        return out
    # scaling
    h = HOMOG.get(cfg.kind)
    if h and cfg.base.dtype == np.float64:
        c = rng.choice([-3.0, 0.5, 2.0, -0.25, 8.0])
        sc = Cfg(cfg.base * c, cfg.layout, cfg.kind, cfg.frac, cfg.N, cfg.seed)
        scramble_global(rng)
        r = run_real(sc, rng.choice(cores_list), want_log=False)
        if "err" in r or abs(r["value"] - abs(c) * v0) > 1e-9 * abs(c) * max(abs(v0), 1e-3 * scale):
            out.append((f"scaling/{cfg.kind}", f"estimate(c x) = {r.get('value')!r} but |c| estimate(x) = {abs(c) * v0!r} (c={c})",
                        dict(c=c, scaled=r.get("value"), base=v0)))
    # shift for the mean
    if cfg.kind in ("mean", "slowmean") and cfg.base.dtype == np.float64:
        s = rng.choice([1.0, -2.5, 16.0, 100.0])
        sh = Cfg(cfg.base + s, cfg.layout, cfg.kind, cfg.frac, cfg.N, cfg.seed)
        scramble_global(rng)
        r = run_real(sh, rng.choice(cores_list), want_log=False)
        if "err" in r or abs(r["value"] - v0) > 1e-9 * max(abs(v0), 1e-3 * (scale + abs(s))):
            out.append(("shift-mean", f"estimate(x + s) = {r.get('value')!r} but estimate(x) = {v0!r} (s={s})",
                        dict(s=s, shifted=r.get("value"), base=v0)))
    return out


def shrink(cfg, key, rng):
    """smaller n / N that still shows the same failure"""
    cur = cfg
    changed = True
    while changed:
        changed = False
        cands = []
        if cur.N > 2:
            cands.append(Cfg(cur.base, "c", cur.kind, cur.frac, max(2, cur.N // 2), cur.seed))
            cands.append(Cfg(cur.base, "c", cur.kind, cur.frac, cur.N - 1, cur.seed))
        if cur.n > 3:
            for m in (max(3, cur.n // 2), cur.n - 1):
                fr = (cur.d + 0.5) / m
                if cur.d < m and fr < 1.0 and int(fr * m) == cur.d:
                    cands.append(Cfg(cur.base[:m].copy(), "c", cur.kind, fr, cur.N, cur.seed))
        if cur.d > 2:
            for dd in (2, cur.d // 2, cur.d - 1):
                fr = (dd + 0.5) / cur.n
                if 2 <= dd < cur.d and int(fr * cur.n) == dd:
                    cands.append(Cfg(cur.base, "c", cur.kind, fr, cur.N, cur.seed))
        for c in cands:
            if any(k == key for k, _, _ in oracle_check(c, rng, cores_list=[1, 2])):
                cur = c
                changed = True
                break
    return cur


def search(ctx, budget_s):
    rng = ctx.rng
    t0 = time.time()
    n = 0
    found = set()

    def report(cfg, probs):
        for key, what, detail in probs:
            if key in found:
                continue
            found.add(key)
            small = shrink(cfg, key, rng) if key.startswith("formula") else cfg
            p2 = [p for p in oracle_check(small, rng, cores_list=[1, 2]) if p[0] == key] or [(key, what, detail)]
            ctx.violation(key, p2[0][1], dict(input=small.as_json(), detail=p2[0][2],
                                              how_to_replay="./check C15 --replay <this file>"))
    for case in corpus():
        cfg = Cfg.from_json(case)
        report(cfg, oracle_check(cfg, rng))
        n += 1
    limit = 400 if ctx.thorough else 60
    while time.time() - t0 < budget_s and n < limit:
        cfg = gen_cfg(rng, want_d1=(n % 3 == 0), allow_mut=False, small=(n % 2 == 0))
        probs = oracle_check(cfg, rng)
        n += 1
        ctx.case(("oracle", cfg.canon()), True)
        ctx.count("oracle/d=1" if cfg.d == 1 else "oracle/d>1")
        if probs:
            report(cfg, probs)
            if len(found) >= 3:
                break
    ctx.cov["oracle_cases"] = n


def corpus():
    p = common.VERIF / "harness/corpus/C15"
    out = []
    if p.exists():
        for f in sorted(p.glob("*.json")):
            out.append(json.loads(f.read_text()))
    return out


def replay(ctx, path):
    d = json.loads(open(path).read())
    inp = d.get("input")
    if not inp:
        print(f"[C15] replay file names a broken obligation, not an input: {d.get('broken')}")
        return 1
    cfg = Cfg.from_json(inp)
    probs = oracle_check(cfg, ctx.rng, cores_list=[1, 2, 5])
    if probs:
        print(f"VIOLATION property=C15 replay={path}")
        for key, what, _ in probs:
            print(f"[{key}] {what}")
        return 1
    print("[C15] replay: property holds on this input now")
    return 0
