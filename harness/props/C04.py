"""C04 — storer bookkeeping stays consistent over any history of filters / additions.  Tie C + oracle.

A *program* builds storers ("registers") from loaded objects (`leaf`: ParticleObjectStorer of a nested list of real
particles, Oscar / Jetscape objects read from small files written here; whole, `events=k`, `events=(a,b)`, `filters=`),
applies filter methods to them and adds them.  After EVERY step the real object is observed through
`num_events()`, `num_output_per_event()`, `particle_objects_list()` (identity), `particle_list()` (+ Oscar footers) and
compared with the Lean driver (`Drv/C04.lean`) running the same program on the model of `Core/Storer.lean`.
The oracle (`search`) checks the property itself on the real objects against plain Python lists
(`pmodel.ref_filter`, list concatenation, recount, label rule), `a`,`b` unchanged by `a+b`, and associativity.
"""
import atexit
import copy
import pickle
import json
import math
import os
import shutil
import tempfile
import time
import warnings

import numpy as np

import common
import pmodel

warnings.filterwarnings("ignore")
np.seterr(all="ignore")

ERRKIND = [(NotImplementedError, "err notimpl"), (AttributeError, "err attr"), (IndexError, "err index"),
           (TypeError, "err type"), (ValueError, "err value"), (NameError, "err name")]
CLSNAME = {"o": "oscar", "j": "jetscape", "p": "pobj"}
# NotImplementedError overrides; re-extracted from the source by `extract_overrides` (tie T), these are the defaults
NOT_IMPLEMENTED = {"o": {"particle_status", "keep_quarks"},
                   "j": {"participants", "spectators", "spacetime_cut", "spacetime_rapidity_cut"},
                   "p": set()}
CALLTAG = dict(pmodel.NOARG)
CALLTAG.update(pmodel.WINDOW)
CALLTAG.update(pmodel.RAPLIKE)
CALLTAG.update(pmodel.SPECIES)
CALLTAG.update({"particle_status": "status", "spacetime_cut": "spacetime", "lower_event_energy_cut": "energy"})
_OVERRIDES_DONE = [False]


def extract_overrides(ctx=None):
    """filter methods that Oscar / Jetscape / ParticleObjectStorer override by `raise NotImplementedError` (stdlib ast)"""
    import ast
    if _OVERRIDES_DONE[0]:
        return []
    _OVERRIDES_DONE[0] = True
    unrecognised = []
    for fname, cname, k in (("Oscar.py", "Oscar", "o"), ("Jetscape.py", "Jetscape", "j"), ("ParticleObjectStorer.py", "ParticleObjectStorer", "p")):
        try:
            t = ast.parse(common.read_src(fname))
            c = next(n for n in t.body if isinstance(n, ast.ClassDef) and n.name == cname)
        except Exception as e:
            unrecognised.append(f"cannot find class {cname} in {fname}: {type(e).__name__}")
            continue
        over = set()
        delegating = {}
        for fn in c.body:
            if isinstance(fn, ast.FunctionDef) and fn.name in pmodel.ALL_FILTERS:
                body = [b for b in fn.body if not (isinstance(b, ast.Expr) and isinstance(getattr(b, "value", None), ast.Constant))]
                if len(body) == 1 and isinstance(body[0], ast.Raise) and "NotImplementedError" in ast.unparse(body[0]):
                    over.add(fn.name)
                elif (len(body) == 3 and ast.unparse(body[1]) == "self._update_num_output_per_event_after_filter()"
                      and ast.unparse(body[0]).startswith(f"self.particle_list_ = {fn.name}(self.particle_list_")):
                    pass          # same shape as the BaseStorer wrapper
                elif _delegating_override(c, fn):
                    delegating.setdefault(cname, []).append(fn.name)   # implemented, behaves as the BaseStorer wrapper
                else:
                    unrecognised.append(f"{cname}.{fn.name} overrides a filter method in a shape the extractor does not know")
        if ctx and over != NOT_IMPLEMENTED[k]:
            ctx.notes.append(f"NotImplementedError overrides of {cname} changed: now {sorted(over)} (the model takes the table as a parameter)")
        NOT_IMPLEMENTED[k] = over
        if ctx and delegating:
            ctx.cov.setdefault("delegating_overrides", {}).update(delegating)
    if unrecognised and ctx is None:
        probe_overrides()
    return unrecognised


def probe_overrides():
    """the override table obtained from the real classes: a filter method is "not implemented" iff calling it with
    admissible arguments on a small freshly loaded storer raises NotImplementedError"""
    import random
    rng = random.Random(4)
    srcs = {"p": {"kind": "p", "events": [[{"pdg": 211, "charge": 1, "E": 1.0, "t": 2.0, "z": 0.5, "px": 0.5, "py": 0.0, "pz": 0.5,
                                            "x": 0.0, "y": 0.0, "ncoll": 1, "status": 1}], []]},
            "o": gen_file(rng, "o", True), "j": gen_file_with(rng, "j", False)}
    prog = {"sources": srcs, "steps": []}
    table, odd = {}, []
    for k in ("o", "j", "p"):
        over = set()
        for name in pmodel.ALL_FILTERS:
            _, args = pmodel.gen_call(rng, [name])
            try:
                s = World(prog).load(k, {})
                getattr(s, name)(*args)
            except NotImplementedError:
                over.add(name)
            except Exception as e:
                odd.append(f"{CLSNAME[k]}.{name}: {type(e).__name__}")
        table[k] = over
    NOT_IMPLEMENTED.update(table)
    return table, odd


BOOKKEEPING = {"num_events_", "num_output_per_event_", "particle_list_"}


def _writes_bookkeeping(node):
    import ast
    for n in ast.walk(node):
        if isinstance(n, ast.Attribute) and isinstance(n.value, ast.Name) and n.value.id == "self" \
                and n.attr in BOOKKEEPING and isinstance(n.ctx, (ast.Store, ast.Del)):
            return True
        # in-place mutation through a method / subscript of a bookkeeping attribute
        if isinstance(n, (ast.Subscript,)) and isinstance(n.ctx, (ast.Store, ast.Del)) and isinstance(n.value, ast.Attribute) \
                and isinstance(n.value.value, ast.Name) and n.value.value.id == "self" and n.value.attr in BOOKKEEPING:
            return True
        if isinstance(n, ast.Call) and isinstance(n.func, ast.Attribute) and isinstance(n.func.value, ast.Attribute) \
                and isinstance(n.func.value.value, ast.Name) and n.func.value.value.id == "self" \
                and n.func.value.attr in BOOKKEEPING and n.func.attr in ("append", "extend", "insert", "pop", "remove", "clear",
                                                                        "sort", "reverse", "fill", "resize", "put", "itemset"):
            return True
    return False


def _delegating_override(cls_node, fn):
    """`…; super().<same name>(<same parameters>); …; return self` where everything else only reads the bookkeeping
    (directly and in the helper methods of the same class it calls): behaves as the BaseStorer wrapper for
    events / counts / num_events / particle_list."""
    import ast
    body = [b for b in fn.body if not (isinstance(b, ast.Expr) and isinstance(getattr(b, "value", None), ast.Constant))]
    params = [a.arg for a in fn.args.args[1:]]
    want = f"super().{fn.name}({', '.join(params)})"
    supers = [b for b in body if isinstance(b, ast.Expr) and ast.unparse(b) == want]
    n_super_any = sum(1 for n in ast.walk(fn) if isinstance(n, ast.Call) and isinstance(n.func, ast.Attribute)
                      and isinstance(n.func.value, ast.Call) and ast.unparse(n.func.value) == "super()")
    if len(supers) != 1 or n_super_any != 1 or not body or ast.unparse(body[-1]) != "return self":
        return False
    if any(isinstance(n, (ast.Return,)) for b in body[:-1] for n in ast.walk(b)) or \
            any(isinstance(n, (ast.Raise, ast.Try)) for b in body for n in ast.walk(b)):
        return False
    methods = {f.name: f for f in cls_node.body if isinstance(f, ast.FunctionDef)}
    seen, todo = set(), [b for b in body if b is not supers[0]]
    while todo:
        node = todo.pop()
        if _writes_bookkeeping(node):
            return False
        for n in ast.walk(node):
            if isinstance(n, ast.Call) and isinstance(n.func, ast.Attribute) and isinstance(n.func.value, ast.Name) \
                    and n.func.value.id == "self":
                name = n.func.attr
                if name in pmodel.ALL_FILTERS or name in ("__add__", "_update_num_output_per_event_after_filter"):
                    return False
                if name in methods and name not in seen:
                    seen.add(name)
                    todo.append(methods[name])
    return True


def table_field():
    extract_overrides()
    return "T@" + "@".join(f"{k}=" + ",".join(sorted(CALLTAG[n] for n in NOT_IMPLEMENTED[k])) for k in ("o", "j", "p"))


def driver_line(instrs):
    return "p\t" + table_field() + "\t" + "\t".join(instrs)
CORPUS = common.VERIF / "harness/corpus/C04"

_TMP = None


def tmpdir():
    global _TMP
    if _TMP is None:
        _TMP = tempfile.mkdtemp(prefix="verif_C04_")
        atexit.register(lambda: shutil.rmtree(_TMP, ignore_errors=True))
    return _TMP


def errkind(e):
    for k, v in ERRKIND:
        if isinstance(e, k):
            return v
    return "err other:" + type(e).__name__


# ----------------------------------------------------------------------------- tie T (structural)
def translate(ctx):
    """(i) regenerate the filter model from Filter.py (C03's translator: `applyCall` is what the filter methods call);
    (ii) check with `ast` that every filter method of BaseStorer still has the shape the model's `filterStep` mirrors
    (`self.particle_list_ = <same-named Filter.py function>(self.particle_list_, args…)`, recount, `return self`) and
    extract the table of NotImplementedError overrides of Oscar / Jetscape / ParticleObjectStorer; it is handed
    to the driver with every program (the theorems are quantified over the table `impl`)."""
    import ast
    from props import C03
    regions = list(C03.translate(ctx) or [])
    src = common.read_src("BaseStorer.py")
    tree = ast.parse(src)
    cls = next((n for n in tree.body if isinstance(n, ast.ClassDef) and n.name == "BaseStorer"), None)
    bad = []
    found = set()
    for fn in (cls.body if cls is not None else []):
        if not isinstance(fn, ast.FunctionDef) or fn.name not in pmodel.ALL_FILTERS:
            continue
        found.add(fn.name)
        body = [b for b in fn.body if not (isinstance(b, ast.Expr) and isinstance(getattr(b, "value", None), ast.Constant))]
        params = [a.arg for a in fn.args.args[1:]]
        want = f"self.particle_list_ = {fn.name}(self.particle_list_{''.join(', ' + p_ for p_ in params)})"
        ok = (len(body) == 3 and ast.unparse(body[0]) == want
              and ast.unparse(body[1]) == "self._update_num_output_per_event_after_filter()"
              and ast.unparse(body[2]) == "return self")
        if not ok:
            bad.append(fn.name)
    missing = set(pmodel.ALL_FILTERS) - found
    unrecognised = []
    if bad or missing:
        unrecognised.append(f"BaseStorer filter methods do not have the modelled wrapper shape: {sorted(bad)}; not found as methods: {sorted(missing)}")
    _OVERRIDES_DONE[0] = False
    static_table = None
    unrecognised += extract_overrides(ctx)
    static_table = {k: set(v) for k, v in NOT_IMPLEMENTED.items()}
    if unrecognised:
        # DESIGN 2.1 (i): the extractor cannot re-derive -> not a violation by itself; the correspondence (which calls every
        # filter method of every class after every step) carries the tie alone, with the thorough case counts
        ctx.fallback = True
        ctx.cov["tie"] = "correspondence-only (wrapper shape not recognised: " + "; ".join(unrecognised)[:600] + ")"
        ctx.notes.append("tie T for the storer wrappers could not be re-derived: " + "; ".join(unrecognised))
        table, odd = probe_overrides()
        ctx.notes.append("override table obtained by probing real objects: " +
                         json.dumps({CLSNAME[k]: sorted(v) for k, v in table.items()}) +
                         (" (differs from the statically extracted one)" if table != static_table else ""))
        if odd:
            ctx.notes.append("probing: calls that raised something else (treated as implemented): " + ", ".join(odd[:10]))
    ctx.cov["notimplemented_overrides"] = {CLSNAME[k]: sorted(v) for k, v in NOT_IMPLEMENTED.items()}
    for name in ("__add__", "particle_list", "_update_num_output_per_event_after_filter"):
        fn = next((f for f in (cls.body if cls is not None else []) if isinstance(f, ast.FunctionDef) and f.name == name), None)
        if fn is None:
            ctx.notes.append(f"BaseStorer.{name} not found as a method (tie C decides)")
            continue
        regions.append({"region": f"BaseStorer.{name}", "sha": common.region_hash(ast.unparse(fn)), "tie": "C (hand-written mirror)"})
    return regions


# ----------------------------------------------------------------------------- JSON-able arguments
Window = __import__("collections").namedtuple("Window", "lower upper")      # a tuple subclass, as a caller may pass it


class LazyArg:
    """a one-shot iterable argument (iter(list) / map / generator) in replayable form"""

    def __init__(self, kind, items):
        self.kind, self.items = kind, list(items)


def arg_to_json(a):
    if a is None:
        return {"t": "none"}
    if isinstance(a, Window):
        return {"t": "namedtuple", "v": [arg_to_json(x) for x in a]}
    if isinstance(a, np.ndarray):
        return {"t": "ndarray", "v": [int(x) for x in a]}
    if isinstance(a, tuple):
        return {"t": "tuple", "v": [arg_to_json(x) for x in a]}
    if isinstance(a, list):
        return {"t": "list", "v": [arg_to_json(x) for x in a]}
    if isinstance(a, (set, frozenset)):
        return {"t": "set", "v": [arg_to_json(x) for x in sorted(a)]}
    if isinstance(a, LazyArg):
        return {"t": a.kind, "v": [arg_to_json(x) for x in a.items]}
    if isinstance(a, np.floating):
        return {"t": "npfloat", "v": float(a)}
    if isinstance(a, (bool, str)):
        return {"t": "lit", "v": a}
    if isinstance(a, np.integer):
        return {"t": "npint", "v": int(a)}
    if isinstance(a, int):
        return {"t": "int", "v": int(a)}
    return {"t": "float", "v": float(a)}


def arg_from_json(d):
    t = d["t"]
    if t == "none":
        return None
    if t == "ndarray":
        return np.array(d["v"])
    if t == "tuple":
        return tuple(arg_from_json(x) for x in d["v"])
    if t == "list":
        return [arg_from_json(x) for x in d["v"]]
    if t == "set":
        return {arg_from_json(x) for x in d["v"]}
    if t == "namedtuple":
        return Window(*[arg_from_json(x) for x in d["v"]])
    if t in ("iter", "map", "generator"):
        items = [arg_from_json(x) for x in d["v"]]
        return iter(items) if t == "iter" else (map(int, items) if t == "map" else (x for x in items))
    if t == "npfloat":
        return np.float64(d["v"])
    if t == "npint":
        return np.int64(d["v"])
    return d["v"]


def args_to_json(args):
    return [arg_to_json(a) for a in args]


def args_from_json(js):
    return tuple(arg_from_json(a) for a in js)


# ----------------------------------------------------------------------------- files
GRID = [-2.0, -1.0, -0.5, 0.0, 0.25, 0.5, 1.0, 1.5, 2.0, 3.0]


def gen_oscar_row(rng, ext):
    r = [rng.choice([0.5, 1.0, 2.0, 3.0, 5.0]), rng.choice(GRID), rng.choice(GRID), rng.choice(GRID), 0.138,
         rng.choice([0.5, 1.0, 2.0, 3.0, 4.0, 6.0]), rng.choice(GRID), rng.choice(GRID), rng.choice(GRID),
         rng.choice(pmodel.VALID_PDGS) if rng.random() < 0.9 else rng.choice(pmodel.INVALID_PDGS),
         None, rng.choice([-2, -1, 0, 0, 1, 1, 2])]
    if ext:
        r += [rng.choice([0, 0, 1, 2, 5]), 0.5, 1.0, rng.choice([0, 3, 7]), rng.choice([0, 1, 5]), rng.choice([0.0, 0.5, 2.0]),
              rng.choice([0, 2212, 113]), rng.choice([0, 211])]
        if ext != "old":         # "old": Oscar2013Extended as older SMASH versions wrote it, without the two trailing columns
            r += [rng.choice([-1, 0, 1]), rng.choice([-1, 0, 1])]
    return r


def gen_jetscape_row(rng, parton):
    pdg = rng.choice([1, -2, 3, 21, 4, -5, 21]) if parton else \
        (rng.choice(pmodel.VALID_PDGS) if rng.random() < 0.9 else rng.choice(pmodel.INVALID_PDGS))
    return [None, pdg, rng.choice([-1, 0, 1, 11, 27]), rng.choice([0.5, 1.0, 2.0, 3.0, 4.0, 6.0]),
            rng.choice(GRID), rng.choice(GRID), rng.choice(GRID)]


def gen_sizes(rng, nev_max=5):
    nev = rng.randint(1, nev_max)
    if rng.random() < 0.25:
        nev = 1
    sizes = [0 if rng.random() < 0.2 else rng.randint(1, 5) for _ in range(nev)]
    if rng.random() < 0.1:
        sizes[rng.randrange(nev)] = 12          # two-digit count
    return sizes


def gen_file(rng, kind, ext=None):
    """kind 'o' | 'j' -> file description (JSON-able)"""
    sizes = gen_sizes(rng)
    if kind == "o":
        ext = (rng.random() < 0.6) if ext is None else ext
        if ext is True and rng.random() < 0.35:
            ext = "old"           # same reported format (Oscar2013Extended), 20 instead of 22 columns
        evs = [[gen_oscar_row(rng, ext) for _ in range(m)] for m in sizes]
        d = {"kind": "o", "ext": ext, "events": evs}
    else:
        parton = rng.random() < 0.25
        evs = [[gen_jetscape_row(rng, parton) for _ in range(m)] for m in sizes]
        d = {"kind": "j", "parton": parton, "events": evs}
    n = 0
    idcol = 10 if kind == "o" else 0
    for ev in d["events"]:
        for r in ev:
            r[idcol] = n
            n += 1
    if rng.random() < 0.25:
        okv = text_variants_ok(kind)
        if okv:
            d["text"] = rng.sample(okv, rng.randint(1, len(okv)))
    return d


def footer_text(fileno, i):
    return f"# event {i} end 0 impact   {fileno}.{i:03d} scattering_projectile_target yes\n"


TEXT_VARIANTS = ["crlf", "trail-comment", "trail-particle", "nonascii"]
_TEXT_OK = {}


def write_file(desc, fileno, directory=None):
    """writes the file, returns its path (bare file name when written into `directory`)"""
    tv = set(desc.get("text") or [])
    nl = "\r\n" if "crlf" in tv else "\n"
    tc = "  " if "trail-comment" in tv else ""
    tp = " " if "trail-particle" in tv else ""
    na = " \u00fcn\u00efc\u00f6d\u00e9 \u03b1\u03b2" if "nonascii" in tv else ""
    lines = []
    if desc["kind"] == "o":
        name = f"f{fileno}.oscar"
        if desc["ext"]:
            extra = "" if desc["ext"] == "old" else " baryon_number strangeness"
            lines.append("#!OSCAR2013Extended particle_lists t x y z mass p0 px py pz pdg ID charge ncoll form_time xsecfac "
                         "proc_id_origin proc_type_origin time_last_coll pdg_mother1 pdg_mother2" + extra + tc)
            lines.append("# Units: fm fm fm fm GeV GeV GeV GeV GeV none none e none fm none none none fm none none" +
                         ("" if desc["ext"] == "old" else " none none") + tc)
        else:
            lines.append("#!OSCAR2013 particle_lists t x y z mass p0 px py pz pdg ID charge" + tc)
            lines.append("# Units: fm fm fm fm GeV GeV GeV GeV GeV none none e" + tc)
        lines.append("# SMASH-3.1" + na + tc)
        for i, ev in enumerate(desc["events"]):
            lines.append(f"# event {i} out {len(ev)}")
            for r in ev:
                lines.append(" ".join(repr(x) for x in r) + tp)
            lines.append(footer_text(fileno, i).rstrip("\n") + na + tc)
    else:
        name = f"f{fileno}.dat"
        what = "N_partons" if desc["parton"] else "N_hadrons"
        lines.append("#\tJETSCAPE_FINAL_STATE\tv2\t|\tN\tpid\tstatus\tE\tPx\tPy\tPz" + na + tc)
        for i, ev in enumerate(desc["events"]):
            lines.append(f"#\tEvent\t{i + 1}\tweight\t1\tEPangle\t0\t{what}\t{len(ev)}")
            for r in ev:
                lines.append(" ".join(repr(x) for x in r) + tp)
        lines.append("#\tsigmaGen\t0.000314633\tsigmaErr\t6.06164e-07")
    path = os.path.join(directory or tmpdir(), name)
    with open(path, "w", encoding="utf-8", newline="") as f:
        f.write("".join(l + nl for l in lines))
    return name if directory else path


def text_variants_ok(kind):
    """which text variants (CRLF line ends, trailing blanks, non-ASCII free text) the code under test reads exactly like
    the plain file — probed once per run on a small file; only those are used by the generators"""
    if kind in _TEXT_OK:
        return _TEXT_OK[kind]
    import random as _r
    rng = _r.Random(99)
    base = gen_file(rng, kind, True) if kind == "o" else gen_file_with(rng, "j", False)
    base.pop("text", None)
    rows = [gen_oscar_row(rng, True) if kind == "o" else gen_jetscape_row(rng, False) for _ in range(3)]
    base["events"] = renumber(base, [rows[:2], [], rows[2:]])

    def observe(desc, n):
        from sparkx.Oscar import Oscar
        from sparkx.Jetscape import Jetscape
        path = write_file(desc, 9000 + n)
        s = (Oscar if kind == "o" else Jetscape)(path)
        return (s.num_events(), np.asarray(s.num_output_per_event()).tolist(),
                [[rowkey(s._particle_as_list(p)) for p in ev] for ev in s.particle_objects_list()])
    ok = []
    try:
        want = observe(base, 0)
    except Exception:
        want = None
    for k, v in enumerate(TEXT_VARIANTS):
        try:
            if want is not None and observe(dict(base, text=[v]), k + 1) == want:
                ok.append(v)
        except Exception:
            pass
    _TEXT_OK[kind] = ok
    return ok


# ----------------------------------------------------------------------------- call forms
# documented parameter order of the public calls (signatures / docstrings at /repo HEAD 8574834)
PARAMS = {"particle_species": ["pdg_list"], "remove_particle_species": ["pdg_list"],
          "lower_event_energy_cut": ["minimum_event_energy"], "pT_cut": ["cut_value_tuple"], "mT_cut": ["cut_value_tuple"],
          "rapidity_cut": ["cut_value"], "pseudorapidity_cut": ["cut_value"], "spacetime_rapidity_cut": ["cut_value"],
          "multiplicity_cut": ["cut_value_tuple"], "spacetime_cut": ["dim", "cut_value_tuple"],
          "particle_status": ["status_list"]}
CTOR_PARAM = {"p": "particle_object_list", "o": "OSCAR_FILE", "j": "JETSCAPE_FILE"}
# documented order of `ParticleObjectStorer.particle_list()` rows
POBJ_COLUMNS = ["t", "x", "y", "z", "mass", "E", "px", "py", "pz", "pdg", "ID", "charge", "ncoll", "form_time", "xsecfac",
                "proc_id_origin", "proc_type_origin", "t_last_coll", "pdg_mother1", "pdg_mother2", "baryon_number",
                "strangeness", "weight", "status"]


def vary_args(rng, name, args):
    """the same valid argument as a caller may also write it: a tuple subclass for a cut tuple, numpy floats for limits,
    a numpy integer for a single PDG code (forms the clean code accepts — probed when the device was built)"""
    if rng.random() > 0.25:
        return args
    if name in ("pT_cut", "mT_cut", "spacetime_cut") and isinstance(args[-1], tuple) and len(args[-1]) == 2:
        t = args[-1]
        if rng.random() < 0.5:
            t = Window(*t)
        else:
            t = tuple(np.float64(v) if isinstance(v, (int, float)) and not isinstance(v, bool) else v for v in t)
        return args[:-1] + (t,)
    if name in ("rapidity_cut", "pseudorapidity_cut", "spacetime_rapidity_cut") and isinstance(args[0], (int, float)):
        return (np.float64(args[0]),)
    if name in ("particle_species", "remove_particle_species") and isinstance(args[0], int):
        return (np.int64(args[0]),)
    if name == "lower_event_energy_cut" and isinstance(args[0], float):
        return (np.float64(args[0]),)
    return args


def gen_form(rng, name):
    """one of the equivalent ways to write the call: all positional (documented order), all keywords, mixed"""
    n = len(PARAMS.get(name, []))
    if n == 0:
        return "pos"
    return rng.choice(["pos", "kw", "kw", "mixed"] if n > 1 else ["pos", "kw"])


def invoke(s, name, args, form="pos"):
    names = PARAMS.get(name, [])
    if form == "pos" or len(names) != len(args) or not names:
        return getattr(s, name)(*args)
    if form == "kw":
        return getattr(s, name)(**dict(zip(names, args)))
    return getattr(s, name)(args[0], **dict(zip(names[1:], args[1:])))


def invoke_add(a, b, form="op"):
    return a.__add__(b) if form == "dunder" else a + b


# ----------------------------------------------------------------------------- error-path calls
# calls that must raise before anything is changed (argument validation), by method
INVALID_ARGS = {
    "pT_cut": [((None, None),), ((-1.0, 2.0),), ([0.0, 1.0],), (1.5,), ((0.0, "a"),), ((0.0, 1.0, 2.0),)],
    "mT_cut": [((None, None),), ((0.0, 1.0, 2.0),), ((-0.5, None),), ("ab",)],
    "multiplicity_cut": [((-1, 3),), ((None, None),), (3,), ((1,),)],
    "rapidity_cut": [((None, 1.0),), ("a",), ((1.0, 2.0, 3.0),), (None,)],
    "pseudorapidity_cut": [((1.0, None),), ([0.0, 1.0],), (None,)],
    "spacetime_rapidity_cut": [((None, 1.0),), ("a",)],
    "spacetime_cut": [("w", (0.0, 1.0)), ("x", (None, None)), ("x", [0.0, 1.0]), (3, (0.0, 1.0)), ("t", (0.0, 1.0, 2.0))],
    "lower_event_energy_cut": [(-1.0,), (0,), ("a",), (float("nan"),)],
    "particle_species": [("a",), (None,), ([211, "a"],), ({211},), (LazyArg("iter", [211]),), (LazyArg("map", [211, 2212]),),
                         (LazyArg("generator", [211]),)],
    "remove_particle_species": [(None,), ({211},), (LazyArg("iter", [211, 22]),)],
    "particle_status": [("x",), (1.5,), ([1, "a"],), (LazyArg("generator", [1, 0]),)],
}
# the subset whose error kind the Lean model is known to reproduce (C03's malformed stream)
MODEL_SAFE = {("pT_cut", 0), ("pT_cut", 1), ("pT_cut", 2), ("mT_cut", 1), ("multiplicity_cut", 0), ("rapidity_cut", 0),
              ("rapidity_cut", 1), ("spacetime_cut", 0), ("spacetime_cut", 1), ("lower_event_energy_cut", 0)}
# valid calls that warn (limits in reversed order): with warnings turned into errors they fail inside the call
WARNING_ARGS = {"pT_cut": [((2.0, 0.5),)], "mT_cut": [((3.0, 1.0),)], "multiplicity_cut": [((4, 1),)],
                "spacetime_cut": [("x", (1.0, -1.0)), ("t", (3.0, 0.5))], "rapidity_cut": [((1.0, -1.0),)],
                "pseudorapidity_cut": [((2.0, 0.0),)]}
BAD_OPERANDS = [3, None, "x", [[]], 1.5]


def gen_bad_step(rng, reg, kind, nregs, reg_kinds):
    """a call on register `reg` that is expected to raise: invalid argument (rejected up front), a filter that fails
    midway because of a particle's data, a warning turned into an error, `+` with an incompatible operand.
    If the call does not raise after all it is judged like any valid call."""
    r = rng.random()
    impl = [n for n in INVALID_ARGS if n not in NOT_IMPLEMENTED[kind]]
    if r < 0.5:
        name = rng.choice(impl)
        k = rng.randrange(len(INVALID_ARGS[name]))
        return {"op": "filter", "reg": reg, "name": name, "args": args_to_json(INVALID_ARGS[name][k]), "bad": "invalid-arg",
                "variant": k, "form": gen_form(rng, name)}
    if r < 0.65 and "spacetime_rapidity_cut" not in NOT_IMPLEMENTED[kind]:
        return {"op": "filter", "reg": reg, "name": "spacetime_rapidity_cut",
                "args": args_to_json((rng.choice([0.5, 1.0, (-1.0, 1.0), 2.0]),)), "bad": "midway", "form": gen_form(rng, "spacetime_rapidity_cut")}
    if r < 0.8:
        names = [n for n in WARNING_ARGS if n not in NOT_IMPLEMENTED[kind]]
        name = rng.choice(names)
        return {"op": "filter", "reg": reg, "name": name, "args": args_to_json(rng.choice(WARNING_ARGS[name])),
                "bad": "warn-as-error", "form": gen_form(rng, name)}
    other = [j for j in range(nregs) if reg_kinds[j] != kind]
    if other and rng.random() < 0.5:
        return {"op": "filter", "reg": reg, "name": "__add__", "b": rng.choice(other), "args": [], "bad": "incompatible-operand",
                "form": rng.choice(["op", "dunder"])}
    return {"op": "filter", "reg": reg, "name": "__add__", "other": arg_to_json(rng.choice(BAD_OPERANDS)), "args": [],
            "bad": "incompatible-operand", "form": "op"}


def deep_state(s):
    """everything a caller can observe on a storer, in comparable form (identity of particles, their data, every attribute)"""
    def canon(v):
        if isinstance(v, np.ndarray):
            return ("ndarray", v.shape, str(v.dtype), [("nan" if x != x else x) for x in v.ravel().tolist()])
        if isinstance(v, (list, tuple)):
            return (type(v).__name__, [canon(x) for x in v])
        if isinstance(v, dict):
            return ("dict", sorted((str(k), canon(x)) for k, x in v.items()))
        if hasattr(v, "data_") and isinstance(getattr(v, "data_"), np.ndarray):
            return ("particle", id(v), canon(v.data_))
        if isinstance(v, float) and v != v:
            return "nan"
        if isinstance(v, (int, float, str, bool, type(None), np.integer, np.floating)):
            return v
        return ("object", type(v).__name__)
    d = {k: canon(v) for k, v in vars(s).items()}
    try:
        d["<particle_list()>"] = canon(s.particle_list())
    except Exception as e:
        d["<particle_list()>"] = "raises " + type(e).__name__
    return d


def state_diff(x, y):
    return sorted(k for k in set(x) | set(y) if x.get(k) != y.get(k))


def call_step(w, step):
    """perform a method-like step (filter method or the `+` of an error-path step) the way a caller would; warnings are
    errors for `warn-as-error` steps"""
    s = w.regs[step["reg"]]
    form = step.get("form", "pos")
    with warnings.catch_warnings():
        warnings.simplefilter("error" if step.get("bad") == "warn-as-error" else "ignore")
        if step["name"] == "__add__":
            other = w.regs[step["b"]] if "b" in step else arg_from_json(step["other"])
            return invoke_add(s, other, form)
        return invoke(s, step["name"], args_from_json(step["args"]), form)


# ----------------------------------------------------------------------------- programs
def gen_list(rng):
    """nested list of particle specs for a ParticleObjectStorer"""
    r = rng.random()
    if r < 0.04:
        return []
    if r < 0.08:
        return [[]]
    sizes = gen_sizes(rng, 4)
    return [[pmodel.gen_spec(rng, 0.12) for _ in range(m)] for m in sizes]


EVENT_LEVEL = ["multiplicity_cut", "lower_event_energy_cut"]
# particle-level filters that typically remove some but not all particles of an event (change multiplicity / energy)
THINNING = ["charged_particles", "uncharged_particles", "remove_particle_species", "particle_species", "pT_cut", "mT_cut",
            "rapidity_cut", "pseudorapidity_cut", "spacetime_cut", "keep_mesons", "keep_baryons", "keep_hadrons", "remove_photons",
            "participants", "spectators", "particle_status", "keep_up", "keep_strange"]
# ... and that rarely remove everything
GENTLE = ["charged_particles", "uncharged_particles", "remove_particle_species", "remove_photons", "keep_hadrons", "pT_cut",
          "pseudorapidity_cut", "keep_mesons"]
WINDOWS = ["pT_cut", "mT_cut", "rapidity_cut", "pseudorapidity_cut", "spacetime_cut"]
SPECIES_LIKE = ["particle_species", "remove_particle_species", "charged_particles", "uncharged_particles", "keep_mesons",
                "keep_baryons", "particle_status"]


def ctor_value(name, args):
    """value of the `filters=` dictionary entry for a call (name, args)"""
    if name in pmodel.NOARG:
        return True
    if name == "spacetime_cut":
        return [args[0], args[1]]
    return args[0]


def gen_ctor_filters(rng, kind, events=None):
    """`filters=` dictionary with 1-4 entries in random key order; half of the multi-entry dictionaries are built around a
    pair that usually does NOT commute: an event-level cut next to a particle-level filter that changes the
    multiplicity / energy of the events, or a window cut next to a species-like filter on the same particles.
    `events` (the source's rows/specs) only biases the event-level thresholds towards the sizes that occur."""
    allowed = [n for n in pmodel.ALL_FILTERS if n not in NOT_IMPLEMENTED[kind]]
    n = rng.choice([1, 2, 2, 2, 2, 3, 3, 4])
    names = []
    if n >= 2 and rng.random() < 0.7:
        if rng.random() < 0.7:
            thin = [x for x in (GENTLE if rng.random() < 0.75 else THINNING) if x in allowed]
            pair = [rng.choice([x for x in EVENT_LEVEL if x in allowed]), rng.choice(thin)]
        else:
            pair = [rng.choice([x for x in WINDOWS if x in allowed]), rng.choice([x for x in SPECIES_LIKE if x in allowed])]
        names = pair
    gentle = [x for x in GENTLE if x in allowed]
    while len(names) < n:
        c = rng.choice(gentle) if rng.random() < 0.85 else rng.choice(allowed)
        if c not in names:
            names.append(c)
    rng.shuffle(names)
    sizes = sorted({len(ev) for ev in (events or [])} - {0}) or [1, 2, 3]
    energies = []
    for ev in (events or []):
        if ev:
            e = [float(r.get("E", 0.0)) if isinstance(r, dict) else float(r[5] if kind == "o" else r[3]) for r in ev]
            if sum(e) > 0:
                energies.append(sum(e))
    out = {}
    for name in names:
        _, args = pmodel.gen_call(rng, [name])
        if name == "multiplicity_cut" and rng.random() < 0.8:
            m = rng.randint(1, max(1, rng.choice(sizes) - 1))          # a bound that a thinned event can cross
            args = (rng.choice([(m, None), (m, None), (m, None), (None, m + 2), (m, m + 3)]),)
        if name == "lower_event_energy_cut" and rng.random() < 0.8:
            tot = rng.choice(energies) if energies else 4.0
            args = (rng.choice([0.4, 0.6, 0.8]) * tot,)
        if name == "pT_cut" and rng.random() < 0.6:
            args = (rng.choice([(None, 1.5), (0.5, None), (None, 2.0), (0.25, 3.0), (1.0, None)]),)
        if name == "pseudorapidity_cut" and rng.random() < 0.6:
            args = (rng.choice([1.0, 2.0, (-1.0, 2.0), (0.0, 2.0)]),)
        out[name] = ctor_value(name, args)
    return out


def gen_kwargs(rng, nev, kind, events=None):
    kw = {}
    r = rng.random()
    if r < 0.45:
        pass
    elif r < 0.6:
        kw["events"] = rng.randrange(nev) if nev else 0
    elif r < 0.8:
        a = rng.randrange(nev) if nev else 0
        b = rng.randrange(a, nev) if nev else 0
        kw["events"] = (a, b)
    elif r < 0.93:
        kw["filters"] = gen_ctor_filters(rng, kind, events)
    else:
        a = rng.randrange(nev) if nev else 0
        kw["events"] = (a, rng.randrange(a, nev) if nev else 0) if rng.random() < 0.6 else a
        kw["filters"] = gen_ctor_filters(rng, kind, events)
    return kw


def kwargs_to_json(kw):
    d = {}
    if "events" in kw:
        d["events"] = arg_to_json(kw["events"])
    if "filters" in kw:
        d["filters"] = {k: arg_to_json(v) for k, v in kw["filters"].items()}
    return d


def kwargs_from_json(d):
    kw = {}
    if "events" in d:
        kw["events"] = arg_from_json(d["events"])
    if "filters" in d:
        kw["filters"] = {k: arg_from_json(v) for k, v in d["filters"].items()}
    return kw


def origin_of(kwj):
    return "ctor" + ("-events" if "events" in kwj else "") + ("+" if len(kwj) == 2 else ("-" if "filters" in kwj else "")) + \
        ("filters" if "filters" in kwj else "")


class ListSubclass(list):
    pass


COPY_MODES = ["copy", "deepcopy", "pickle"]


def transform(s, mode):
    """an object under test replaced by its copy before use"""
    if mode == "copy":
        return copy.copy(s)
    if mode == "deepcopy":
        return copy.deepcopy(s)
    if mode == "pickle":
        return pickle.loads(pickle.dumps(s))
    return s


class Env:
    """unusual but legal process environment for a whole program: cwd = a fresh directory (files are addressed by bare
    relative names), non-default numpy print options, np.seterr(all="warn"), advanced `random` / `np.random` global states.
    `changed()` names what a call left different; everything is restored on exit."""

    def __init__(self, prog):
        self.on = bool(prog.get("env"))

    def __enter__(self):
        if self.on:
            import random as _r
            self.saved = (os.getcwd(), np.get_printoptions(), np.geterr(), _r.getstate(), np.random.get_state())
            os.chdir(tempfile.mkdtemp(prefix="env_", dir=tmpdir()))
            np.set_printoptions(precision=3, threshold=5, linewidth=40, suppress=True)
            np.seterr(all="warn")
            _r.seed(987654321)
            [_r.random() for _ in range(17)]
            np.random.seed(4321)
            np.random.rand(5)
            self.mark = self.state()
        return self

    def state(self):
        import random as _r
        st = np.random.get_state()
        return {"cwd": os.getcwd(), "np.geterr": dict(np.geterr()), "np.printoptions": repr(sorted(np.get_printoptions().items())),
                "random state": hash(_r.getstate()), "np.random state": (st[0], st[1].tobytes(), st[2], st[3], st[4])}

    def changed(self):
        if not self.on:
            return []
        now = self.state()
        out = [k for k in now if now[k] != self.mark[k]]
        self.mark = now
        return out

    def __exit__(self, *a):
        if self.on:
            import random as _r
            cwd, po, err, rs, nrs = self.saved
            os.chdir(cwd)
            np.set_printoptions(**po)
            np.seterr(**err)
            _r.setstate(rs)
            np.random.set_state(nrs)
        return False


class World:
    """one execution of a program on the real classes"""

    def __init__(self, prog):
        self.prog = prog
        self.paths = {}
        self.full = {}          # source -> fully loaded storer (only used to encode unselected events)
        self.regs = []          # real storers
        self.meta = []          # per register: dict(kind, ptype)
        self.uid = {}           # id(particle) -> uid
        self.keep = []          # keeps particle objects alive
        self.nuid = 0
        self.footer_ids = {}
        self.nfooter = 0
        self.rowof = {}         # id(particle) -> expected particle_list() row

    # -- identities
    def uid_of(self, p):
        k = id(p)
        if k not in self.uid:
            self.uid[k] = self.nuid
            self.nuid += 1
            self.keep.append(p)
        return self.uid[k]

    def footer_id(self, text):
        if text not in self.footer_ids:
            self.footer_ids[text] = len(self.footer_ids)
        return self.footer_ids[text]

    # -- sources
    def path(self, src):
        if src not in self.paths:
            self.paths[src] = write_file(self.prog["sources"][src], len(self.paths) + 1,
                                         os.getcwd() if self.prog.get("env") else None)
        return self.paths[src]

    def register_rows(self, src, s):
        """the row `particle_list()` must show for every particle of a freshly loaded storer, from the source itself:
        the particle's line of the file in column order; for a nested list the documented getters in documented order"""
        d = self.prog["sources"][src]
        if d["kind"] == "p":
            for ev in s.particle_objects_list():
                for p in ev:
                    self.rowof[id(p)] = rowkey([getattr(p, a) for a in POBJ_COLUMNS])
                    self.keep.append(p)
            return
        idcol = 10 if d["kind"] == "o" else 0
        byid = {int(r[idcol]): r for ev in d["events"] for r in ev}
        for ev in s.particle_objects_list():
            for p in ev:
                self.rowof[id(p)] = rowkey(byid[int(p.ID)])
                self.keep.append(p)

    def load(self, src, kw, form="pos", explicit_default=False, input_mode=None):
        d = self.prog["sources"][src]
        def build(cls, first):
            return cls(**dict({CTOR_PARAM[d["kind"]]: first}, **kw)) if form == "kw" else cls(first, **kw)
        if d["kind"] == "p":
            from sparkx.ParticleObjectStorer import ParticleObjectStorer
            if src not in self.full:
                objs = []
                for ev in d["events"]:
                    row = []
                    for s in ev:
                        p = pmodel.make_particle(s)
                        row.append(p)
                    objs.append(row)
                n = 0
                for row in objs:
                    for p in row:
                        p.ID = 1000 * (int(src[1:]) + 1) + n
                        n += 1
                self.full[src] = objs
            nested = [list(ev) for ev in self.full[src]]
            if input_mode == "deepcopy":
                nested = copy.deepcopy(nested)              # the caller hands over copies of the particles
            elif input_mode == "pickle":
                nested = pickle.loads(pickle.dumps(nested))
            elif input_mode == "listsubclass":
                nested = ListSubclass(ListSubclass(ev) for ev in nested)
            elif input_mode == "tuple-events":
                nested = [tuple(ev) for ev in nested]      # events given as tuples (accepted by the clean code, probed)
            return build(ParticleObjectStorer, nested)
        if d["kind"] == "o":
            from sparkx.Oscar import Oscar
            return build(Oscar, self.path(src))
        from sparkx.Jetscape import Jetscape
        if d.get("parton"):
            kw = dict(kw, particletype="parton")
        elif explicit_default:
            kw = dict(kw, particletype="hadron")          # the documented default, given explicitly
        return build(Jetscape, self.path(src))

    def full_events(self, src):
        d = self.prog["sources"][src]
        if d["kind"] == "p":
            self.load(src, {})
            return self.full[src]
        if src not in self.full:
            self.full[src] = self.load(src, {}).particle_objects_list()
        return self.full[src]

    # -- observation
    def observe(self, s):
        o = {}
        nev = s.num_events()
        o["nev"] = "N" if nev is None else str(int(nev))
        o["cnt"] = canon_counts(s.num_output_per_event())
        pol = s.particle_objects_list()
        o["ev"] = "-" if len(pol) == 0 else "|".join("." if not ev else ",".join(str(self.uid_of(p)) for p in ev) for ev in pol)
        try:
            o["pl"] = canon_pl(s.particle_list())
        except Exception as e:
            o["pl"] = errkind(e)
        o["ft"] = "_".join(str(self.footer_id(t)) for t in getattr(s, "event_end_lines_", []))
        return o

    def keys_of_uids(self, s, struct):
        """model answer for particle_list (uids) -> the rows `_particle_as_list` gives for those particles"""
        table = {u: p for p in self.keep for u in [self.uid[id(p)]]}

        def key(u):
            p = table[u]
            return self.rowof[id(p)] if id(p) in self.rowof else rowkey(s._particle_as_list(p))
        if isinstance(struct, str):
            return struct
        if struct and isinstance(struct[0], list) or struct == [] or any(isinstance(x, list) for x in struct):
            return [[key(u) for u in ev] for ev in struct]
        return [key(u) for u in struct]


def rowkey(row):
    return tuple("nan" if x != x else repr(float(x)) for x in row)


def canon_counts(c):
    if c is None:
        return "none"
    if isinstance(c, list):
        try:
            return "py=" + "_".join(str(int(x)) for x in c)
        except Exception:
            return "py?"
    if isinstance(c, np.ndarray):
        if c.ndim == 2 and c.shape[1] == 2:
            return "a2=" + "+".join(f"{int(r[0])}_{int(r[1])}" for r in c)
        if c.ndim == 2 and c.shape[0] == 0:
            return "a2="
        if c.ndim == 1:
            return "a1=" + "_".join(str(int(x)) for x in c)
        return f"a?{c.shape}"
    return "?" + type(c).__name__


def canon_pl(pl):
    """'E' | ('F', [rowkeys]) | ('N', [[rowkeys]])"""
    if len(pl) == 0:
        return "E"
    nested = any(isinstance(e, list) and (len(e) == 0 or isinstance(e[0], list)) for e in pl)
    if nested:
        return ("N", [[rowkey(r) for r in ev] for ev in pl])
    return ("F", [rowkey(r) for r in pl])


def parse_model_pl(txt):
    if txt == "E" or txt.startswith("err"):
        return txt
    tag, body = txt.split(":", 1)
    if tag == "F":
        return ("F", [int(x) for x in body.split(",")])
    return ("N", [[] if ev == "." else [int(x) for x in ev.split(",")] for ev in body.split("|")])


def parse_obs(txt):
    if txt.startswith("err") or txt in ("skip", "bad-op"):
        return txt
    d = {}
    for f in txt.split(";"):
        k, v = f.split("=", 1)
        d[k] = v
    return d


# ----------------------------------------------------------------------------- running a program on the real code
def enc_counts_state(c):
    return canon_counts(c)


def encode_leaf(w, step, s):
    """the instruction for the driver that creates this register"""
    src = step["src"]
    d = w.prog["sources"][src]
    kind = d["kind"]
    kwj = step.get("kwargs", {})
    ptype = 1 if d.get("parton") else 0
    pol = s.particle_objects_list()
    ids = {}
    for ev in pol:
        for p in ev:
            ids[id(p)] = w.uid_of(p)
    footers = "_".join(str(w.footer_id(t)) for t in getattr(s, "event_end_lines_", []))
    if "filters" not in kwj:
        # constructor path modelled by `initState`: whole file/list + selector
        full = w.full_events(src)
        sel = "all"
        lo, hi = 0, len(full) - 1
        if "events" in kwj:
            e = arg_from_json(kwj["events"])
            if isinstance(e, tuple):
                sel = f"r_{e[0]}_{e[1]}"
                lo, hi = e
            else:
                sel = f"k_{e}"
                lo = hi = e
        evs = []
        for i, ev in enumerate(full):
            if lo <= i <= hi and i - lo < len(pol) and len(pol[i - lo]) == len(ev):
                evs.append(pol[i - lo])      # the objects the storer under test holds
            else:
                evs.append(ev)
                for p in ev:
                    if id(p) not in ids:
                        ids[id(p)] = w.uid_of(p) + 500000     # never held by the storer under test
        return f"I@{kind}@{sel}@{footers}@{ptype}@{pmodel.encode_events(evs, ids)}"
    nev = s.num_events()
    nevs = "N" if nev is None else str(int(nev))
    return f"S@{kind}@{nevs}@{canon_counts(s.num_output_per_event())}@{footers}@{ptype}@{pmodel.encode_events(pol, ids)}"


def run_program(prog, oracle=None):
    with Env(prog):
        return _run_program(prog)


def _run_program(prog, oracle=None):
    """execute on the real classes. Returns (world, instrs, observations); observation = dict or 'err kind'.
    Stops after the first exception.  `oracle(world, step_index, step, result)` may record property failures."""
    w = World(prog)
    instrs, obs = [], []
    for i, step in enumerate(prog["steps"]):
        op = step["op"]
        try:
            if op == "leaf":
                kw = kwargs_from_json(step.get("kwargs", {}))
                s = w.load(step["src"], kw, step.get("form", "pos"), step.get("explicit_default", False), step.get("input"))
                s = transform(s, step.get("copy"))
                w.register_rows(step["src"], s)
                w.regs.append(s)
                d = prog["sources"][step["src"]]
                w.meta.append({"kind": d["kind"], "ptype": 1 if d.get("parton") else 0})
                instrs.append(encode_leaf(w, step, s))
                target = s
            elif op == "filter":
                s = w.regs[step["reg"]]
                instrs.append(f"F@{step['reg']}@{pmodel.encode_call(step['name'], args_from_json(step['args']))}")
                r = call_step(w, step)
                if r is not s:
                    raise AssertionError("filter method did not return self")
                target = s
            else:
                a, b = w.regs[step["a"]], w.regs[step["b"]]
                instrs.append(f"A@{step['a']}@{step['b']}")
                target = invoke_add(a, b, step.get("form", "op"))
                if step.get("copy") == "copy":
                    target = copy.copy(target)       # (deep copies of sums: oracle only — the model names particles by identity)
                w.regs.append(target)
                w.meta.append(dict(w.meta[step["a"]]))
        except Exception as e:
            if op == "leaf" and len(instrs) == i:
                # constructor raised: nothing to tell the driver
                obs.append("ctor-" + errkind(e))
                return w, instrs, obs
            obs.append(errkind(e))
            if op == "filter" and step.get("bad"):
                continue        # an error-path step: the history goes on with the same objects
            return w, instrs, obs
        obs.append(w.observe(target))
    return w, instrs, obs


def compare(w, prog, instrs, obs, answer):
    """None or a description of the first difference between real observations and the driver's answer"""
    outs = answer.split(" # ")
    if len(outs) != len(instrs):
        return f"driver gave {len(outs)} observations for {len(instrs)} instructions: {answer[:200]}"
    ri = 0
    for i, (o, m) in enumerate(zip(obs, outs)):
        m = parse_obs(m)
        step = prog["steps"][i]
        if isinstance(o, str) or isinstance(m, str):
            if o != m:
                return f"step {i} {step_text(step)}: code `{o}` vs model `{m}`"
            continue
        target = w.regs[step["reg"]] if step["op"] == "filter" else w.regs[ri]
        if step["op"] != "filter":
            ri += 1
        for k in ("nev", "cnt", "ev", "ft"):
            if o[k] != m[k]:
                return f"step {i} {step_text(step)}: {k}: code `{o[k]}` vs model `{m[k]}`"
        heldtxt = "-" if o["nev"] == "0" else o["ev"]
        if m["sp"] != heldtxt:
            return f"step {i} {step_text(step)}: plain-list evaluation `{m['sp']}` vs held list `{heldtxt}`"
        mp = parse_model_pl(m["pl"])
        if isinstance(mp, tuple):
            mp = (mp[0], w.keys_of_uids(target, mp[1]))
        if mp != o["pl"]:
            return f"step {i} {step_text(step)}: particle_list(): code `{short(o['pl'])}` vs model `{short(mp)}`"
    return None


def short(x):
    s = repr(x)
    return s if len(s) < 160 else s[:160] + "…"


def step_text(step):
    if step["op"] == "leaf":
        return f"{step['src']}({json.dumps(step.get('kwargs', {}))})" + (" <kw>" if step.get("form") == "kw" else "")
    if step["op"] == "filter":
        tag = f" [{step['bad']}]" if step.get("bad") else ""
        form = "" if step.get("form", "pos") in ("pos", "op") else f" <{step['form']}>"
        if step["name"] == "__add__":
            other = f"r{step['b']}" if "b" in step else repr(arg_from_json(step["other"]))
            return f"r{step['reg']}+{other}{form}{tag}"
        return f"r{step['reg']}.{step['name']}{pmodel_args(step['args'])}{form}{tag}"
    return f"r{step['a']}+r{step['b']}" + ("" if step.get("form", "op") == "op" else " <dunder>")


def pmodel_args(js):
    a = args_from_json(js)
    return tuple(x.tolist() if isinstance(x, np.ndarray) else x for x in a)


# ----------------------------------------------------------------------------- program generation (adaptive)
def gen_program(rng, maxlen=12, want_kind=None):
    """random program; filters are drawn against the current real state so that most steps are admissible"""
    kind = want_kind or rng.choice(["p", "p", "o", "o", "j"])
    prog = {"sources": {}, "steps": []}
    nsrc = rng.choice([1, 1, 2, 2, 3])
    kinds = []
    ext = rng.random() < 0.6      # one Oscar format per program: a sum of different formats only warns and is not "compatible"
    for i in range(nsrc):
        k = kind if rng.random() < 0.95 else rng.choice(["p", "o", "j"])
        name = f"s{i}"
        if k == "p":
            prog["sources"][name] = {"kind": "p", "events": gen_list(rng)}
        else:
            prog["sources"][name] = gen_file(rng, k, ext)
        if k == "j" and i > 0 and kinds and kinds[0] == "j" and rng.random() < 0.85:
            # same particle type as the first Jetscape file, otherwise `+` is (rightly) rejected most of the time
            want = prog["sources"]["s0"].get("parton", False)
            if prog["sources"][name]["parton"] != want:
                prog["sources"][name] = gen_file_with(rng, "j", want)
        kinds.append(k)
    nleaf = rng.choice([1, 2, 2, 3])
    reg_kinds = []
    for _ in range(nleaf):
        src = rng.choice(sorted(prog["sources"]))
        d = prog["sources"][src]
        kw = gen_kwargs(rng, len(d["events"]), d["kind"], d["events"])
        prog["steps"].append({"op": "leaf", "src": src, "kwargs": kwargs_to_json(kw), "form": rng.choice(["pos", "kw"]),
                              "explicit_default": rng.random() < 0.3})
        reg_kinds.append(d["kind"])
    nops = rng.randint(1, max(1, maxlen - nleaf))
    for _ in range(nops):
        r = rng.random()
        if r < 0.28 and len(reg_kinds) >= 1:
            a = rng.randrange(len(reg_kinds))
            same = [j for j, k in enumerate(reg_kinds) if k == reg_kinds[a]]
            b = rng.choice(same) if rng.random() < 0.95 else rng.randrange(len(reg_kinds))
            prog["steps"].append({"op": "add", "a": a, "b": b, "form": rng.choice(["op", "op", "dunder"])})
            reg_kinds.append(reg_kinds[a])
        elif r < 0.34:
            src = rng.choice(sorted(prog["sources"]))
            d = prog["sources"][src]
            kw = gen_kwargs(rng, len(d["events"]), d["kind"], d["events"])
            prog["steps"].append({"op": "leaf", "src": src, "kwargs": kwargs_to_json(kw), "form": rng.choice(["pos", "kw"]),
                                  "explicit_default": rng.random() < 0.3})
            reg_kinds.append(d["kind"])
        elif r < 0.44:
            reg = rng.randrange(len(reg_kinds))
            prog["steps"].append(gen_bad_step(rng, reg, reg_kinds[reg], len(reg_kinds), reg_kinds))
        else:
            reg = rng.randrange(len(reg_kinds))
            k = reg_kinds[reg]
            names = [n for n in pmodel.ALL_FILTERS if n not in NOT_IMPLEMENTED[k]] if rng.random() < 0.96 else None
            if rng.random() < 0.3:
                names = [n for n in ["multiplicity_cut", "lower_event_energy_cut", "charged_particles", "uncharged_particles",
                                     "pT_cut", "remove_particle_species"] if n not in NOT_IMPLEMENTED[k]]
            name, args = pmodel.gen_call(rng, names)
            args = vary_args(rng, name, args)
            prog["steps"].append({"op": "filter", "reg": reg, "name": name, "args": args_to_json(args), "form": gen_form(rng, name)})
    return with_devices(rng, prog)


def model_view(prog):
    """the program as the Lean driver can follow it: error-path steps whose outcome the model cannot express (an
    operand that is not a storer, warnings turned into errors, arguments outside the line protocol) are left out"""
    steps = []
    for st in prog["steps"]:
        if st["op"] == "filter" and st.get("bad"):
            if st["bad"] == "midway" or (st["bad"] == "invalid-arg" and (st["name"], st.get("variant")) in MODEL_SAFE):
                steps.append(st)
            continue
        steps.append(st)
    return {"sources": prog["sources"], "steps": steps}


def gen_file_with(rng, kind, parton):
    for _ in range(50):
        d = gen_file(rng, kind)
        if d["parton"] == parton:
            return d
    return d


def make_admissible(prog):
    """drop steps the generator produced blindly but that cannot run: leaves whose constructor raises, filters that
    need a PDG id / time-like position when a held particle lacks it.  (Programs are executed once to find out.)"""
    steps = list(model_view(prog)["steps"])
    for _ in range(40):
        p2 = {"sources": prog["sources"], "steps": steps}
        w, instrs, obs = run_program(p2)
        bad = None
        for i, o in enumerate(obs):
            if isinstance(o, str):
                st = steps[i]
                if st["op"] == "filter" and st.get("bad"):
                    continue            # an intended error-path step
                if o.startswith("ctor-"):
                    bad = i
                elif st["op"] == "filter" and o in ("err value", "err type") and inadmissible(w, st):
                    bad = i
                break
        if bad is None:
            return p2
        steps = drop_step(steps, bad)
        if steps is None or not steps:
            return None
    return None


def inadmissible(w, st):
    """the filter itself raises its documented error on this held list (C03's exclusions)"""
    s = w.regs[st["reg"]]
    name = st["name"]
    pol = s.particle_objects_list()
    if name == "spacetime_rapidity_cut" and any(pmodel.spacelike(p) for ev in pol for p in ev):
        return True
    return False


def drop_step(steps, i):
    """remove step i; a register-creating step can only go if nothing refers to its register (then renumber)"""
    st = steps[i]
    if st["op"] == "filter":
        return steps[:i] + steps[i + 1:]
    reg = sum(1 for s in steps[:i] if s["op"] != "filter")
    out = []
    for j, s in enumerate(steps):
        if j == i:
            continue
        s = dict(s)
        if j > i:
            for key in ("reg", "a", "b"):
                if key in s:
                    if s[key] == reg:
                        return drop_dependents(steps, i, reg)
                    if s[key] > reg:
                        s[key] -= 1
        out.append(s)
    return out


def drop_dependents(steps, i, reg):
    """remove step i together with every later step that (transitively) uses its register"""
    dead = {reg}
    keep = []
    nreg = 0
    remap = {}
    for j, s in enumerate(steps):
        creates = s["op"] != "filter"
        myreg = nreg if creates else None
        if creates:
            nreg += 1
        uses = [s[k] for k in ("reg", "a", "b") if k in s]
        if j == i or any(u in dead for u in uses):
            if creates:
                dead.add(myreg)
            continue
        s = dict(s)
        for k in ("reg", "a", "b"):
            if k in s:
                s[k] = remap[s[k]]
        if creates:
            remap[myreg] = len(remap)
        keep.append(s)
    return keep


# ----------------------------------------------------------------------------- exhaustive small scope
def systematic_programs(rng, limit=None):
    """for each class: one 4-event source (sizes 2,0,3,1), every pair of selectors (whole, k, (a,b)) -> a, b, a+b,
    a filter on the sum, (a+b)+a, a filter on a, a+b again"""
    sels = [{}] + [{"events": arg_to_json(k)} for k in range(4)] + \
        [{"events": arg_to_json((a, b))} for a in range(4) for b in range(a, 4)]
    progs = []
    for kind in ("p", "o", "j"):
        if kind == "p":
            src = {"kind": "p", "events": [[pmodel.gen_spec(rng, 0.1) for _ in range(m)] for m in (2, 0, 3, 1)]}
        else:
            src = gen_file(rng, kind)
            rows = [gen_oscar_row(rng, src.get("ext", False)) if kind == "o" else gen_jetscape_row(rng, src.get("parton", False))
                    for _ in range(6)]
            src["events"] = renumber(src, [rows[0:2], [], rows[2:5], rows[5:6]])
        for sa in sels:
            for sb in sels:
                name, args = pmodel.gen_call(rng, ["charged_particles", "uncharged_particles", "multiplicity_cut", "pT_cut",
                                                   "lower_event_energy_cut", "remove_particle_species"])
                name2, args2 = pmodel.gen_call(rng, ["charged_particles", "multiplicity_cut", "pT_cut", "keep_mesons"])
                progs.append({"sources": {"s0": src}, "steps": [
                    {"op": "leaf", "src": "s0", "kwargs": sa}, {"op": "leaf", "src": "s0", "kwargs": sb},
                    {"op": "add", "a": 0, "b": 1},
                    {"op": "filter", "reg": 2, "name": name, "args": args_to_json(args)},
                    {"op": "add", "a": 2, "b": 0},
                    {"op": "filter", "reg": 0, "name": name2, "args": args_to_json(args2)},
                    {"op": "add", "a": 0, "b": 1}]})
    if limit is not None and len(progs) > limit:
        progs = rng.sample(progs, limit)
    return progs


def rich_sizes(rng):
    """1-4 events, mostly 2-6 particles (so that thinning filters leave something an event-level cut can judge)"""
    return [rng.choice([0, 1, 2, 3, 3, 4, 4, 5, 6]) for _ in range(rng.randint(1, 4))]


def ctor_filter_programs(rng, n):
    """constructor `filters=` dictionaries (1-4 entries, random key order, biased to non-commuting pairs) for the three
    storers, with and without `events=`; sometimes followed by a filter method and a sum, so that the history goes on"""
    progs = []
    for i in range(n):
        kind = ("p", "o", "j")[i % 3]
        if kind == "p":
            src = {"kind": "p", "events": [[pmodel.gen_spec(rng, 0.05) for _ in range(m)] for m in rich_sizes(rng)]}
        else:
            src = gen_file(rng, kind)
            rows = [[(gen_oscar_row(rng, src.get("ext", False)) if kind == "o" else gen_jetscape_row(rng, src.get("parton", False)))
                     for _ in range(m)] for m in rich_sizes(rng)]
            src["events"] = renumber(src, rows)
        nev = len(src["events"])
        kw = {"filters": gen_ctor_filters(rng, kind, src["events"])}
        r = rng.random()
        if r < 0.25:
            kw["events"] = rng.randrange(nev)
        elif r < 0.5:
            a = rng.randrange(nev)
            kw["events"] = (a, rng.randrange(a, nev))
        steps = [{"op": "leaf", "src": "s0", "kwargs": kwargs_to_json(kw)}]
        if rng.random() < 0.3:
            name, args = pmodel.gen_call(rng, [x for x in ["charged_particles", "multiplicity_cut", "pT_cut", "keep_mesons"]
                                               if x not in NOT_IMPLEMENTED[kind]])
            steps += [{"op": "leaf", "src": "s0", "kwargs": {}}, {"op": "add", "a": 0, "b": 1},
                      {"op": "filter", "reg": 2, "name": name, "args": args_to_json(args)}]
        progs.append({"sources": {"s0": src}, "steps": steps})
    return progs


# ----------------------------------------------------------------------------- corpus
def corpus_programs():
    out = []
    if CORPUS.exists():
        for f in sorted(CORPUS.glob("*.json")):
            try:
                d = json.loads(f.read_text())
                out.append((f.name, d["input"]["program"], d.get("key")))
            except Exception:
                pass
    return out


# ----------------------------------------------------------------------------- correspondence
def nontrivial_of(prog, obs):
    """a history with at least one size-changing filter AND (an addition or a partial load / emptied event)"""
    changed = False
    for i, st in enumerate(prog["steps"][:len(obs)]):
        if st["op"] == "filter" and isinstance(obs[i], dict):
            changed = True
    has_add = any(st["op"] == "add" for st in prog["steps"][:len(obs)])
    partial = any(st["op"] == "leaf" and st.get("kwargs") for st in prog["steps"][:len(obs)])
    emptied = any(isinstance(o, dict) and ("." in o["ev"].split("|")) for o in obs)
    return changed and (has_add or partial or emptied)


def count_tags(ctx, prog, obs):
    for i, st in enumerate(prog["steps"][:len(obs)]):
        o = obs[i]
        d = prog["sources"][st["src"]] if st["op"] == "leaf" else None
        if st["op"] == "leaf":
            ctx.count(f"leaf/{CLSNAME[d['kind']]}/{origin_of(st.get('kwargs', {}))}")
        elif st["op"] == "filter" and st.get("bad"):
            ctx.count(f"corr-error-path/{st['bad']}/{st['name']}" + ("/" + o.replace(" ", "-") if isinstance(o, str) else "/accepted"))
        elif st["op"] == "filter":
            ctx.count("filter/" + st["name"] + ("/" + o.replace(" ", "-") if isinstance(o, str) else ""))
        else:
            ctx.count("add" + ("/" + o.replace(" ", "-") if isinstance(o, str) else ""))
        if isinstance(o, dict):
            if o["ev"] in (".",):
                ctx.count("state/no-events-left")
            if o["nev"] == "1":
                ctx.count("state/single-event")
            if o["nev"] == "0":
                ctx.count("state/zero-events")
    ctx.count(f"history-length/{len(obs)}")


def correspond(ctx):
    rng = ctx.rng
    ctx.assumptions.append("C04: numpy semantics mirrored by hand in Core/Storer.lean (np.concatenate dimension check, 2-index access on "
                           "1-D arrays / lists, slice start, ndim dispatch); `_particle_as_list` (row conversion) is outside the model: "
                           "particle_list() rows are compared by value with `_particle_as_list` of the held objects; operand aliasing "
                           "(a, b unchanged by a+b) is checked on the real objects only; Jetscape sigmaGen averaging is not modelled "
                           "(not among the property's observables, and not associative)")
    ctx.assumptions.append("C04 round-4 devices: text variants of the input files (CRLF, trailing blanks, non-ASCII free text) are used only "
                           "where the readers read them exactly like the plain file (probed each run, see coverage."
                           "text_variants_read_like_plain_file); the others are rejected loudly (ValueError) by the readers, which is "
                           "C01/C07's subject, not C04's; `events=` given as a list or numpy integer is silently ignored by "
                           "ParticleObjectLoader (selection = C02's subject) and is not generated here")
    ctx.rule = ("random programs (<= 12 steps) over registers of real storers: ParticleObjectStorer(nested list, incl. [] and [[]]), "
                "Oscar2013 / Oscar2013Extended and JETSCAPE hadron/parton files written by the harness (1-5 events, empty events, "
                "one 12-particle event), each loaded whole / events=k / events=(a,b) / filters= / both; steps = any filter method with "
                "boundary-biased admissible arguments (4% blindly chosen, incl. NotImplementedError overrides), `+` of two registers "
                "(incl. filtered, partially loaded, the same register twice, 5% wrong class), new leaves; after every step "
                "num_events / num_output_per_event (shape+values) / particle_objects_list (identity) / particle_list / footers are "
                "compared with the model; non-trivial = at least one successful filter step and (an addition, a partial load or an "
                "emptied event); distinct by program text")
    cases = []
    for name, prog, _ in corpus_programs():
        cases.append((prog, "corpus:" + name))
    for prog in systematic_programs(rng, None if ctx.thorough else 40):
        prog = make_admissible(with_forms(rng, prog))
        if prog is not None:
            cases.append((prog, "systematic"))
    nfixed = len(cases)
    N = ctx.n(300, 2500)
    tries = 0
    while len(cases) < N + nfixed and tries < 4 * N:
        tries += 1
        prog = make_admissible(gen_program(rng))
        if prog is not None:
            cases.append((prog, "random"))
    runs, lines = [], []
    for prog, origin in cases:
        w, instrs, obs = run_program(prog)
        if not instrs:
            continue
        runs.append((prog, origin, w, instrs, obs))
        lines.append(driver_line(instrs))
    outs = common.run_driver("C04", lines)
    nbrk = 0
    for (prog, origin, w, instrs, obs), out in zip(runs, outs):
        obs = obs[:len(instrs)]
        diff = compare(w, prog, instrs, obs, " # ".join(out.split(" # ")[:len(obs)]))
        ctx.case(json.dumps(prog, sort_keys=True), nontrivial_of(prog, obs),
                 sample=dict(program=[step_text(s) for s in prog["steps"][:len(obs)]],
                             last_code=obs[-1] if isinstance(obs[-1], str) else {k: short(v) for k, v in obs[-1].items()},
                             model=out.split(" # ")[len(obs) - 1][:300]))
        count_tags(ctx, prog, obs)
        if diff and nbrk < 3:
            nbrk += 1
            small = shrink(prog, lambda p: corr_fails(p))
            ctx.brk("correspondence-broken", diff + f" [{origin}]", case=dict(program=small, text=[step_text(s) for s in small["steps"]]))
        elif diff:
            ctx.brk("correspondence-broken", diff + f" [{origin}]")


def corr_fails(prog):
    w, instrs, obs = run_program(prog)
    if not instrs:
        return False
    out = common.run_driver("C04", [driver_line(instrs)])[0]
    obs = obs[:len(instrs)]
    return compare(w, prog, instrs, obs, " # ".join(out.split(" # ")[:len(obs)])) is not None


# ----------------------------------------------------------------------------- oracle (independent reference)
BASE = {"o": 0, "j": 1, "p": 0}


class Fail(Exception):
    def __init__(self, key, what):
        self.key, self.what = key, what


def snapshot(s):
    c = s.num_output_per_event()
    return (s.num_events(), None if c is None else np.array(c, copy=True), id(s.particle_objects_list()),
            [(id(ev), [id(p) for p in ev]) for ev in s.particle_objects_list()],
            list(getattr(s, "event_end_lines_", [])), {id(p): p.data_.copy() for ev in s.particle_objects_list() for p in ev})


def same_snapshot(x, y):
    if x[0] != y[0] or x[2] != y[2] or x[3] != y[3] or x[4] != y[4]:
        return False
    if (x[1] is None) != (y[1] is None):
        return False
    if x[1] is not None and not (x[1].shape == y[1].shape and np.array_equal(x[1], y[1])):
        return False
    return all(np.array_equal(x[5][k], y[5][k], equal_nan=True) for k in x[5])


def check_state(s, ref, cls, origin, rowof=None):
    """the property's per-state clauses against the reference `ref = dict(events=[[obj]] | None, first=label | None)`.
    A storer with num_events()==0 holds no event; its particle_objects_list() is [] or the placeholder [[]]
    (the constructors' representation of "every event removed by filters=", pinned by the test-suite).
    Keys name the defect class: <class>-<ctor|filter|add>-<what>."""
    C = CLSNAME[cls]
    o = "ctor" if origin.startswith("ctor") else origin
    pol = s.particle_objects_list()
    nev = s.num_events()
    zero = nev is not None and int(nev) == 0 and (pol == [] or pol == [[]])
    heldl = [] if zero else pol
    if ref.get("events") is not None:
        want = ref["events"]
        if len(heldl) != len(want) or any(len(a) != len(b) or any(p is not q for p, q in zip(a, b)) for a, b in zip(heldl, want)):
            raise Fail(f"{C}-{o}-contents", f"held events differ from the same operations on plain lists: sizes "
                       f"{[len(e) for e in heldl]} vs {[len(e) for e in want]}")
    if nev is None or int(nev) != len(heldl):
        raise Fail(f"{C}-{o}-bookkeeping", f"[{origin}] num_events()={nev} but {len(pol)} events are held (sizes {[len(e) for e in pol]})")
    c = s.num_output_per_event()
    good = isinstance(c, np.ndarray) and ((c.ndim == 2 and c.shape == (len(heldl), 2)) or (zero and len(c) == 0))
    if not good:
        raise Fail(f"{C}-{o}-bookkeeping",
                   f"[{origin}] num_output_per_event() is {type(c).__name__} {short(c if not isinstance(c, np.ndarray) else c.tolist())} "
                   f"(not one (label,count) row per held event; {len(heldl)} events held)")
    if not zero:
        if [int(x) for x in c[:, 1]] != [len(e) for e in heldl]:
            raise Fail(f"{C}-{o}-bookkeeping", f"[{origin}] per-event counts {c[:, 1].tolist()} but held sizes {[len(e) for e in heldl]}")
        labels = [int(x) for x in c[:, 0]]
        first = ref.get("first")
        if first is not None and labels != list(range(first, first + len(labels))):
            raise Fail(f"{o}-labels", f"[{C} {origin}] event labels {labels}, expected {list(range(first, first + len(labels)))}")
        if labels != list(range(labels[0], labels[0] + len(labels))):
            raise Fail(f"{o}-labels", f"[{C} {origin}] event labels {labels} are not consecutive")
    try:
        pl = s.particle_list()
    except Exception as e:
        if zero:
            raise Fail("no-events-particle_list-raises", f"[{C} {origin}] no event held (num_events()==0): particle_list() raised "
                       f"{type(e).__name__}: {e}")
        raise Fail(f"{C}-{o}-particle_list-raises-{type(e).__name__}", f"[{origin}] particle_list() raised {type(e).__name__}: {e}")
    want = [[(rowof[id(p)] if rowof is not None and id(p) in rowof else rowkey(s._particle_as_list(p))) for p in ev] for ev in heldl]
    got = canon_pl(pl)
    exp = ("F", want[0]) if len(heldl) == 1 else ("N", want)
    if not exp[1]:
        exp = "E"
    if got != exp:
        raise Fail(f"{C}-{o}-particle_list-mirror", f"[{origin}] particle_list() does not mirror particle_objects_list(): "
                   f"{short(got)} vs {short(exp)}")


def apply_ctor_filters_plain(filters, base_events, drop_emptied):
    """the documented semantics of `filters=` on plain lists: every event on its own, the `sparkx.Filter` functions in the
    order of the dictionary; the file readers drop an event that the filters emptied (ParticleObjectStorer keeps it)"""
    import sparkx.Filter as F
    out = []
    for ev in base_events:
        data = [list(ev)]
        for name, val in filters.items():
            if name in pmodel.NOARG:
                if val:
                    data = getattr(F, name)(data)
            elif name == "spacetime_cut":
                data = F.spacetime_cut(data, val[0], val[1])
            else:
                data = getattr(F, name)(data, val)
        res = data[0]
        if drop_emptied and len(res) == 0 and len(ev) != 0:
            continue
        out.append(res)
    return out


def pid_lists(evs):
    return [[int(p.ID) for p in ev] for ev in evs]


def order_sensitive(filters, base_events, drop_emptied):
    """does some permutation of the dictionary give other contents (or raise) on these events?"""
    import itertools
    items = list(filters.items())
    if len(items) < 2:
        return False
    try:
        want = pid_lists(apply_ctor_filters_plain(filters, base_events, drop_emptied))
    except Exception:
        return False
    for perm in itertools.islice(itertools.permutations(items), 1, 24):
        try:
            if pid_lists(apply_ctor_filters_plain(dict(perm), base_events, drop_emptied)) != want:
                return True
        except Exception:
            return True
    return False


def check_ctor_filters(w, step, s, cls, kw, origin, stats):
    """contents after construction with `filters=` == the same filter functions applied in dictionary order to the plain
    events of the same selection"""
    base_kw = {k: v for k, v in kw.items() if k != "filters"}
    try:
        base = w.load(step["src"], base_kw).particle_objects_list()
    except Exception:
        return
    drop = cls != "p"
    filters = kw["filters"]
    if not isinstance(filters, dict):
        return
    if stats is not None and len(filters) >= 2:
        stats["ctor-filters/multi-entry-dicts"] = stats.get("ctor-filters/multi-entry-dicts", 0) + 1
        stats[f"ctor-filters/multi-entry-dicts/{CLSNAME[cls]}"] = stats.get(f"ctor-filters/multi-entry-dicts/{CLSNAME[cls]}", 0) + 1
        if order_sensitive(filters, base, drop):
            stats["ctor-filters/order-sensitive"] = stats.get("ctor-filters/order-sensitive", 0) + 1
            k2 = f"ctor-filters/order-sensitive/{CLSNAME[cls]}" + ("+events" if "events" in kw else "")
            stats[k2] = stats.get(k2, 0) + 1
    try:
        want = apply_ctor_filters_plain(filters, base, drop)
    except Exception:
        return          # the filter functions reject these arguments / particles: not an admissible dictionary
    pol = s.particle_objects_list()
    nev = s.num_events()
    zero = nev is not None and int(nev) == 0 and (pol == [] or pol == [[]])
    heldl = [] if zero else pol
    if cls == "p" and not step.get("copy") in ("deepcopy", "pickle") and not step.get("input") in ("deepcopy", "pickle"):
        same = len(heldl) == len(want) and all(len(a) == len(b) and all(p is q for p, q in zip(a, b)) for a, b in zip(heldl, want))
    else:
        same = pid_lists(heldl) == pid_lists(want)
    if not same:
        raise Fail(f"{CLSNAME[cls]}-ctor-filters-contents",
                   f"[{origin}] filters={json.dumps(kwargs_to_json(kw)['filters'])}: held particle IDs {pid_lists(heldl)}, the same "
                   f"filter functions applied in dictionary order to the plain events give {pid_lists(want)}")


def oracle_program(prog, rng=None, stats=None):
    with Env(prog) as env:
        if env.on and stats is not None:
            stats["device/env"] = stats.get("device/env", 0) + 1
        return _oracle_program(prog, rng, stats, env)


def _oracle_program(prog, rng, stats, env):
    """runs the program on the real classes and on plain lists.  Returns the list of property failures
    [(key, what, failing_step)]: a failure at a constructor is recorded and the history continues from the object as
    it is; the first failure at a filter / addition ends the history."""
    w = World(prog)
    refs = []
    fails = []
    erred = set()          # registers on which a call has failed (and every sum built from them)
    for i, step in enumerate(prog["steps"]):
        op = step["op"]
        try:
            if op == "leaf":
                d = prog["sources"][step["src"]]
                cls = d["kind"]
                kwj = step.get("kwargs", {})
                kw = kwargs_from_json(kwj)
                origin = origin_of(kwj)
                try:
                    s = w.load(step["src"], kw, step.get("form", "pos"), step.get("explicit_default", False), step.get("input"))
                    s = transform(s, step.get("copy"))
                    w.register_rows(step["src"], s)
                    if stats is not None:
                        for dev, val in (("copy", step.get("copy")), ("input", step.get("input")), ("text", "+".join(d.get("text") or []))):
                            if val:
                                stats[f"device/{dev}/{val}"] = stats.get(f"device/{dev}/{val}", 0) + 1
                        if d.get("ext") == "old":
                            stats["device/oscar-layout/20-columns"] = stats.get("device/oscar-layout/20-columns", 0) + 1
                except Exception as e:
                    if step.get("copy") or step.get("input"):
                        try:
                            w.load(step["src"], kw)
                        except Exception:
                            return fails
                        raise Fail(f"{CLSNAME[cls]}-ctor-copy-or-input-form", f"{step_text(step)}: the plain call works, but with "
                                   f"copy={step.get('copy')} input={step.get('input')} it raised {type(e).__name__}: {e}")
                    if step.get("form", "pos") != "pos" or step.get("explicit_default"):
                        try:
                            w.load(step["src"], kw)
                        except Exception:
                            return fails
                        raise Fail(f"{CLSNAME[cls]}-ctor-call-form", f"constructor accepts the positional call but "
                                   f"{step_text(step)} (keyword / explicit default form) raised {type(e).__name__}: {e}")
                    return fails      # constructor rejects these arguments: not a loaded object
                w.regs.append(s)
                w.meta.append({"kind": cls, "ptype": 1 if d.get("parton") else 0})
                a = 0
                nsel = len(d["events"])
                if "events" in kw:
                    a = kw["events"][0] if isinstance(kw["events"], tuple) else kw["events"]
                    nsel = (min(kw["events"][1], len(d["events"]) - 1) - a + 1) if isinstance(kw["events"], tuple) else 1
                ref = {"events": None, "first": BASE[cls] + a}
                try:
                    if "filters" not in kw and len(s.particle_objects_list()) != nsel:
                        raise Fail(f"{CLSNAME[cls]}-ctor-contents", f"[{origin}] {nsel} events selected, {len(s.particle_objects_list())} held")
                    check_state(s, ref, cls, origin, rowof=w.rowof)
                except Fail as f:
                    fails.append((f.key, f.what, i))
                if "filters" in kw:
                    try:
                        check_ctor_filters(w, step, s, cls, kw, origin, stats)
                    except Fail as f:
                        fails.append((f.key, f.what, i))
                nev0 = s.num_events() is not None and int(s.num_events()) == 0
                ref["events"] = [] if nev0 else [list(ev) for ev in s.particle_objects_list()]
                if nev0:
                    ref["first"] = None
                refs.append(ref)
            elif op == "filter":
                r = step["reg"]
                s, ref, cls = w.regs[r], refs[r], w.meta[r]["kind"]
                name, args = step["name"], args_from_json(step["args"])
                if name == "__add__":
                    # error-path addition: an operand that is not a storer / of another class / particle type
                    other = w.regs[step["b"]] if "b" in step else arg_from_json(step["other"])
                    compatible = "b" in step and w.meta[step["b"]] == w.meta[r]
                    before = deep_state(s)
                    before_o = deep_state(other) if "b" in step else None
                    try:
                        call_step(w, step)
                    except Exception as e:
                        d1 = state_diff(before, deep_state(s))
                        d2 = state_diff(before_o, deep_state(other)) if before_o is not None else []
                        if d1 or d2:
                            raise Fail("error-path:object-changed-by-failed-call:__add__",
                                       f"[{CLSNAME[cls]}] {step_text(step)} raised {type(e).__name__} and changed {d1 + d2}")
                        erred.add(r)
                        if stats is not None:
                            stats[f"error-path/{step.get('bad')}/__add__"] = stats.get(f"error-path/{step.get('bad')}/__add__", 0) + 1
                    else:
                        if not compatible:
                            raise Fail("add-incompatible-accepted", f"{step_text(step)} did not raise")
                    check_state(s, ref, cls, "filter", rowof=w.rowof)
                elif name in NOT_IMPLEMENTED[cls]:
                    before = deep_state(s)
                    try:
                        call_step(w, step)
                        raise Fail(f"{CLSNAME[cls]}-notimplemented-override-missing", f"{name} did not raise NotImplementedError")
                    except NotImplementedError:
                        pass
                    except Fail:
                        raise
                    except Exception:
                        pass            # an invalid argument may be rejected before the override is reached
                    d1 = state_diff(before, deep_state(s))
                    if d1:
                        raise Fail(f"error-path:object-changed-by-failed-call:{name}", f"[{CLSNAME[cls]}] {step_text(step)} changed {d1}")
                    check_state(s, ref, cls, "filter", rowof=w.rowof)
                else:
                    pol_now = s.particle_objects_list()
                    unset_pdg = name in pmodel.NEEDS_PDG and any(p.pdg != p.pdg for ev in pol_now for p in ev)
                    spacelike = name == "spacetime_rapidity_cut" and any(pmodel.spacelike(p) for ev in pol_now for p in ev)
                    before = deep_state(s)
                    try:
                        out = call_step(w, step)
                    except Exception as e:
                        expected = bool(step.get("bad")) or spacelike or \
                            (isinstance(e, (ValueError, TypeError)) and not valid_args(name, args))
                        if not expected:
                            if not ref["events"]:
                                raise Fail("no-events-filter-raises", f"[{CLSNAME[cls]}] no event held: {step_text(step)} raised "
                                           f"{type(e).__name__}: {e}")
                            raise Fail(f"{CLSNAME[cls]}-filter-raises-{type(e).__name__}",
                                       f"{step_text(step)} raised {type(e).__name__}: {e}")
                        d1 = state_diff(before, deep_state(s))
                        if d1:
                            raise Fail(f"error-path:object-changed-by-failed-call:{name}",
                                       f"[{CLSNAME[cls]}] {step_text(step)} raised {type(e).__name__} ({str(e)[:60]}) and left the "
                                       f"storer changed: {d1}")
                        erred.add(r)
                        if stats is not None:
                            why = step.get("bad") or ("midway" if spacelike else "invalid-arg")
                            if why == "midway":
                                pos = [k for k, ev in enumerate(pol_now) if any(pmodel.spacelike(p) for p in ev)]
                                where = "first" if pos and pos[0] == 0 else ("last" if pos and pos[0] == len(pol_now) - 1 else "middle")
                                why = f"midway/{where}-event"
                            stats[f"error-path/{why}/{name}"] = stats.get(f"error-path/{why}/{name}", 0) + 1
                        check_state(s, ref, cls, "filter", rowof=w.rowof)
                    else:
                        try:
                            exp = pmodel.ref_filter(name, args, ref["events"]) if ref["events"] else []
                        except Exception:
                            return fails      # the call was accepted although the argument is outside the documented domain
                        if out is not s:
                            raise Fail(f"{CLSNAME[cls]}-filter-return", f"{name} did not return self")
                        if stats is not None and unset_pdg:
                            stats[f"pdg-unset/{name}"] = stats.get(f"pdg-unset/{name}", 0) + 1
                        if stats is not None:
                            stats[f"call-form/{step.get('form', 'pos')}"] = stats.get(f"call-form/{step.get('form', 'pos')}", 0) + 1
                        ref["events"] = exp
                        check_state(s, ref, cls, "filter", rowof=w.rowof)
            else:
                a, b = w.regs[step["a"]], w.regs[step["b"]]
                ra, rb = refs[step["a"]], refs[step["b"]]
                ma, mb = w.meta[step["a"]], w.meta[step["b"]]
                compatible = ma == mb
                sa, sb = snapshot(a), snapshot(b)
                try:
                    c = invoke_add(a, b, step.get("form", "op"))
                except Exception as e:
                    if not (same_snapshot(sa, snapshot(a)) and same_snapshot(sb, snapshot(b))):
                        raise Fail("error-path:object-changed-by-failed-call:__add__", f"a+b raised {type(e).__name__} and changed an operand")
                    if not compatible and isinstance(e, TypeError):
                        return fails
                    if not ra["events"] or not rb["events"]:
                        raise Fail("no-events-add-raises", f"[{CLSNAME[ma['kind']]}] an operand holds no event: a+b raised {type(e).__name__}: {e}")
                    raise Fail(f"{CLSNAME[ma['kind']]}-add-raises-{type(e).__name__}", f"a+b raised {type(e).__name__}: {e}")
                if not compatible:
                    raise Fail("add-incompatible-accepted", "a+b of storers of different class / particle type did not raise")
                if not (same_snapshot(sa, snapshot(a)) and same_snapshot(sb, snapshot(b))):
                    raise Fail("add-mutates-operand", f"[{CLSNAME[ma['kind']]}] a or b changed by a+b")
                first = ra["first"] if ra["events"] else rb["first"]
                ref = {"events": ra["events"] + rb["events"], "first": first}
                if step.get("copy"):
                    c2 = transform(c, step["copy"])
                    if stats is not None:
                        stats[f"device/copy-of-sum/{step['copy']}"] = stats.get(f"device/copy-of-sum/{step['copy']}", 0) + 1
                    olds = [p for ev in c.particle_objects_list() for p in ev]
                    news = [p for ev in c2.particle_objects_list() for p in ev]
                    if len(olds) == len(news):
                        m = {id(o_): n_ for o_, n_ in zip(olds, news)}
                        for o_, n_ in zip(olds, news):
                            if id(o_) in w.rowof:
                                w.rowof[id(n_)] = w.rowof[id(o_)]
                            w.keep.append(n_)
                        ref = {"events": [[m[id(p)] for p in ev] for ev in ref["events"]], "first": ref["first"]}
                    c = c2
                w.regs.append(c)
                w.meta.append(dict(ma))
                refs.append(ref)
                check_state(c, ref, ma["kind"], "add", rowof=w.rowof)
                if rng is not None and rng.random() < 0.5:
                    # associativity with a third compatible register
                    cand = [j for j, m in enumerate(w.meta[:-1]) if m == ma]
                    k = rng.choice(cand)
                    x, y = (a + b) + w.regs[k], a + (b + w.regs[k])
                    ox = (x.num_events(), np.asarray(x.num_output_per_event()).tolist(), [[id(p) for p in ev] for ev in x.particle_objects_list()])
                    oy = (y.num_events(), np.asarray(y.num_output_per_event()).tolist(), [[id(p) for p in ev] for ev in y.particle_objects_list()])
                    if ox != oy:
                        raise Fail("add-not-associative",
                                   f"[{CLSNAME[ma['kind']]}] (a+b)+c and a+(b+c) differ: {short(ox[:2])} vs {short(oy[:2])}")
        except Fail as f:
            used = {step.get("reg"), step.get("a"), step.get("b")} & erred
            key = f.key
            if used and not key.startswith("error-path:"):
                key = "instance-reuse-after-error:" + key
            fails.append((key, f.what, i))
            return fails
        if op == "add" and ({step["a"], step["b"]} & erred):
            erred.add(len(w.regs) - 1)
        ch = env.changed()
        if ch:
            fails.append(("env:global-state-changed:" + "+".join(ch), f"{step_text(step)} left {ch} different from what it found "
                          "(cwd / np.geterr() / numpy print options / `random` / `np.random` global state)", i))
            return fails
        # every OTHER storer of the program (in particular the operands of earlier additions and the sums built from
        # a storer that is filtered now) must still be what the plain-list reference says: no step may reach into
        # another storer through a shared list / array
        target = step["reg"] if op == "filter" else len(w.regs) - 1
        bad_leaf = {j for _, _, j in fails}
        nreg = -1
        creators = []
        for j, st in enumerate(prog["steps"][:i + 1]):
            if st["op"] != "filter":
                creators.append(j)
        for r, (s_r, ref_r) in enumerate(zip(w.regs, refs)):
            if r == target or creators[r] in bad_leaf or w.regs[target] is s_r:
                continue
            try:
                check_state(s_r, ref_r, w.meta[r]["kind"], "later", rowof=w.rowof)
            except Fail as f:
                fails.append(("add-operand-modified-later",
                              f"step {i} ({step_text(step)}) changed another storer r{r} ({step_text(prog['steps'][creators[r]])}): {f.what}", i))
                return fails
    return fails


def valid_args(name, args):
    """does the argument pass the filter's own validation (so that raising is not the documented rejection)?"""
    try:
        pmodel.ref_filter(name, args, [[]])
    except Exception:
        return False
    if name in ("pT_cut", "mT_cut", "multiplicity_cut"):
        t = args[0]
        return isinstance(t, tuple) and len(t) == 2 and not (t[0] is None and t[1] is None) and all(v is None or v >= 0 for v in t)
    if name == "spacetime_cut":
        t = args[1]
        return args[0] in "txyz" and isinstance(t, tuple) and len(t) == 2 and not (t[0] is None and t[1] is None)
    if name == "lower_event_energy_cut":
        return args[0] > 0
    return True


def timelike_row(rng, kind, ext):
    r = gen_oscar_row(rng, ext) if kind == "o" else None
    if r is not None:
        r[0], r[3] = 5.0, rng.choice([-2.0, 0.0, 1.0, 3.0])
    return r


def error_path_programs(rng, n):
    """long-lived objects with failing calls in between: per class a 3-event source whose space-like particle (for which
    `spacetime_rapidity_cut` raises its documented ValueError) sits in the first / middle / last event, so that the
    failing call has or has not done part of its work; valid calls, invalid arguments, warnings as errors, incompatible
    `+`, all on the same objects, all call forms"""
    progs = []
    for i in range(n):
        kind = ("p", "o", "j")[i % 3]
        pos = (i // 3) % 3
        ext = rng.random() < 0.5
        if kind == "p":
            evs = [[dict(pmodel.gen_spec(rng, 0.0), t=5.0, z=rng.choice([-2.0, 0.0, 1.0]), pdg=rng.choice([211, -211, 2212, 22, 111]))
                    for _ in range(rng.randint(1, 4))] for _ in range(3)]
            rng.choice(evs[pos]).update(t=0.5, z=2.0)
            src = {"kind": "p", "events": evs}
        elif kind == "o":
            src = gen_file(rng, "o", ext)
            rows = [[timelike_row(rng, "o", ext) for _ in range(rng.randint(1, 4))] for _ in range(3)]
            bad = rng.choice(rows[pos])
            bad[0], bad[3] = 0.5, 2.0
            src["events"] = renumber(src, rows)
        else:
            src = gen_file_with(rng, "j", False)
        other_kind = rng.choice([k for k in ("p", "o", "j") if k != kind])
        other = {"kind": "p", "events": [[pmodel.gen_spec(rng, 0.0)]]} if other_kind == "p" else gen_file(rng, other_kind)
        sources = {"s0": src, "s1": other}
        steps = [{"op": "leaf", "src": "s0", "kwargs": {}, "form": rng.choice(["pos", "kw"]), "explicit_default": rng.random() < 0.5},
                 {"op": "leaf", "src": "s0", "kwargs": {}, "form": "pos"},
                 {"op": "leaf", "src": "s1", "kwargs": {}, "form": rng.choice(["pos", "kw"])}]
        kinds = [kind, kind, other_kind]
        if kind == "o":
            sources["s2"] = dict(gen_file(rng, "o", not ext))
            steps.append({"op": "leaf", "src": "s2", "kwargs": {}, "form": "pos"})
            kinds.append("o")
        if kind == "j":
            sources["s2"] = gen_file_with(rng, "j", True)
            steps.append({"op": "leaf", "src": "s2", "kwargs": {}, "form": "pos"})
            kinds.append("j")
        gentle = [x for x in ["charged_particles", "pT_cut", "remove_particle_species", "uncharged_particles", "multiplicity_cut", "spacetime_cut",
                              "pseudorapidity_cut", "keep_hadrons"] if x not in NOT_IMPLEMENTED[kind]]
        for k in range(rng.randint(4, 8)):
            reg = rng.choice([0, 0, 0, 1])
            if k % 2 == 0:
                st = gen_bad_step(rng, reg, kind, len(kinds), kinds)
                if kind == "o" and rng.random() < 0.15:
                    st = {"op": "filter", "reg": reg, "name": "__add__", "b": 3, "args": [], "bad": "warn-as-error", "form": "op"}
                if kind == "j" and rng.random() < 0.15:
                    st = {"op": "filter", "reg": reg, "name": "__add__", "b": 3, "args": [], "bad": "incompatible-operand", "form": "dunder"}
                steps.append(st)
            else:
                name, args = pmodel.gen_call(rng, gentle)
                steps.append({"op": "filter", "reg": reg, "name": name, "args": args_to_json(args), "form": gen_form(rng, name)})
        steps.append({"op": "add", "a": 0, "b": 1, "form": rng.choice(["op", "dunder"])})
        name, args = pmodel.gen_call(rng, gentle)
        steps.append({"op": "filter", "reg": len(kinds), "name": name, "args": args_to_json(args), "form": gen_form(rng, name)})
        progs.append({"sources": sources, "steps": steps})
    return progs


def with_devices(rng, prog):
    """round-4 devices on a generated program: objects under test / input objects replaced by copies before use,
    list subclasses / tuple events for the nested list, sometimes the unusual process environment"""
    for st in prog["steps"]:
        if st["op"] == "leaf":
            if rng.random() < 0.2:
                st["copy"] = rng.choice(COPY_MODES)
            if prog["sources"][st["src"]]["kind"] == "p" and rng.random() < 0.3:
                st["input"] = rng.choice(["deepcopy", "pickle", "listsubclass", "tuple-events"])
        elif st["op"] == "add" and rng.random() < 0.15:
            st["copy"] = rng.choice(COPY_MODES)
    if "env" not in prog and rng.random() < 0.2:
        prog["env"] = True
    return prog


def with_forms(rng, prog):
    """give every call of a program that has none yet one of the equivalent call forms"""
    for st in prog["steps"]:
        if "form" in st:
            continue
        if st["op"] == "leaf":
            st["form"] = rng.choice(["pos", "kw"])
            st["explicit_default"] = rng.random() < 0.3
        elif st["op"] == "filter":
            st["form"] = gen_form(rng, st["name"])
        else:
            st["form"] = rng.choice(["op", "op", "dunder"])
    return prog


def layout_programs(rng, n):
    """sums of Oscar objects read from files of different column layouts that report the same format
    (Oscar2013Extended with and without the trailing baryon_number / strangeness columns), in both orders, with partial
    loads and an operand emptied by constructor filters; particle_list() rows are judged against the files' own lines"""
    progs = []
    for i in range(n):
        new, old = gen_file(rng, "o", True), gen_file(rng, "o", True)
        for d, lay in ((new, True), (old, "old")):
            d["ext"] = lay
            d["events"] = renumber(d, [[gen_oscar_row(rng, lay) for _ in range(m)] for m in gen_sizes(rng, 3)])
        kws = [{}, {}]
        for k in (0, 1):
            r = rng.random()
            nev = len((new, old)[k]["events"])
            if r < 0.2:
                kws[k] = {"events": arg_to_json(rng.randrange(nev))}
            elif r < 0.35:
                kws[k] = kwargs_to_json({"filters": {"multiplicity_cut": (50, None)}})     # holds no event afterwards
        a, b = (0, 1) if i % 2 == 0 else (1, 0)
        steps = [{"op": "leaf", "src": "s0", "kwargs": kws[0]}, {"op": "leaf", "src": "s1", "kwargs": kws[1]},
                 {"op": "add", "a": a, "b": b}, {"op": "add", "a": b, "b": a}]
        name, args = pmodel.gen_call(rng, ["charged_particles", "pT_cut", "multiplicity_cut", "uncharged_particles"])
        steps.append({"op": "filter", "reg": 2, "name": name, "args": args_to_json(args)})
        steps.append({"op": "add", "a": 2, "b": 3})
        progs.append(with_forms(rng, {"sources": {"s0": new, "s1": old}, "steps": steps}))
    return progs


def iterator_checks(ctx, rng):
    """ParticleObjectStorer documents "a list of lists"; its loader documents TypeError for anything that is not a list.
    Tuples, numpy object arrays and one-shot iterators (iter(list), generator, map) must therefore be rejected — or, if a
    version accepts one of them, give exactly the storer the list gives."""
    from sparkx.ParticleObjectStorer import ParticleObjectStorer

    def nested():
        return [[pmodel.make_particle(pmodel.gen_spec(rng, 0.1)) for _ in range(m)] for m in (2, 0, 3)]
    forms = {"tuple": tuple, "ndarray": lambda l: np.array([np.array(ev, dtype=object) for ev in l] + [None], dtype=object)[:-1],
             "iter": iter, "generator": lambda l: (ev for ev in l), "map": lambda l: map(list, l)}
    for name, f in forms.items():
        base = nested()
        want = ParticleObjectStorer([list(ev) for ev in base])
        try:
            got = ParticleObjectStorer(f([list(ev) for ev in base]))
        except TypeError:
            ctx.count(f"device/iterator-input/{name}/rejected-TypeError")
            continue
        except Exception as e:
            ctx.violation("pobj-ctor-nonlist-input", f"ParticleObjectStorer({name} of events) raised {type(e).__name__} instead of the "
                          f"documented TypeError: {e}", dict(input=dict(form=name), how_to_replay="see harness/props/C04.py iterator_checks"))
            continue
        ctx.count(f"device/iterator-input/{name}/accepted")
        same = (got.num_events() == want.num_events()
                and np.array_equal(np.asarray(got.num_output_per_event()), np.asarray(want.num_output_per_event()))
                and [[id(p) for p in ev] for ev in got.particle_objects_list()] == [[id(p) for p in ev] for ev in want.particle_objects_list()])
        if not same:
            ctx.violation("pobj-ctor-nonlist-input", f"ParticleObjectStorer({name} of events) is accepted but differs from the storer "
                          f"built from the list: num_events {got.num_events()} vs {want.num_events()}, counts "
                          f"{np.asarray(got.num_output_per_event()).tolist()} vs {np.asarray(want.num_output_per_event()).tolist()}",
                          dict(input=dict(form=name), how_to_replay="see harness/props/C04.py iterator_checks"))


def base_key(key):
    return key[len("instance-reuse-after-error:"):] if key.startswith("instance-reuse-after-error:") else key


def search(ctx, budget_s):
    rng = ctx.rng
    t0 = time.time()
    n = 0
    limit = 9000 if ctx.thorough else 900
    seen = set()
    todo = [prog for _, prog, _ in corpus_programs()] + \
        [with_devices(rng, with_forms(rng, p_)) for p_ in systematic_programs(rng, None if ctx.thorough else 30) +
         ctor_filter_programs(rng, 2400 if ctx.thorough else 240)] + \
        [with_devices(rng, p_) for p_ in error_path_programs(rng, 1500 if ctx.thorough else 150) +
         layout_programs(rng, 600 if ctx.thorough else 60)]
    stats = {}
    iterator_checks(ctx, rng)
    while (time.time() - t0 < budget_s and n < limit) or todo:
        prog = todo.pop() if todo else gen_program(rng)
        n += 1
        fails = oracle_program(prog, rng, stats)
        ctx.case(("oracle", json.dumps(prog, sort_keys=True)), True)
        for key, what, at in fails:
            if key in seen:
                continue
            seen.add(key)
            prog2 = {"sources": prog["sources"], "steps": prog["steps"][:at + 1]}
            small = shrink(prog2, lambda p, key=key: any(base_key(k) == base_key(key) for k, _, _ in oracle_program(p)))
            key, what2 = next(((k, w_) for k, w_, _ in oracle_program(small) if base_key(k) == base_key(key)), (key, what))
            ctx.violation(key, what2, dict(input=dict(program=small, text=[step_text(s) for s in small["steps"]]),
                                           how_to_replay="./check C04 --replay <this file>"))
    ctx.cov["oracle_cases"] = n
    ctx.count("oracle", n)
    for k, v in stats.items():
        ctx.count(k, v)
    ctx.cov["error_path"] = {k[len("error-path/"):]: v for k, v in sorted(stats.items()) if k.startswith("error-path/")}
    ctx.cov["filters_on_unset_pdg"] = {k[len("pdg-unset/"):]: v for k, v in sorted(stats.items()) if k.startswith("pdg-unset/")}
    ctx.cov["round4_devices"] = {k[len("device/"):]: v for k, v in sorted(stats.items()) if k.startswith("device/")}
    ctx.cov["text_variants_read_like_plain_file"] = dict(_TEXT_OK)
    ctx.cov["call_forms"] = {k[len("call-form/"):]: v for k, v in stats.items() if k.startswith("call-form/")}
    ctx.cov["ctor_filters_order"] = dict(multi_entry_dicts=stats.get("ctor-filters/multi-entry-dicts", 0),
                                         order_sensitive=stats.get("ctor-filters/order-sensitive", 0),
                                         note="constructor filters= dictionaries with >= 2 entries checked against the filter functions "
                                              "applied in dictionary order; order_sensitive = some permutation of the dictionary gives "
                                              "other contents on the loaded events")


# ----------------------------------------------------------------------------- shrinking
def prune_sources(prog):
    used = {s["src"] for s in prog["steps"] if s["op"] == "leaf"}
    return {"sources": {k: v for k, v in prog["sources"].items() if k in used}, "steps": prog["steps"]}


def shrink(prog, fails, max_checks=120):
    """delta-debugging on steps, then on events / particles of the sources"""
    cur = copy.deepcopy(prog)
    checks = [0]

    def ok(p):
        if checks[0] >= max_checks:
            return False
        checks[0] += 1
        try:
            return fails(p)
        except Exception:
            return False
    if not ok(cur):
        return prune_sources(cur)
    changed = True
    while changed and checks[0] < max_checks:
        changed = False
        for i in reversed(range(len(cur["steps"]))):
            steps = drop_step(cur["steps"], i)
            if steps is None or not steps or len(steps) >= len(cur["steps"]):
                continue
            cand = {"sources": cur["sources"], "steps": steps}
            if ok(cand):
                cur, changed = cand, True
                break
    cur = prune_sources(cur)
    # constructor dictionaries: drop entries
    changed = True
    while changed and checks[0] < max_checks:
        changed = False
        for si, st in enumerate(cur["steps"]):
            f = st.get("kwargs", {}).get("filters") if st["op"] == "leaf" else None
            if f and len(f) > 1:
                for key in list(f):
                    cand = copy.deepcopy(cur)
                    del cand["steps"][si]["kwargs"]["filters"][key]
                    if ok(cand):
                        cur, changed = cand, True
                        break
            if changed:
                break
    # sources: drop trailing events (selectors stay valid), then particles
    changed = True
    while changed and checks[0] < max_checks:
        changed = False
        for name in sorted(cur["sources"]):
            evs = cur["sources"][name]["events"]
            need = 1
            for s in cur["steps"]:
                if s["op"] == "leaf" and s["src"] == name and "events" in s.get("kwargs", {}):
                    e = arg_from_json(s["kwargs"]["events"])
                    need = max(need, (e[1] if isinstance(e, tuple) else e) + 1)
            if len(evs) > need:
                cand = copy.deepcopy(cur)
                cand["sources"][name]["events"] = renumber(cand["sources"][name], evs[:-1])
                if ok(cand):
                    cur, changed = cand, True
                    break
            for i in range(len(evs)):
                if changed:
                    break
                for j in range(len(evs[i])):
                    cand = copy.deepcopy(cur)
                    e2 = copy.deepcopy(evs)
                    del e2[i][j]
                    cand["sources"][name]["events"] = renumber(cand["sources"][name], e2)
                    if ok(cand):
                        cur, changed = cand, True
                        break
            if changed:
                break
    return cur


def renumber(desc, evs):
    if desc["kind"] == "p":
        return evs
    idcol = 10 if desc["kind"] == "o" else 0
    n = 0
    for ev in evs:
        for r in ev:
            r[idcol] = n
            n += 1
    return evs


# ----------------------------------------------------------------------------- replay
def replay(ctx, path):
    d = json.loads(open(path).read())
    inp = d.get("input") or (d.get("broken") or [{}])[0].get("case")
    if not inp or "program" not in inp:
        print(f"[C04] replay file names a broken obligation, not an input: {d.get('broken')}")
        return 1
    prog = inp["program"]
    print("[C04] program:", "; ".join(step_text(s) for s in prog["steps"]))
    fails = oracle_program(prog)
    rc = 0
    if fails:
        print(f"VIOLATION property=C04 replay={path}")
        for r in fails:
            print(f"{r[0]}: {r[1]} (step {r[2]})")
        rc = 1
    else:
        print("[C04] replay: property holds on this input now")
    w, instrs, obs = run_program(prog)
    if instrs:
        out = common.run_driver("C04", [driver_line(instrs)])[0]
        obs = obs[:len(instrs)]
        diff = compare(w, prog, instrs, obs, " # ".join(out.split(" # ")[:len(obs)]))
        print("[C04] model vs code:", diff or "agree on every observation")
        if diff:
            rc = 1
    return rc
