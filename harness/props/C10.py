"""C10 — Histogram stays well-formed over any history; averaging and output are exact.

Tie T: `write_to_file`'s column tables / selection / label lookup regenerated into Gen/HistWrite.lean.
Tie C: random *sessions* on ONE long-lived object — all 14 mutating calls interleaved with outputs (write_to_file
with every column set, the accessors bin_centers / bin_width / bin_bounds_left / bin_bounds_right / bin_boundaries /
histogram / histogram_raw_counts / standard_error / number_of_histograms) — on the real class and on the Lean model
(`Core/HistSession.lean`, `trace`).  The real object is touched by NOTHING but the calls of the session (state is
looked at through plain attribute reads, or not at all until the end), so that a derived quantity the class keeps
from an earlier output (memoised centres, widths, errors, averages …) is still there when the next output is made;
every output and the state are compared with the model, which has no hidden state
(`C10.outputs_depend_on_operations_only`).
Search: shape invariant, "admissible calls do not raise", averaging, and every output (CSV cells, accessor values)
checked on the real class against independent references: edges / number of histograms kept by the harness's own
bookkeeping, array contents read from the attributes right before the call, exact-rational averages; and
differentially against the same call on an object with the same history of mutating calls that was never asked for
any output before.
"""
import copy
import json
import math
import time
import warnings
from fractions import Fraction

import numpy as np

import common
from props import C09 as H
from props.C09 import ALL_COLS, jsonable, enc_op, enc_case, make_hist, apply_op, feq

warnings.filterwarnings("ignore")

ARRAYS = ("histograms_", "histograms_raw_count_", "error_", "scaling_", "systematic_error_")
SHAPE_OPS = {"ah", "ab", "rb", "av", "aw", "ae"}
# read-only accessors: op ("g", code)
GETTERS = dict(c="bin_centers", w="bin_width", l="bin_bounds_left", r="bin_bounds_right", b="bin_boundaries",
               h="histogram", k="histogram_raw_counts", e="standard_error", n="number_of_histograms")
OUTPUT_OPS = ("wr", "g")
MODES = ("dense", "attrs", "attrs", "silent", "silent")


# ------------------------------------------------------------------ translator (tie T)
def translate(ctx):
    return H.translate(ctx)


# ------------------------------------------------------------------ generators
SHARED_TEXTS = ["pT [GeV]", "error", "x", "", " ", "pT, [GeV]", 'the "x" axis', "two\nlines", "dN/d\u03b7", "a;b|c~d^e=f",
                ",", '"', "'", "cr\r\nlf", " padded ", "=1+1", "0.5", "bin_low"]


def label_dict(rng, k, style=None):
    """one label dictionary (column name -> header text).  The documentation puts no restriction on the texts, so:
    distinct texts; the SAME text on several columns (bin_low/bin_high both 'pT [GeV]', stat and sys error both
    'error', all columns alike); empty strings; texts holding the delimiter, quotes, line breaks, blanks, non-ASCII
    characters, or the name of another column.  (Not generated: a text starting with '#', which a reader of the file
    takes for a comment line.)"""
    style = style or rng.choice(["distinct", "distinct", "distinct", "shared", "shared", "pairs", "alike", "empty", "special"])
    d = {c: f"h{k}:{c}" for c in ALL_COLS}
    if style == "shared":
        for _ in range(rng.randint(1, 2)):
            txt = rng.choice(SHARED_TEXTS)
            for c in rng.sample(ALL_COLS, rng.randint(2, 5)):
                d[c] = txt
    elif style == "pairs":      # what a user writes: one text per kind of quantity
        d.update({"bin_low": "pT [GeV]", "bin_high": "pT [GeV]", "bin_center": rng.choice(["pT [GeV]", "pT"]),
                  "stat_err+": "error", "stat_err-": "error", "sys_err+": rng.choice(["error", "sys"]),
                  "sys_err-": rng.choice(["error", "sys"])})
    elif style == "alike":
        txt = rng.choice(SHARED_TEXTS)
        d = {c: txt for c in ALL_COLS}
    elif style == "empty":
        for c in rng.sample(ALL_COLS, rng.randint(1, 8)):
            d[c] = ""
    elif style == "special":
        for c in rng.sample(ALL_COLS, rng.randint(1, 8)):
            d[c] = rng.choice(SHARED_TEXTS) + rng.choice(["", "", f" {c}", str(k)])
    return d


def label_dicts(rng, n):
    """n dictionaries; the unusual texts in all of them, or only in a later one"""
    q = rng.random()
    if q < 0.45:
        return [label_dict(rng, k, "distinct") for k in range(n)]
    if q < 0.7 or n < 2:
        return [label_dict(rng, k) for k in range(n)]
    late = rng.randrange(1, n)
    return [label_dict(rng, k, "distinct" if k != late else rng.choice(["shared", "pairs", "alike", "empty", "special"]))
            for k in range(n)]


def mk_labels(rng, nh, cols_needed, mode=None):
    """-> (labels, admissible)"""
    mode = mode or rng.choice(["one", "per", "per", "more", "few", "missing", "empty", "one"])
    if mode == "one":
        return label_dicts(rng, 1), True
    if mode == "per":
        return label_dicts(rng, nh), True
    if mode == "more":
        return label_dicts(rng, nh + rng.randint(1, 2)), True
    if mode == "few":
        n = max(nh - 1, 0)
        return label_dicts(rng, n), (n == 1)       # exactly one dictionary is fine, 0 or 1<n<nh is not
    if mode == "missing":
        ls = label_dicts(rng, nh)
        victim = rng.randrange(nh)
        col = rng.choice(cols_needed) if cols_needed else "bin_low"
        del ls[victim][col]
        return ls, not cols_needed
    return [], False


def gen_write(rng, nh):
    r = rng.random()
    adm = True
    if r < 0.3:
        cols = None
    elif r < 0.75:
        cols = rng.sample(ALL_COLS, rng.randint(1, 8))
    elif r < 0.82:
        cols = [rng.choice(ALL_COLS) for _ in range(rng.randint(1, 5))]     # repetitions
    elif r < 0.88:
        cols = ALL_COLS[:rng.randint(1, 7)]                                  # prefix
    elif r < 0.92:
        cols = [rng.choice(ALL_COLS)]          # (an empty list writes only empty lines: not distinguishable in a CSV)
    else:
        cols = rng.sample(ALL_COLS, rng.randint(0, 3)) + ["foo"]
        rng.shuffle(cols)
        adm = False
    labels, ok = mk_labels(rng, nh, list(ALL_COLS if cols is None else [c for c in cols if c in ALL_COLS]),
                           mode=None if rng.random() < 0.7 else rng.choice(["one", "per"]))
    if cols is not None and "foo" in cols and rng.random() < 0.5:
        for dct in labels:
            dct["foo"] = "FOO"
    comment = "" if rng.random() < 0.7 else rng.choice(COMMENTS)
    return ("wr", cols, labels, comment), adm and ok


# free text of the file: the documentation allows multi-line comments whose lines start with '#'.  Non-ASCII characters,
# trailing blanks, CRLF between the lines (none of them holds a double quote, which a csv reader would re-interpret)
COMMENTS = ["# a comment line", "# gr\u00f6\u00dfe d\u03b7/dy \u2264 1", "# trailing blanks   ", "# two\n# lines", "# cr\r\n# lf", "#", "# a, b; c\td"]


def comment_lines(comment):
    return tuple(comment.splitlines()) if comment != "" else ()


class Ref:
    """what the harness knows about the object independently of the code: edges, number of histograms, and
    (three-valued) whether every error of histogram h is non-zero"""

    def __init__(self, edges):
        self.edges = list(edges)
        self.nh = 1
        self.errnz = [False if len(edges) > 1 else None]
        self.unknown = False

    @property
    def nb(self):
        return len(self.edges) - 1


def fill_admissible(op):
    vals = [op[1]] if op[0] == "f" else list(op[1])
    w = op[2]
    adm = not any(v != v for v in vals)
    if op[0] == "f":
        return adm and not (w is not None and w != w)
    if w is not None:
        return adm and w[0] == "l" and len(w[1]) == len(vals) and not any(x != x for x in w[1])
    return adm


def write_admissible(op, nh):
    cols, labels = op[1], op[2]
    need = ALL_COLS if cols is None else cols
    if not all(c in ALL_COLS for c in need) or len(labels) < 1 or not (len(labels) == 1 or len(labels) >= nh):
        return False
    return all(all(c in labels[0 if len(labels) == 1 else j] for c in need) for j in range(nh))


def bookkeep(ref, op):
    """-> True (must succeed) | False (must be rejected, nothing changes) | None (no requirement); updates ref"""
    k = op[0]
    nb, nh = ref.nb, ref.nh
    if k in ("f", "fl"):
        return fill_admissible(op)
    if k == "sc":
        adm = op[1] >= 0
        if adm and op[1] == 0 and nb > 0:
            ref.errnz[-1] = False
        return adm
    if k == "sl":
        adm = len(op[1]) == nb and all(c >= 0 for c in op[1])
        if adm and any(c == 0 for c in op[1]):
            ref.errnz[-1] = False
        return adm
    if k == "ah":
        ref.nh += 1
        ref.errnz.append(False if nb > 0 else None)
        return True
    if k == "se":
        ref.errnz = [None] * nh
        return True
    if k == "md":
        ref.errnz = [None] * nh
        return None
    if k == "er":
        adm = len(op[1]) == nb
        if adm:
            ref.errnz[-1] = all(e != 0 for e in op[1]) if nb > 0 else None
        return adm
    if k == "sy":
        return len(op[1]) == nb
    if k == "ab":
        i, e = op[1], op[2]
        adm = 0 <= i <= nb and (i == 0 or ref.edges[i - 1] < e) and e < ref.edges[i]
        if adm:
            ref.edges.insert(i, e)
            ref.errnz = [False] * nh
        return adm
    if k == "rb":
        i = op[1]
        adm = 0 <= i < nb
        if adm:
            del ref.edges[i]
            ref.errnz = [x if (x is True and ref.nb > 0) else None for x in ref.errnz]
        return adm
    if k == "av":
        ref.nh = 1
        ref.errnz = [None]
        return True
    if k == "aw":
        adm = len(op[1]) == nh and sum(op[1]) != 0
        if adm:
            ref.nh = 1
            ref.errnz = [None]
        return adm
    if k == "ae":
        if all(x is True for x in ref.errnz):
            ref.nh = 1
            ref.errnz = [None]
            return True
        if any(x is False for x in ref.errnz):
            return False
        ref.unknown = True
        return None
    if k == "wr":
        return write_admissible(op, nh)
    if k == "g":
        return True
    if k == "cp":       # the session goes on with a copy of the object: nothing changes
        return True
    if k == "x":        # an error-path call: has to be rejected; an element-wise path may have rewritten part of the errors
        if op[1] == "set_error":
            ref.errnz[-1] = None
        return False
    raise AssertionError(op)


def gen_valid_add_bin(rng, ref):
    """add_bin with arguments that pass the validation; the new edge is not always the midpoint (re-inserting the
    midpoint of a uniform binning would restore the edge that was just removed)"""
    i = rng.randint(0, ref.nb)
    hi = ref.edges[i]
    if i > 0:
        lo = ref.edges[i - 1]
        e = lo + (hi - lo) * rng.choice([0.5, 0.25, 0.75, 0.125, 0.375])
    else:
        e = hi - rng.choice([0.5, 1.0, 0.25])
    return ("ab", i, float(e))


def gen_output(rng, ref, wr_only=False):
    """an output call with admissible arguments"""
    if wr_only or rng.random() < 0.45:
        q = rng.random()
        cols = None if q < 0.4 else (rng.sample(ALL_COLS, rng.randint(1, 8)) if q < 0.9 else
                                     [rng.choice(ALL_COLS) for _ in range(rng.randint(1, 4))])
        n = 1 if rng.random() < 0.5 else ref.nh + (rng.randint(0, 1) if rng.random() < 0.2 else 0)
        return ("wr", cols, label_dicts(rng, n), "")
    return ("g", rng.choice("cccwwlrbhken"))


def gen_op(rng, ref, errors="front"):
    nb, nh = ref.nb, ref.nh
    if errors and nb >= 1 and rng.random() < 0.08:
        return H.gen_error_call(rng, ref.edges, nh=nh, front_only=(errors == "front"))
    if rng.random() < 0.05:
        return ("cp", rng.choice(["copy", "deepcopy", "pickle"]))
    if rng.random() < 0.12:
        return ("g", rng.choice("cwlrbhken"))
    r = rng.random()
    if r < 0.16:
        return H.gen_fill(rng, ref.edges) if nb >= 1 else ("f", 0.5, None, "float")
    if r < 0.26:
        return H.gen_scale(rng, nb)
    if r < 0.36:
        return ("ah",) if nh < 4 else ("se",)
    if r < 0.41:
        return ("se",)
    if r < 0.44:
        return ("md",)
    if r < 0.54:
        n = nb if rng.random() < 0.85 else max(nb + rng.choice([1, -1]), 0)
        es = [rng.choice([1.0, 0.5, 2.0, 0.25, 3.0, 1.5]) for _ in range(n)]
        if rng.random() < 0.1 and es:
            es[rng.randrange(len(es))] = 0.0
        kind = rng.choice(["er", "er", "sy"])
        return (kind, es, rng.choice(H.hows_for(H.OPMETHOD[kind], "own_error", H.CONTAINER_HOWS[:7])))
    if r < 0.65:
        q = rng.random()
        if q < 0.8 and nb < 6:
            return gen_valid_add_bin(rng, ref)
        if q < 0.9:
            return ("ab", rng.choice([-1, nb + 1, nb + 2]), ref.edges[-1] + 1.0)
        i = rng.randint(0, nb)
        return ("ab", i, rng.choice([ref.edges[i], ref.edges[i] + 1e6, ref.edges[0] - 1.0]))
    if r < 0.75:
        if rng.random() < 0.7 and nb >= 2:
            return ("rb", rng.randrange(nb))
        return ("rb", rng.choice([nb, nb, -1, nb + 1, nb + 3]))
    if r < 0.81:
        return ("av",)
    if r < 0.88:
        q = rng.random()
        if q < 0.75:
            return ("aw", [rng.choice([1.0, 2.0, 0.5, 3.0, 0.25]) for _ in range(nh)], rng.choice(H.hows_for("average_weighted", "weights", H.CONTAINER_HOWS[:7])))
        if q < 0.9:
            return ("aw", [1.0] * max(nh + rng.choice([1, -1, 2]), 0), "list")
        return ("aw", ([1.0, -1.0] + [0.0] * (nh - 2)) if nh >= 2 else [0.0], "list")
    if r < 0.91:
        if any(x is None for x in ref.errnz) and not any(x is False for x in ref.errnz):
            return ("se",)     # outcome of average_weighted_by_error not known to the harness: skip
        return ("ae",)
    return gen_write(rng, nh)[0]


def gen_history(rng, max_ops=15, errors="front"):
    ctor = H.gen_ctor(rng, max_bins=5)
    edges = [float(x) for x in make_hist(ctor).bin_edges_]
    ref = Ref(edges)
    ops, adms = [], []
    for _ in range(rng.randint(2, max_ops)):
        op = gen_op(rng, ref, errors)
        adm = bookkeep(ref, op)
        ops.append(op)
        adms.append(adm)
        if ref.unknown:
            break
    return ctor, edges, ops, adms


def gen_session(rng, max_blocks=4, errors="front"):
    """a session on one object built from blocks  <outputs> <mutation> <outputs> <mutation> … <outputs>, where a
    mutation is one random call (any arguments), a content change, or a round trip that brings a COUNT back to what it
    was while the content differs: remove_bin+add_bin / add_bin+remove_bin (number of bins), add_histogram … average
    (number of histograms).  Later output blocks repeat earlier output calls literally."""
    ctor = H.gen_ctor(rng, max_bins=5)
    edges = [float(x) for x in make_hist(ctor).bin_edges_]
    ref = Ref(edges)
    ops, adms, outs, tags = [], [], [], set()

    def emit(op):
        adms.append(bookkeep(ref, op))
        ops.append(op)

    def fill():
        emit(H.gen_fill(rng, ref.edges) if ref.nb >= 1 else ("f", 0.5, None, "float"))

    def outputs():
        for _ in range(rng.randint(1, 3)):
            if outs and rng.random() < 0.4:
                op = rng.choice(outs)
            else:
                op = gen_output(rng, ref)
                outs.append(op)
            emit(op)

    for _ in range(rng.randint(0, 3)):
        fill()
    if rng.random() < 0.85:
        outputs()
    for _ in range(rng.randint(1, max_blocks)):
        kind = rng.choice(["rebin", "rebin", "hists", "content", "content", "random", "random", "error", "copy"])
        if kind == "rebin" and ref.nb >= 1 and ref.nb <= 6:
            if ref.nb >= 2 and rng.random() < 0.6:
                emit(("rb", rng.randrange(ref.nb)))
                if rng.random() < 0.3:
                    fill()
                emit(gen_valid_add_bin(rng, ref))
            else:
                emit(gen_valid_add_bin(rng, ref))
                if rng.random() < 0.3:
                    fill()
                emit(("rb", rng.randrange(ref.nb)))
            tags.add("rebin-same-count")
        elif kind == "hists" and ref.nh <= 3:
            emit(("ah",))
            for _ in range(rng.randint(1, 2)):
                fill()
            if rng.random() < 0.3:
                emit(H.gen_scale(rng, ref.nb))
            if rng.random() < 0.8:
                emit(("av",) if rng.random() < 0.5 else
                     ("aw", [rng.choice([1.0, 2.0, 0.5, 3.0]) for _ in range(ref.nh)], rng.choice(H.hows_for("average_weighted", "weights", H.CONTAINER_HOWS[:7]))))
                tags.add("histograms-round-trip")
        elif kind == "content":
            q = rng.random()
            if q < 0.35:
                fill()
            elif q < 0.55:
                emit(H.gen_scale(rng, ref.nb))
            elif q < 0.8:
                kind = rng.choice(["er", "sy"])
                emit((kind, [rng.choice([1.0, 0.5, 2.0, 0.25, 3.0, 1.5]) for _ in range(ref.nb)],
                      rng.choice(H.hows_for(H.OPMETHOD[kind], "own_error", H.CONTAINER_HOWS[:7]))))
            elif q < 0.93:
                emit(("se",))
            else:
                emit(("md",))
        elif kind == "copy":
            # the session goes on with a copy.copy / copy.deepcopy / pickle round trip of the object
            emit(("cp", rng.choice(["copy", "deepcopy", "pickle"])))
            if rng.random() < 0.5:
                fill()
            tags.add("copied-object")
        elif kind == "error" and errors and ref.nb >= 1:
            # calls that fail (at different depths of their work), then the session goes on with the same object
            for _ in range(rng.randint(1, 2)):
                emit(H.gen_error_call(rng, ref.edges, nh=ref.nh, front_only=(errors == "front")))
            tags.add("failed-call-then-outputs")
        else:
            emit(gen_op(rng, ref, errors))
        if ref.unknown:
            break
        outputs()
    return ctor, edges, ops, adms, tags


def gen_big_average(rng):
    """histograms whose contents are LARGE compared with their spread over the histograms, then average() /
    average_weighted() and a write: numerically fragile for any formula other than the two-pass definition
    (E[x^2]-E[x]^2 cancels).  Integer contents and weights with a power-of-two sum: every intermediate of the two-pass
    formulas is exactly representable, so correct rewrites agree to the last bit."""
    nb = rng.randint(1, 4)
    ctor = ("tuple", 0, nb, nb)
    ws = rng.choice([[1.0, 1.0], [1.0, 1.0, 1.0, 1.0], [1.0, 1.0, 2.0], [1.0, 3.0], [2.0, 2.0], [0.5, 0.5, 1.0, 2.0]])
    big = rng.choice([1.0e8, 2.0 ** 27, 3.0e7, 2.0 ** 30, 5.0e8])
    ops = []
    for j in range(len(ws)):
        if j:
            ops.append(("ah",))
        for k in range(nb):
            off = rng.choice([0.0, 0.0, 2.0, 4.0, 8.0, 6.0, 1.0])
            if rng.random() < 0.7:
                ops.append(("f", k + 0.5, big + off, "float"))
            else:
                ops.append(("fl", [k + 0.5, k + 0.5], ("l", [big, off]), "list"))
    lab = [{c: f"h0:{c}" for c in ALL_COLS}]
    if rng.random() < 0.4:
        ops.append(("wr", None, lab, ""))
    if all(w == 1.0 for w in ws) and rng.random() < 0.6:
        ops.append(("av",))
    else:
        ops.append(("aw", list(ws), rng.choice(H.hows_for("average_weighted", "weights", H.CONTAINER_HOWS[:7]))))
    ops.append(rng.choice([("wr", ["distribution", "stat_err+", "stat_err-"], lab, ""), ("wr", None, lab, ""), ("g", "e")]))
    edges = [float(x) for x in make_hist(ctor).bin_edges_]
    return ctor, edges, ops, readmit(ctor, ops)


def readmit(ctor, ops, adms=None):
    """admissibility flags of a given op list (same independent bookkeeping)"""
    ref = Ref([float(x) for x in make_hist(ctor).bin_edges_])
    out = []
    for op in ops:
        if ref.unknown:
            out.append(None)
            continue
        out.append(bookkeep(ref, op))
    return out


# ------------------------------------------------------------------ sessions on the real class / on the model
def enc_op10(op):
    return f"g,{op[1]}" if op[0] == "g" else enc_op(op)


def enc_sess(edges, ops):
    """(error-path calls ("x", …) are outside the model: it is given the other calls only)"""
    return "sess\t" + ";".join(common.f2h(e) for e in edges) + "\t" + "|".join(enc_op10(o) for o in ops if o[0] not in H.UNMODELLED)


def apply10(h, op):
    """one call of a session on a real object -> what the caller gets to see (copied at once; the accessors hand out
    views of the internal arrays); raises what the code raises"""
    if op[0] == "g":
        v = getattr(h, GETTERS[op[1]])()
        if op[1] == "n":
            return ("num", int(v))
        a = np.array(v, dtype=float)
        return ("vec", a.tolist()) if a.ndim == 1 else ("mat", H.arr(a))
    return apply_op(h, op)


def attrs(h):
    """the state, by plain attribute reads (no method of the object runs)"""
    return dict(nb=h.number_of_bins_, nh=h.number_of_histograms_, edges=[float(x) for x in h.bin_edges_],
                hist=H.arr(h.histograms_), raw=H.arr(h.histograms_raw_count_), err=H.arr(h.error_),
                scal=H.arr(h.scaling_), sys=H.arr(h.systematic_error_))


def attempt(h, op):
    """-> (tag, value)"""
    try:
        with np.errstate(all="ignore"):
            return "ok", apply10(h, op)
    except Exception as e:  # noqa: BLE001 - the kind is what is compared
        return "err:" + H.EXC_KIND.get(type(e), type(e).__name__), None


def run_session(ctor, ops, mode):
    """drive one real object through the session.  mode: 'dense' = look at it through every accessor after every call
    (refreshes whatever the class may memoise), 'attrs' = look at the attributes only, 'silent' = do not look at all.
    -> ([(tag, value, snapshot | None)], attributes at the end, accessor view at the end)"""
    h = make_hist(ctor)
    out = []
    for op in ops:
        tag, val = attempt(h, op)
        snap = H.observe(h) if mode == "dense" else attrs(h) if mode == "attrs" else None
        out.append((tag, val, snap))
    return out, attrs(h), H.observe(h)


def parse_sess(line):
    """-> [(tag, value, state)] per call, or None"""
    if not line.startswith("ok "):
        return None
    res = []
    body = line[3:]
    for o in (body.split("|") if body else []):
        if "^" not in o:
            tag, st = H.parse_obs(o)
            res.append((tag, None, st))
            continue
        out_s, st_s = o.split("^", 1)
        st = H.parse_obs(st_s)[1]
        if out_s.startswith("w~"):
            tag, val = H.parse_obs(out_s)
        elif out_s.startswith("v~"):
            tag, val = "ok", ("vec", H._pf(out_s[2:]))
        elif out_s.startswith("m~"):
            tag, val = "ok", ("mat", H._parr(out_s[2:]))
        elif out_s.startswith("n~"):
            tag, val = "ok", ("num", int(out_s[2:]))
        else:
            return None
        res.append((tag, val, st))
    return res


def cmp_state(rs, ms, exact):
    if rs["nb"] != ms["nb"] or rs["nh"] != ms["nh"]:
        return f"(nBins,nHist) {(rs['nb'], rs['nh'])} vs model {(ms['nb'], ms['nh'])}"
    views = dict(edges=ms["edges"], centers=ms["centers"], widths=ms["widths"], left=ms["edges"][:-1], right=ms["edges"][1:])
    for k, mv in views.items():
        if k in rs and not H.vec_eq(rs[k], mv, exact):
            return f"{k}: {rs[k]} vs model {mv}"
    for k in ("hist", "raw", "err", "scal", "sys"):
        if not H.rows_eq(rs[k], ms[k], exact):
            return f"{k}: shape {rs[k]['shape']} {rs[k]['data']} vs model {ms[k]}"
    return None


def cmp_value(op, rv, mv, exact):
    if op[0] == "wr":
        want_c = comment_lines(op[3]) if len(op) > 3 else ()
        if tuple(getattr(rv, "comments", want_c)) != want_c:
            return f"comment lines {list(rv.comments)} written for comment={op[3] if len(op) > 3 else ''!r}"
        return H.compare_obs(("ok", rv), ("ok", mv), exact)
    name = GETTERS[op[1]]
    if rv[0] != mv[0]:
        return f"{name}() returned a {rv[0]} {rv[1]}, model a {mv[0]} {mv[1]}"
    ok = (rv[1] == mv[1]) if rv[0] == "num" else H.vec_eq(rv[1], mv[1], exact) if rv[0] == "vec" else \
        H.rows_eq(rv[1], mv[1], exact)
    return None if ok else f"{name}() returned {rv[1] if rv[0] != 'mat' else rv[1]['data']}, model {mv[1]}"


def compare_session(ctor, ops, answer, mode):
    """-> (None | description of the first difference, index of the call, real run)"""
    H.set_precision(ctor)
    real, final, final_obs = run_session(ctor, ops, mode)
    model = parse_sess(answer)
    if model is None or len(model) != len([o for o in ops if o[0] not in H.UNMODELLED]):
        return f"driver answered {answer[:200]}", -1, real
    exact = True
    it = iter(model)
    last = H.init_obs([float(x) for x in make_hist(ctor).bin_edges_])
    for i, (op, (rt, rv, rs)) in enumerate(zip(ops, real)):
        if op[0] == "cp":
            d = f"raised {rt}" if rt != "ok" else (cmp_state(rs, last, exact) if rs is not None else None)
            if d:
                return f"after call {i} (observation mode {mode}): the {H.op_method(op)} of the object differs from the object: {d}", i, real
            continue
        if op[0] == "x":
            # a call outside the model: it has to raise and to leave the object as the model has it after the calls before
            if not rt.startswith("err") and "silent-ok" not in op[3]:
                return None, -1, real
            d = cmp_state(rs, last, exact) if rs is not None else None
            if d:
                return (f"after the failed call {i} {op[1]}{op[2]} (raised {rt}; observation mode {mode}) the object is not as "
                        f"before: {d}"), i, real
            continue
        mt, mv, ms = next(it)
        if op[0] in H.INEXACT_OPS:
            exact = False
        d = None
        if rt != mt:
            d = f"outcome {rt} vs model {mt}"
        elif op[0] in OUTPUT_OPS and rt == "ok":
            d = cmp_value(op, rv, mv, exact)
        if d is None and rs is not None:
            d = cmp_state(rs, ms, exact)
        if d:
            return f"after call {i} {op[:3]} (observation mode {mode}): {d}", i, real
        last = ms
    if ops:
        d = cmp_state(final, last, exact) or cmp_state(final_obs, last, exact)
        if d:
            return f"at the end of the session (observation mode {mode}): {d}", len(ops) - 1, real
    return None, -1, real


def output_patterns(ops, adms):
    """which of the exposing patterns a session contains"""
    kinds = [o[0] for o in ops]
    pats = set()
    outs = [i for i, k in enumerate(kinds) if k in OUTPUT_OPS and adms[i]]
    for a in outs:
        for b in outs:
            if b <= a:
                continue
            mid = [(kinds[j], adms[j]) for j in range(a + 1, b) if kinds[j] not in OUTPUT_OPS]
            if any(adm is not False for _k, adm in mid):
                pats.add("output-mutation-output")
            mk = [k for k, adm in mid if adm]
            if "rb" in mk and "ab" in mk and mk.count("rb") == mk.count("ab"):
                pats.add("output-rebin-same-count-output")
            if "ah" in mk and ({"av", "aw"} & set(mk)):
                pats.add("output-add-histogram-average-output")
    return pats


# ------------------------------------------------------------------ correspondence (tie C)
def correspond(ctx):
    rng = ctx.rng
    ctx.rule = ("random sessions on ONE object (2-25 calls): all 14 mutating methods + write_to_file (every column set: "
                "None / subsets / orders / repetitions / unknown) + the 9 read-only accessors, admissible and rejected "
                "arguments (wrong lengths, out-of-range / boundary bin indices, non-monotonic edges, zero-sum weights, "
                "one / per-histogram / too few / incomplete label dictionaries), 1-5 bin uniform and non-uniform binnings, "
                "up to 4 histograms; half of them built as <outputs> <mutation> <outputs> … with count-restoring round "
                "trips (remove_bin+add_bin, add_bin+remove_bin, add_histogram…average) and literally repeated output "
                "calls; one in twelve: contents large compared with their spread over the histograms (exactly "
                "representable), then averaged and written; the real object is touched only by the calls of the session and looked at in one of three ways "
                "(every accessor after every call / attribute reads only / not at all until the end); compared with the "
                "model at every call: outcome, file cell by cell, accessor value, shapes + values of the five arrays, "
                "edges; ERROR PATHS: calls outside the model that have to raise (bad element at position 0 of the data, "
                "wrong types, unknown keywords, unwritable paths, warnings turned into errors, …) are mixed in: the object "
                "must then be in the state the model has after the valid calls, and the session goes on; CALL FORMS: every "
                "call is written positionally in the documented order / with keywords / mixed, defaults left out or given "
                "explicitly (fixed by a hash of the call); COPIES: at random points the session goes on with the copy.copy / "
                "copy.deepcopy / pickle round trip of the object (must equal the object), list / dict / array arguments are "
                "handed in as they are or as copies; SEQUENCES: tuples / numpy object arrays / generators / iterators / map "
                "objects in place of a documented list — used as valid input where the code takes them like the list "
                "(probed once per run), otherwise they have to be refused or ignored without any change; ENVIRONMENT: "
                "write_to_file gets absolute paths, bare relative names in a fresh working directory, './name', relative "
                "paths into a sub-directory; one call in three runs under np.seterr(all='warn'), terse print options and "
                "advanced random / np.random states, which (like the working directory) must be left as found; TEXT: "
                "labels and multi-line comments with non-ASCII characters, trailing blanks, CRLF, delimiters; non-trivial = session with an output, then an accepted mutation, then another output; "
                "distinct by canonical input + observation mode")
    ctx.assumptions.append("np.delete/np.insert/np.vstack/np.average(axis=0, weights)/np.sum(axis=0) contracts; "
                           "csv.writer + repr(float) round trip (the CSV is compared after float() parsing); reading an "
                           "attribute of the object runs no code of the class; outside the statement (observed on the "
                           "clean code, not asserted): scale_histogram silently ignores a tuple / generator of factors (the "
                           "documentation names list and ndarray), a numpy object array as bin edges is accepted by the "
                           "constructor but unusable afterwards (never generated), add_bin accepts a NaN edge; a text "
                           "starting with '#' as a label and a double quote inside a comment are not generated (a csv reader "
                           "re-interprets them)")
    n = ctx.n(250, 5000)
    cases, lines = [], []
    for j in range(n):
        if j % 12 == 11:
            ctor, edges, ops, adms = gen_big_average(rng)
            tags = {"large-contents-average"}
        elif j % 2:
            ctor, edges, ops, adms, tags = gen_session(rng)
        else:
            ctor, edges, ops, adms = gen_history(rng)
            tags = set()
        mode = rng.choice(MODES)
        cases.append((ctor, edges, ops, adms, mode, tags))
        lines.append(enc_sess(edges, ops))
    outs = common.run_driver("C10", lines)
    ndiff = 0
    for (ctor, edges, ops, adms, mode, tags), out in zip(cases, outs):
        diff, at, real = compare_session(ctor, ops, out, mode)
        kinds = [o[0] for o in ops]
        pats = output_patterns(ops, adms)
        canon = (tuple(edges), tuple(enc_op10(o) for o in ops), mode)
        ctx.case(canon, "output-mutation-output" in pats,
                 sample=dict(ctor=jsonable(ctor), ops=jsonable([list(o[:3]) for o in ops]), observation=mode))
        for o, (t, _v, _s) in zip(ops, real):
            if o[0] == "x":
                ctx.count(f"error-path/{o[1]}/{t}" + ("/warnings-as-errors" if "warn" in o[3] else ""))
            else:
                ctx.count(f"op/{o[0] if o[0] != 'g' else 'g:' + GETTERS[o[1]]}/{t}")
            if o[0] != "g":
                ctx.count("call-form/" + H.call_form((H.op_method(o), jsonable(list(o)))))
        ctx.count(f"observation/{mode}")
        for p_ in pats:
            ctx.count(f"pattern/{p_}")
            ctx.count(f"pattern/{p_}/{mode}")
        for p_ in tags:
            ctx.count(f"built/{p_}")
        if any(kinds[i] in ("av", "aw", "ae") and "wr" in kinds[i + 1:] for i in range(len(kinds))):
            ctx.count("pattern/write-after-average")
        if any(kinds[i] in ("ab", "rb") and {"sc", "sl"} & set(kinds[i + 1:]) for i in range(len(kinds))):
            ctx.count("pattern/scale-after-bin-surgery")
        if diff:
            ndiff += 1
            if ndiff <= 3:
                ctx.brk("correspondence-broken", f"Histogram session: {diff}",
                        case=dict(ctor=jsonable(ctor), ops=jsonable([list(o) for o in ops]), at=at, observation=mode))
    ctx.cov["histories_differing"] = ndiff
    # exhaustive small scope for the writer: all column subsets of size <= 2 (ordered) on a fixed two-histogram state
    exhaustive_columns(ctx, sizes=(1, 2) if not ctx.thorough else (1, 2, 3))


def exhaustive_columns(ctx, sizes):
    import itertools
    ctor = ("list", [0.0, 1.0, 3.0, 3.5])
    base = [("fl", [0.5, 2.0, 2.5, 3.25], ("l", [1.0, 2.0, 0.5, 4.0]), "list"), ("se",), ("sy", [0.5, 0.25, 2.0], "list"),
            ("ah",), ("f", 3.0, 5.0, "float"), ("er", [1.5, 2.5, 3.5], "list")]
    lab2 = [{c: f"a:{c}" for c in ALL_COLS}, {c: f"b:{c}" for c in ALL_COLS}]
    cases = []
    for k in sizes:
        for cols in itertools.permutations(ALL_COLS, k):
            cases.append(list(cols))
    lines, metas = [], []
    chunk = 40
    for j in range(0, len(cases), chunk):
        ops = base + [("wr", cols, lab2 if (j + i) % 2 else lab2[:1], "") for i, cols in enumerate(cases[j:j + chunk])]
        metas.append(ops)
        lines.append(enc_case(ctor[1], ops))
    outs = common.run_driver("C10", lines)
    bad = 0
    for ops, out in zip(metas, outs):
        diff, at, real, _ = H.compare_history(ctor, ops, out)
        for o in ops[len(base):]:
            ctx.case(("cols", tuple(o[1]), len(o[2])), True)
            ctx.count("exhaustive-columns")
        if diff:
            bad += 1
            if bad <= 2:
                ctx.brk("correspondence-broken", f"write_to_file column subsets: {diff}",
                        case=dict(ctor=jsonable(ctor), ops=jsonable([list(o) for o in ops]), at=at))


# ------------------------------------------------------------------ independent oracle on the real code
def shape_problem(h):
    want = (h.number_of_histograms_, h.number_of_bins_)
    for a in ARRAYS:
        arr = getattr(h, a)
        shp = tuple(np.asarray(arr).shape) if arr is not None else None
        if shp != want:
            return a, shp, want
    if len(h.bin_edges_) != h.number_of_bins_ + 1:
        return "bin_edges_", (len(h.bin_edges_),), (h.number_of_bins_ + 1,)
    if h.number_of_histograms_ < 1:
        return "number_of_histograms_", (h.number_of_histograms_,), (1,)
    return None


OPNAME = dict(f="add_value", fl="add_value", ah="add_histogram", sc="scale_histogram", sl="scale_histogram",
              se="statistical_error", md="make_density", er="set_error", sy="set_systematic_error", ab="add_bin",
              rb="remove_bin", av="average", aw="average_weighted", ae="average_weighted_by_error", wr="write_to_file")


def same(a, b):
    """exact equality of observed values (NaN equals NaN)"""
    if isinstance(a, float) and isinstance(b, float):
        return a == b or (a != a and b != b)
    if isinstance(a, (list, tuple)) and isinstance(b, (list, tuple)):
        return len(a) == len(b) and all(same(x, y) for x, y in zip(a, b))
    if isinstance(a, dict) and isinstance(b, dict):
        return a.keys() == b.keys() and all(same(a[k], b[k]) for k in a)
    return a == b


def tables(edges, nh, snap):
    """the value of every column for every (histogram, bin): geometry from the harness's own edges, contents from
    the arrays as they are (attribute snapshot) -> {column: [histogram][bin]} or None when the arrays do not fit"""
    nb = len(edges) - 1
    try:
        geo = {"bin_center": [(edges[i] + edges[i + 1]) / 2.0 for i in range(nb)], "bin_low": list(edges[:-1]),
               "bin_high": list(edges[1:])}
        tab = {c: [list(v) for _ in range(nh)] for c, v in geo.items()}
        for c, a in (("distribution", "hist"), ("stat_err+", "err"), ("stat_err-", "err"), ("sys_err+", "sys"),
                     ("sys_err-", "sys")):
            tab[c] = [[float(snap[a]["data"][k][i]) for i in range(nb)] for k in range(nh)]
        return tab
    except Exception:  # noqa: BLE001 - ill-shaped arrays are reported by the shape check
        return None


def expected_csv(tab, nh, nb, cols, labels):
    """reference content of the file: by column *name*"""
    cols = list(ALL_COLS) if cols is None else list(cols)
    blocks = []
    for k in range(nh):
        lab = labels[0] if len(labels) == 1 else labels[k]
        blocks.append(([lab[c] for c in cols], [[float(tab[c][k][i]) for c in cols] for i in range(nb)]))
    return blocks


def accessor_reference(code, edges, nh, snap):
    nb = len(edges) - 1
    if code == "c":
        return ("vec", [(edges[i] + edges[i + 1]) / 2.0 for i in range(nb)])
    if code == "w":
        return ("vec", [edges[i + 1] - edges[i] for i in range(nb)])
    if code == "l":
        return ("vec", list(edges[:-1]))
    if code == "r":
        return ("vec", list(edges[1:]))
    if code == "b":
        return ("vec", list(edges))
    if code == "n":
        return ("num", nh)
    return ("mat", snap[dict(h="hist", k="raw", e="err")[code]])


def oracle_c10(ctor, ops, adms):
    """-> None | (key, what, detail).  Stops at the first failure of the property.

    `h` is the long-lived object of the session: it sees every call, and nothing else (its state is read from the
    attributes).  `twin` sees the mutating calls only; whenever the session makes an output the same call is made on
    a throw-away copy of `twin`, i.e. on an object with the same history of operations that has never been asked for
    anything.
    Error paths: a call that raises must leave `h` exactly as it was (all attributes), except that the element-wise
    paths (add_value with a weight list / under warnings-as-errors, set_error / set_systematic_error with a
    non-numeric element, make_density refusing in its last step) may have processed exactly the part before the
    offending element (`H.prefix_equivalent`: judged against the equivalent VALID call on a copy of the object taken
    before the call).  From the first failed call on, `clean` is an object that has seen the valid calls only: every
    later call on `h` must have the same outcome, output and state as on `clean`; at the end the valid calls are
    replayed on an object created after all the failures."""
    h = make_hist(ctor)
    H.set_precision(h)
    twin = make_hist(ctor)
    ref = Ref([float(x) for x in h.bin_edges_])
    clean, valid_calls, failures = None, [], []
    earlier = []            # references at the earlier outputs of the session (diagnosis: stale value)
    last_shape_op = "constructor"
    for n, (op, adm) in enumerate(zip(ops, adms)):
        k = op[0]
        name = GETTERS[op[1]] if k == "g" else H.op_method(op)
        where = dict(op_index=n, op=jsonable(list(op[:3])), after=last_shape_op)
        if k == "wr":
            where["file_name_given_as"] = H.path_form(jsonable([op[0], op[1], op[2], op[3] if len(op) > 3 else ""]))
        if k not in ("g", "cp"):
            where["call_form"] = H.call_form((name, jsonable([op[0], op[1], op[2], op[3] if len(op) > 3 else ""] if k == "wr" else list(op))))
        ref_ok = not ref.unknown
        if ref_ok:
            bookkeep(ref, op)
        pre = None
        if k in ("av", "aw"):
            pre = (np.array(h.histograms_, dtype=float).copy(), h.number_of_histograms_)
        snap = None
        if k in OUTPUT_OPS:
            try:
                snap = attrs(h)
            except Exception:  # noqa: BLE001
                snap = None
        # ---- the call
        if k in OUTPUT_OPS:
            other = copy.deepcopy(twin)
        else:
            other = twin
        before_obj = copy.deepcopy(h)
        before = attrs(h)
        try:
            with np.errstate(all="ignore"):
                got = apply10(h, op)
            raised = None
        except Exception as e:  # noqa: BLE001
            raised = e
        otag, oval = attempt(other, op)
        sp = shape_problem(h)
        if sp:
            return (f"shape:{sp[0]}:after-{name}" + ("-rejected-call" if raised is not None else ""),
                    f"after {name}{' (which raised ' + type(raised).__name__ + ')' if raised is not None else ''}: "
                    f"{sp[0]} has shape {sp[1]}, expected {sp[2]} = (number of histograms, number of bins)", where)
        if isinstance(raised, H.EnvironmentLeak):
            return (f"environment:{'+'.join(raised.what)}:{name}", f"{name}: {raised}", where)
        if k == "cp" and (raised is not None or not same(before, attrs(h))):
            after = attrs(h)
            diff = [k_ for k_ in before if not same(before[k_], after[k_])]
            return (f"copy:{name}:differs-from-original",
                    f"the {name} of the histogram " + (f"raised {type(raised).__name__}: {raised}" if raised is not None else
                    f"differs from the histogram in {diff}: {[after[k_] for k_ in diff]} vs {[before[k_] for k_ in diff]}"), where)
        if k == "x" and raised is None and "silent-ok" in op[3]:
            if not same(before, attrs(h)):
                return (f"undocumented-argument-kind-changed-object:{name}",
                        f"{name}{op[2]} is outside the documented argument types and was neither refused nor ignored", where)
            continue
        if raised is None and adm is False and k not in ("f", "fl", "wr"):
            return None     # a call the harness expected to be rejected went through: its bookkeeping is void
        # ---- error paths: a failed call leaves the object as it was
        if raised is not None:
            after = attrs(h)
            if not same(before, after):
                eq = H.prefix_equivalent(op, before["edges"], before["nb"], last_err=before["err"]["data"][-1],
                                         last_sys=before["sys"]["data"][-1]) if k in ("x", "fl", "md") else None
                tolerated = False
                if eq is not None:
                    etag, _ = attempt(before_obj, eq)
                    tolerated = etag == "ok" and same(attrs(before_obj), after)
                if not tolerated:
                    diff = [k_ for k_ in before if not same(before[k_], after[k_])]
                    return (f"error-path:object-changed-by-failed-call:{name}",
                            f"{name} raised {type(raised).__name__} ({str(raised)[:80]}) but the object is not as it was before "
                            f"the call: {diff} changed from {[before[k_] for k_ in diff]} to {[after[k_] for k_ in diff]}",
                            dict(where, changed=diff, exception=type(raised).__name__))
                if clean is None:
                    clean = copy.deepcopy(h)        # = the object before the call + the equivalent valid call
                else:
                    attempt(clean, eq)
                valid_calls.append(eq)
            elif clean is None:
                clean = before_obj                  # up to here `h` has seen valid calls only
            failures.append(name)
        else:
            valid_calls.append(op)
            if clean is not None:
                ctag, cval = attempt(clean, op)
                if ctag != "ok" or (k in OUTPUT_OPS and not same(got, cval)):
                    return (f"instance-reuse-after-error-output:{name}",
                            f"{name} on the object that went through the failed call(s) {failures} gave ok {got}; on an object "
                            f"that has seen the valid calls only: {ctag} {cval}", dict(where, failed_calls=failures))
        if clean is not None:
            s1, s2 = attrs(h), attrs(clean)
            if not same(s1, s2):
                diff = [k_ for k_ in s1 if not same(s1[k_], s2[k_])]
                return (f"instance-reuse-after-error:{name}",
                        f"after {name} the arrays {diff} of the object that went through the failed call(s) {failures} differ from "
                        f"those of an object that has seen the valid calls only: {[s1[k_] for k_ in diff]} vs "
                        f"{[s2[k_] for k_ in diff]}", dict(where, failed_calls=failures))
        if raised is not None and adm:
            ctxs = ""
            if k == "wr":
                ctxs = ":single-label-several-histograms" if len(op[2]) == 1 and h.number_of_histograms_ > 1 else ":labels-per-histogram"
            return (f"raises:{name}{ctxs}:{type(raised).__name__}",
                    f"{name} raised {type(raised).__name__} ({raised}) on valid arguments in a state reached by valid calls",
                    dict(where, exception=str(raised)))
        if k in SHAPE_OPS and raised is None:
            last_shape_op = name
        if ref_ok:
            got_edges = [float(x) for x in h.bin_edges_]
            if not same(got_edges, ref.edges):
                return (f"edges:after-{name}",
                        f"after {name}{op[1:3] if k in ('ab', 'rb') else ''} the bin edges are {got_edges}; the edges given at "
                        f"construction with the accepted add_bin / remove_bin calls applied are {ref.edges} "
                        f"(edge array dtype {h.bin_edges_.dtype})", dict(where, dtype=str(h.bin_edges_.dtype)))
        if k == "se" and raised is None:
            # the stat_err columns hold error_; statistical_error() defines it as the square root of the CURRENT content
            A, E = np.array(h.histograms_, dtype=float), np.array(h.error_, dtype=float)
            for (kk, j), x in np.ndenumerate(A):
                want = math.sqrt(x) if x >= 0 else float("nan")
                if not same(float(E[kk][j]), float(want)):
                    return ("statistical_error:not-sqrt-of-content",
                            f"after statistical_error() the error of histogram {kk} bin {j} is {float(E[kk][j])!r}; the content is "
                            f"{float(x)!r}, its square root {want!r}", where)
        if k in ("av", "aw") and raised is None and adm:
            X, nh0 = pre
            ws = [1.0] * nh0 if k == "av" else [float(w) for w in op[1]]
            if h.number_of_histograms_ != 1:
                return (f"average:not-one-histogram:{name}", f"{name} left {h.number_of_histograms_} histograms", where)
            sw = sum(Fraction(w) for w in ws)
            for j in range(X.shape[1]):
                if not all(math.isfinite(float(x)) for x in X[:, j]):
                    continue
                xs = [Fraction(float(x)) for x in X[:, j]]
                mean = sum(Fraction(w) * x for w, x in zip(ws, xs)) / sw
                var = sum(Fraction(w) * (x - mean) ** 2 for w, x in zip(ws, xs)) / sw
                # (rounding of sum(w x) is relative to the size of the terms, not of a sum that may cancel)
                scale = sum(abs(Fraction(w)) * abs(x) for w, x in zip(ws, xs)) / abs(sw)
                got_m = float(h.histograms_[0][j])
                if not (got_m == got_m and abs(got_m) != float("inf") and abs(Fraction(got_m) - mean) <= Fraction(H.TOL.rel) * scale):
                    return (f"average:mean:{name}", f"{name}: bin {j} is {float(h.histograms_[0][j])!r}, the weighted mean is {float(mean)!r}", where)
                std = math.sqrt(var) if var >= 0 else float("nan")
                got_e = float(h.error_[0][j])
                if not ((got_e != got_e and std != std) or abs(got_e - std) <= 1e-9 * max(1.0, std)):
                    return (f"average:error:{name}", f"{name}: error of bin {j} is {float(h.error_[0][j])!r}, the weighted "
                            f"population standard deviation is {std!r}", where)
        # ---- outputs against the independent reference
        if k in OUTPUT_OPS and raised is None and adm and snap is not None:
            nh = ref.nh if ref_ok else snap["nh"]
            tab = tables(ref.edges, nh, snap)
            if k == "wr":
                want_c = comment_lines(op[3]) if len(op) > 3 else ()
                if tuple(getattr(got, "comments", want_c)) != want_c:
                    return ("write:comment", f"write_to_file(comment={op[3] if len(op) > 3 else ''!r}) wrote the comment lines "
                            f"{list(got.comments)}", where)
            if k == "wr" and tab is not None:
                exp_csv = expected_csv(tab, nh, ref.nb, op[1], op[2])
                if len(got) != len(exp_csv):
                    return ("write:blocks", f"write_to_file wrote {len(got)} blocks for {len(exp_csv)} histograms", where)
                cols = list(ALL_COLS if op[1] is None else op[1])
                for b, ((gh, gr), (eh, er)) in enumerate(zip(got, exp_csv)):
                    if list(gh) != list(eh):
                        return ("write:labels", f"write_to_file header of histogram {b} is {gh}, requested labels are {eh}", where)
                    if len(gr) != len(er) or any(len(x) != len(y) for x, y in zip(gr, er)):
                        bad = None
                    else:
                        bad = [(i, c, x[j]) for i, (x, y) in enumerate(zip(gr, er)) for j, c in enumerate(cols)
                               if not feq(x[j], y[j], True)]
                        if not bad:
                            continue
                    lab_b = op[2][0] if len(op[2]) == 1 else op[2][b]
                    if bad and all(any(c2 != c and lab_b[c2] == lab_b[c] and same(float(tab[c2][b][i]), float(v)) for c2 in cols)
                                   for i, c, v in bad):
                        bcols = [c for c in ALL_COLS if any(c == c2 for _i, c2, _v in bad)]
                        return ("write:columns-sharing-a-label-text",
                                f"write_to_file columns {cols} with header {list(eh)}: rows {gr} but the values belonging to these "
                                f"columns are {er}; column(s) {bcols} hold the value of another column that has the same label text",
                                dict(where, columns=bcols))
                    if bad and all(any(b < len(t_[c]) and i < len(t_[c][b]) and same(float(t_[c][b][i]), float(v))
                                       for t_ in earlier if isinstance(t_, dict)) for i, c, v in bad):
                        bcols = [c for c in ALL_COLS if any(c == c2 for _i, c2, _v in bad)]
                        return ("write:stale:" + "+".join(bcols),
                                f"write_to_file columns {cols}: rows {gr} but the values belonging to these columns are now {er}; "
                                f"column(s) {bcols} still hold the values they had at an earlier output of this session",
                                dict(where, stale_columns=bcols))
                    prefix = cols == ALL_COLS[:len(cols)]
                    return ("write:values-not-by-column-name" + ("" if not prefix else ":prefix-selection"),
                            f"write_to_file columns {cols}: rows {gr} but the values belonging to these columns are {er}",
                            where)
            if k == "g":
                want = accessor_reference(op[1], ref.edges, nh, snap)
                if not same(got, want):
                    stale = any(isinstance(t_, tuple) and t_[0] == op[1] and same(t_[1], got) for t_ in earlier)
                    show = (lambda v: v[1]["data"] if v[0] == "mat" else v[1])
                    return (f"accessor:{name}" + (":stale" if stale else ""),
                            f"{name}() returned {show(got)}; from the current edges / arrays it is {show(want)}" +
                            ("; that is the value it had at an earlier output of this session" if stale else ""), where)
            if tab is not None:
                earlier.append(tab)
            for code in GETTERS:
                earlier.append((code, accessor_reference(code, ref.edges, nh, snap)))
        # ---- no output / outcome / state may depend on the outputs made before
        mytag = "ok" if raised is None else "err:" + H.EXC_KIND.get(type(raised), type(raised).__name__)
        if k in OUTPUT_OPS and (mytag != otag or (raised is None and not same(got, oval))):
            return (f"history-dependent-output:{name}",
                    f"{name} on the long-lived object gave {mytag} {got if raised is None else ''}, the same call on an object "
                    f"with the same history of operations but no earlier output gave {otag} {oval}", where)
        if k not in OUTPUT_OPS and mytag != otag:
            return (f"history-dependent-outcome:{name}",
                    f"{name} on the long-lived object: {mytag}; on an object with the same history of operations but no "
                    f"earlier output: {otag}", where)
        try:
            s1, s2 = attrs(h), attrs(twin)
        except Exception:  # noqa: BLE001
            s1 = s2 = None
        if s1 is not None and not same(s1, s2):
            diff = [k_ for k_ in s1 if not same(s1[k_], s2[k_])]
            return (f"history-dependent-state:after-{name}",
                    f"after {name} the arrays {diff} of the long-lived object differ from those of an object with the same "
                    f"history of operations but no earlier output: {[s1[k_] for k_ in diff]} vs {[s2[k_] for k_ in diff]}", where)
    if failures:
        # another object, created after all the failures, driven through the valid calls only
        late = make_hist(ctor)
        for op in valid_calls:
            attempt(late, op)
        lab = [{c: f"h{j}:{c}" for c in ALL_COLS} for j in range(max(h.number_of_histograms_, 1))]
        probe = ("wr", None, lab, "")
        if not same(attrs(h), attrs(late)) or not same(attempt(copy.deepcopy(h), probe), attempt(late, probe)):
            return ("instance-reuse-after-error-other-object",
                    f"an object created after the failed calls {failures} and driven through the valid calls of the session "
                    f"differs from the object that went through the failures: {attrs(late)} vs {attrs(h)}",
                    dict(op_index=len(ops) - 1, failed_calls=failures))
    return None


def shrink(ctor, ops, adms, key):
    cur = list(zip(ops, adms))
    changed = True
    while changed and len(cur) > 1:
        changed = False
        for i in range(len(cur)):
            cand = cur[:i] + cur[i + 1:]
            # removing a shape-changing op invalidates the admissibility flags of later ops: only drop ops whose
            # removal keeps (nb, nh) bookkeeping intact, or re-derive by replay
            try:
                r = oracle_c10(ctor, [c[0] for c in cand], readmit(ctor, [c[0] for c in cand]))
            except Exception:  # noqa: BLE001
                r = None
            if r and r[0] == key:
                cur = [(o, a) for o, a in zip([c[0] for c in cand], readmit(ctor, [c[0] for c in cand]))]
                changed = True
                break
    return [c[0] for c in cur], [c[1] for c in cur]


def search(ctx, budget_s):
    rng = ctx.rng
    t0 = time.time()
    n = 0
    found = set()
    for case in H.corpus("C10"):
        ctor, ops = H.ctor_from_json(case["ctor"]), ops_from_json(case["ops"])
        adms = readmit(ctor, ops)
        r = oracle_c10(ctor, ops, adms)
        n += 1
        if r:
            found.add(r[0])
            ctx.violation(r[0], r[1], dict(input=case, detail=jsonable(r[2]), how_to_replay="./check C10 --replay <this file>"))
    limit = 20000 if ctx.thorough else 1500
    while time.time() - t0 < budget_s and n < limit:
        if n % 8 == 5:     # contents large compared with their spread over the histograms, then averaged
            ctor, edges, ops, adms = gen_big_average(rng)
        elif n % 2:     # sessions: outputs, a mutation (count-restoring round trips among them), outputs again
            ctor, edges, ops, adms, _tags = gen_session(rng, errors="any")
        else:
            ctor, edges, ops, adms = gen_history(rng, errors="any")
        if n % 4 == 0:   # the sequences the statement names: write after averaging, scale after inserting a bin
            ops = [o for o in ops if o[0] not in ("wr",)]
            adms = readmit(ctor, ops)
            if None not in adms:
                tail = [("av",), ("wr", rng.choice([None, ["bin_low", "distribution"], ["distribution", "sys_err-", "bin_center"]]),
                                  [{c: c.upper() for c in ALL_COLS}], "")]
                ops = ops + tail
                adms = readmit(ctor, ops)
        r = oracle_c10(ctor, ops, adms)
        n += 1
        kinds = [o[0] for o in ops]
        pats = output_patterns(ops, adms)
        for p_ in pats:
            ctx.count(f"oracle-pattern/{p_}")
        ctx.case(("oracle", tuple(edges), tuple(enc_op10(o) for o in ops)), bool(SHAPE_OPS & set(kinds)))
        if r and r[0] not in found:
            found.add(r[0])
            try:
                ops2, adms2 = shrink(ctor, ops, adms, r[0])
                r2 = oracle_c10(ctor, ops2, adms2) or r
            except Exception:  # noqa: BLE001
                ops2, r2 = ops, r
            ctx.violation(r2[0], r2[1], dict(input=dict(ctor=jsonable(ctor), ops=jsonable([list(o) for o in ops2])),
                                             detail=jsonable(r2[2]), how_to_replay="./check C10 --replay <this file>"))
    ctx.cov["oracle_cases"] = n
    ctx.count("oracle", n)


def ops_from_json(ops):
    out = []
    for o in H.unjson(ops):
        o = list(o)
        if o[0] == "fl" and isinstance(o[2], list):
            o[2] = (o[2][0], o[2][1])
        out.append(tuple(o))
    return out


def replay(ctx, path):
    d = json.loads(open(path).read())
    inp = d.get("input")
    if not inp:
        print(f"[C10] replay file names a broken obligation, not an input: {d.get('broken')}")
        return 1
    ctor, ops = H.ctor_from_json(inp["ctor"]), ops_from_json(inp["ops"])
    adms = readmit(ctor, ops)
    r = oracle_c10(ctor, ops, adms)
    edges = [float(x) for x in make_hist(ctor).bin_edges_]
    try:
        translate(ctx)      # the model is the one of the tree under test
        ok, log = common.lake_build(common.obligations("C10")["driver_modules"])
        if not ok:
            raise RuntimeError("lake build of the driver failed")
        out = common.run_driver("C10", [enc_sess(edges, ops)])[0]
        diffs = [compare_session(ctor, ops, out, mode)[0] for mode in ("silent", "attrs", "dense")]
        diff = next((d for d in diffs if d), None)
        print(f"[C10] model vs code on this input: {'agree' if diff is None else diff}")
    except Exception as e:  # noqa: BLE001
        print(f"[C10] driver not available: {e}")
    if r:
        print(f"VIOLATION property=C10 replay={path}")
        print(r[1])
        return 1
    print("[C10] replay: property holds on this input now")
    return 0
