"""C10 — Histogram stays well-formed over any history; averaging and output are exact.

Tie T: `write_to_file`'s column tables / selection / label lookup regenerated into Gen/HistWrite.lean.
Tie C: random operation sequences (all 14 calls + write_to_file) on the real class and on the Lean model,
compared after every call: shapes and values of all five arrays, edges, and the parsed CSV.
Search: shape invariant, "admissible calls do not raise", averaging and CSV content checked on the real class
against independent references.
"""
import json
import math
import time
import warnings
from fractions import Fraction

import numpy as np

import common
from props import C09 as H
from props.C09 import ALL_COLS, jsonable, enc_op, enc_case, make_hist, apply_op, feq

warnings.filterwarnings("ignore")

ARRAYS = ("histograms_", "histograms_raw_count_", "error_", "scaling_", "systematic_error_")
SHAPE_OPS = {"ah", "ab", "rb", "av", "aw", "ae"}


# ------------------------------------------------------------------ translator (tie T)
def translate(ctx):
    return H.translate(ctx)


# ------------------------------------------------------------------ generators
def mk_labels(rng, nh, cols_needed, mode=None):
    """-> (labels, admissible)"""
    keys = list(ALL_COLS)
    mode = mode or rng.choice(["one", "per", "per", "more", "few", "missing", "empty", "one"])

    def d(k):
        return {c: f"h{k}:{c}" for c in keys}
    if mode == "one":
        return [d(0)], True
    if mode == "per":
        return [d(k) for k in range(nh)], True
    if mode == "more":
        return [d(k) for k in range(nh + rng.randint(1, 2))], True
    if mode == "few":
        n = max(nh - 1, 0)
        return [d(k) for k in range(n)], (n == 1)       # exactly one dictionary is fine, 0 or 1<n<nh is not
    if mode == "missing":
        ls = [d(k) for k in range(nh)]
        victim = rng.randrange(nh)
        col = rng.choice(cols_needed) if cols_needed else "bin_low"
        del ls[victim][col]
        return ls, not cols_needed
    return [], False


def gen_write(rng, nh):
    r = rng.random()
    adm = True
    if r < 0.3:
        cols = None
    elif r < 0.75:
        cols = rng.sample(ALL_COLS, rng.randint(1, 8))
    elif r < 0.82:
        cols = [rng.choice(ALL_COLS) for _ in range(rng.randint(1, 5))]     # repetitions
    elif r < 0.88:
        cols = ALL_COLS[:rng.randint(1, 7)]                                  # prefix
    elif r < 0.92:
        cols = [rng.choice(ALL_COLS)]          # (an empty list writes only empty lines: not distinguishable in a CSV)
    else:
        cols = rng.sample(ALL_COLS, rng.randint(0, 3)) + ["foo"]
        rng.shuffle(cols)
        adm = False
    labels, ok = mk_labels(rng, nh, list(ALL_COLS if cols is None else [c for c in cols if c in ALL_COLS]),
                           mode=None if rng.random() < 0.7 else rng.choice(["one", "per"]))
    if cols is not None and "foo" in cols and rng.random() < 0.5:
        for dct in labels:
            dct["foo"] = "FOO"
    comment = "" if rng.random() < 0.7 else "# a comment line"
    return ("wr", cols, labels, comment), adm and ok


class Ref:
    """what the harness knows about the object independently of the code: edges, number of histograms, and
    (three-valued) whether every error of histogram h is non-zero"""

    def __init__(self, edges):
        self.edges = list(edges)
        self.nh = 1
        self.errnz = [False if len(edges) > 1 else None]
        self.unknown = False

    @property
    def nb(self):
        return len(self.edges) - 1


def fill_admissible(op):
    vals = [op[1]] if op[0] == "f" else list(op[1])
    w = op[2]
    adm = not any(v != v for v in vals)
    if op[0] == "f":
        return adm and not (w is not None and w != w)
    if w is not None:
        return adm and w[0] == "l" and len(w[1]) == len(vals) and not any(x != x for x in w[1])
    return adm


def write_admissible(op, nh):
    cols, labels = op[1], op[2]
    need = ALL_COLS if cols is None else cols
    if not all(c in ALL_COLS for c in need) or len(labels) < 1 or not (len(labels) == 1 or len(labels) >= nh):
        return False
    return all(all(c in labels[0 if len(labels) == 1 else j] for c in need) for j in range(nh))


def bookkeep(ref, op):
    """-> True (must succeed) | False (must be rejected, nothing changes) | None (no requirement); updates ref"""
    k = op[0]
    nb, nh = ref.nb, ref.nh
    if k in ("f", "fl"):
        return fill_admissible(op)
    if k == "sc":
        adm = op[1] >= 0
        if adm and op[1] == 0 and nb > 0:
            ref.errnz[-1] = False
        return adm
    if k == "sl":
        adm = len(op[1]) == nb and all(c >= 0 for c in op[1])
        if adm and any(c == 0 for c in op[1]):
            ref.errnz[-1] = False
        return adm
    if k == "ah":
        ref.nh += 1
        ref.errnz.append(False if nb > 0 else None)
        return True
    if k == "se":
        ref.errnz = [None] * nh
        return True
    if k == "md":
        ref.errnz = [None] * nh
        return None
    if k == "er":
        adm = len(op[1]) == nb
        if adm:
            ref.errnz[-1] = all(e != 0 for e in op[1]) if nb > 0 else None
        return adm
    if k == "sy":
        return len(op[1]) == nb
    if k == "ab":
        i, e = op[1], op[2]
        adm = 0 <= i <= nb and (i == 0 or ref.edges[i - 1] < e) and e < ref.edges[i]
        if adm:
            ref.edges.insert(i, e)
            ref.errnz = [False] * nh
        return adm
    if k == "rb":
        i = op[1]
        adm = 0 <= i < nb
        if adm:
            del ref.edges[i]
            ref.errnz = [x if (x is True and ref.nb > 0) else None for x in ref.errnz]
        return adm
    if k == "av":
        ref.nh = 1
        ref.errnz = [None]
        return True
    if k == "aw":
        adm = len(op[1]) == nh and sum(op[1]) != 0
        if adm:
            ref.nh = 1
            ref.errnz = [None]
        return adm
    if k == "ae":
        if all(x is True for x in ref.errnz):
            ref.nh = 1
            ref.errnz = [None]
            return True
        if any(x is False for x in ref.errnz):
            return False
        ref.unknown = True
        return None
    if k == "wr":
        return write_admissible(op, nh)
    raise AssertionError(op)


def gen_op(rng, ref):
    nb, nh = ref.nb, ref.nh
    r = rng.random()
    if r < 0.16:
        return H.gen_fill(rng, ref.edges) if nb >= 1 else ("f", 0.5, None, "float")
    if r < 0.26:
        return H.gen_scale(rng, nb)
    if r < 0.36:
        return ("ah",) if nh < 4 else ("se",)
    if r < 0.41:
        return ("se",)
    if r < 0.44:
        return ("md",)
    if r < 0.54:
        n = nb if rng.random() < 0.85 else max(nb + rng.choice([1, -1]), 0)
        es = [rng.choice([1.0, 0.5, 2.0, 0.25, 3.0, 1.5]) for _ in range(n)]
        if rng.random() < 0.1 and es:
            es[rng.randrange(len(es))] = 0.0
        return (rng.choice(["er", "er", "sy"]), es, rng.choice(["list", "array"]))
    if r < 0.65:
        q = rng.random()
        if q < 0.8 and nb < 6:
            i = rng.randint(0, nb)
            hi = ref.edges[i]
            e = (ref.edges[i - 1] + hi) / 2 if i > 0 else hi - rng.choice([0.5, 1.0, 0.25])
            return ("ab", i, float(e))
        if q < 0.9:
            return ("ab", rng.choice([-1, nb + 1, nb + 2]), ref.edges[-1] + 1.0)
        i = rng.randint(0, nb)
        return ("ab", i, rng.choice([ref.edges[i], ref.edges[i] + 1e6, ref.edges[0] - 1.0]))
    if r < 0.75:
        if rng.random() < 0.7 and nb >= 2:
            return ("rb", rng.randrange(nb))
        return ("rb", rng.choice([nb, nb, -1, nb + 1, nb + 3]))
    if r < 0.81:
        return ("av",)
    if r < 0.88:
        q = rng.random()
        if q < 0.75:
            return ("aw", [rng.choice([1.0, 2.0, 0.5, 3.0, 0.25]) for _ in range(nh)], rng.choice(["list", "array"]))
        if q < 0.9:
            return ("aw", [1.0] * max(nh + rng.choice([1, -1, 2]), 0), "list")
        return ("aw", ([1.0, -1.0] + [0.0] * (nh - 2)) if nh >= 2 else [0.0], "list")
    if r < 0.91:
        if any(x is None for x in ref.errnz) and not any(x is False for x in ref.errnz):
            return ("se",)     # outcome of average_weighted_by_error not known to the harness: skip
        return ("ae",)
    return gen_write(rng, nh)[0]


def gen_history(rng, max_ops=15):
    ctor = H.gen_ctor(rng, max_bins=5)
    edges = [float(x) for x in make_hist(ctor).bin_edges_]
    ref = Ref(edges)
    ops, adms = [], []
    for _ in range(rng.randint(2, max_ops)):
        op = gen_op(rng, ref)
        adm = bookkeep(ref, op)
        ops.append(op)
        adms.append(adm)
        if ref.unknown:
            break
    return ctor, edges, ops, adms


def readmit(ctor, ops, adms=None):
    """admissibility flags of a given op list (same independent bookkeeping)"""
    ref = Ref([float(x) for x in make_hist(ctor).bin_edges_])
    out = []
    for op in ops:
        if ref.unknown:
            out.append(None)
            continue
        out.append(bookkeep(ref, op))
    return out


# ------------------------------------------------------------------ correspondence (tie C)
def correspond(ctx):
    rng = ctx.rng
    ctx.rule = ("random operation sequences (2-15 calls over all 14 methods + write_to_file; admissible and rejected "
                "arguments: wrong lengths, out-of-range / boundary bin indices, non-monotonic edges, zero-sum weights, "
                "unknown / repeated / non-prefix column lists, one / per-histogram / too few / incomplete label "
                "dictionaries) on 1-5 bin uniform and non-uniform binnings, up to 4 histograms; compared after every "
                "call: shapes + values of histograms_, histograms_raw_count_, error_, scaling_, systematic_error_, edges, "
                "and the parsed CSV cell by cell; non-trivial = history with a shape-changing call "
                "(add_histogram/add_bin/remove_bin/average*) followed by a later scale, set_error, fill or write; "
                "distinct by canonical input")
    ctx.assumptions.append("np.delete/np.insert/np.vstack/np.average(axis=0, weights)/np.sum(axis=0) contracts; "
                           "csv.writer + repr(float) round trip (the CSV is compared after float() parsing)")
    n = ctx.n(250, 5000)
    cases, lines = [], []
    for _ in range(n):
        ctor, edges, ops, adms = gen_history(rng)
        cases.append((ctor, edges, ops, adms))
        lines.append(enc_case(edges, ops))
    outs = common.run_driver("C10", lines)
    ndiff = 0
    for (ctor, edges, ops, adms), out in zip(cases, outs):
        diff, at, real, _spec = H.compare_history(ctor, ops, out)
        kinds = [o[0] for o in ops]
        first_shape = next((i for i, k in enumerate(kinds) if k in SHAPE_OPS), None)
        nontriv = first_shape is not None and any(k in ("sc", "sl", "er", "sy", "f", "fl", "wr", "se") for k in kinds[first_shape + 1:])
        canon = (tuple(edges), tuple(enc_op(o) for o in ops))
        ctx.case(canon, nontriv, sample=dict(ctor=jsonable(ctor), ops=jsonable([list(o[:3]) for o in ops])))
        for o, (t, _) in zip(ops, real):
            ctx.count(f"op/{o[0]}/{t}")
        if any(kinds[i] in ("av", "aw", "ae") and "wr" in kinds[i + 1:] for i in range(len(kinds))):
            ctx.count("pattern/write-after-average")
        if any(kinds[i] in ("ab", "rb") and {"sc", "sl"} & set(kinds[i + 1:]) for i in range(len(kinds))):
            ctx.count("pattern/scale-after-bin-surgery")
        if diff:
            ndiff += 1
            if ndiff <= 3:
                ctx.brk("correspondence-broken", f"Histogram history: {diff}",
                        case=dict(ctor=jsonable(ctor), ops=jsonable([list(o) for o in ops]), at=at))
    ctx.cov["histories_differing"] = ndiff
    # exhaustive small scope for the writer: all column subsets of size <= 2 (ordered) on a fixed two-histogram state
    exhaustive_columns(ctx, sizes=(1, 2) if not ctx.thorough else (1, 2, 3))


def exhaustive_columns(ctx, sizes):
    import itertools
    ctor = ("list", [0.0, 1.0, 3.0, 3.5])
    base = [("fl", [0.5, 2.0, 2.5, 3.25], ("l", [1.0, 2.0, 0.5, 4.0]), "list"), ("se",), ("sy", [0.5, 0.25, 2.0], "list"),
            ("ah",), ("f", 3.0, 5.0, "float"), ("er", [1.5, 2.5, 3.5], "list")]
    lab2 = [{c: f"a:{c}" for c in ALL_COLS}, {c: f"b:{c}" for c in ALL_COLS}]
    cases = []
    for k in sizes:
        for cols in itertools.permutations(ALL_COLS, k):
            cases.append(list(cols))
    lines, metas = [], []
    chunk = 40
    for j in range(0, len(cases), chunk):
        ops = base + [("wr", cols, lab2 if (j + i) % 2 else lab2[:1], "") for i, cols in enumerate(cases[j:j + chunk])]
        metas.append(ops)
        lines.append(enc_case(ctor[1], ops))
    outs = common.run_driver("C10", lines)
    bad = 0
    for ops, out in zip(metas, outs):
        diff, at, real, _ = H.compare_history(ctor, ops, out)
        for o in ops[len(base):]:
            ctx.case(("cols", tuple(o[1]), len(o[2])), True)
            ctx.count("exhaustive-columns")
        if diff:
            bad += 1
            if bad <= 2:
                ctx.brk("correspondence-broken", f"write_to_file column subsets: {diff}",
                        case=dict(ctor=jsonable(ctor), ops=jsonable([list(o) for o in ops]), at=at))


# ------------------------------------------------------------------ independent oracle on the real code
def shape_problem(h):
    want = (h.number_of_histograms_, h.number_of_bins_)
    for a in ARRAYS:
        arr = getattr(h, a)
        shp = tuple(np.asarray(arr).shape) if arr is not None else None
        if shp != want:
            return a, shp, want
    if len(h.bin_edges_) != h.number_of_bins_ + 1:
        return "bin_edges_", (len(h.bin_edges_),), (h.number_of_bins_ + 1,)
    if h.number_of_histograms_ < 1:
        return "number_of_histograms_", (h.number_of_histograms_,), (1,)
    return None


OPNAME = dict(f="add_value", fl="add_value", ah="add_histogram", sc="scale_histogram", sl="scale_histogram",
              se="statistical_error", md="make_density", er="set_error", sy="set_systematic_error", ab="add_bin",
              rb="remove_bin", av="average", aw="average_weighted", ae="average_weighted_by_error", wr="write_to_file")


def expected_csv(h, cols, labels):
    """reference content of the file: by column *name*, from the public getters"""
    cols = list(ALL_COLS) if cols is None else list(cols)
    blocks = []
    for k in range(h.number_of_histograms()):
        lab = labels[0] if len(labels) == 1 else labels[k]
        rows = []
        for i in range(h.number_of_bins_):
            val = {"bin_center": h.bin_centers()[i], "bin_low": h.bin_bounds_left()[i],
                   "bin_high": h.bin_bounds_right()[i], "distribution": h.histogram()[k][i],
                   "stat_err+": h.standard_error()[k][i], "stat_err-": h.standard_error()[k][i],
                   "sys_err+": h.systematic_error_[k][i], "sys_err-": h.systematic_error_[k][i]}
            rows.append([float(val[c]) for c in cols])
        blocks.append(([lab[c] for c in cols], rows))
    return blocks


def oracle_c10(ctor, ops, adms):
    """-> None | (key, what, detail).  Stops at the first failure of the property."""
    h = make_hist(ctor)
    last_shape_op = "constructor"
    for n, (op, adm) in enumerate(zip(ops, adms)):
        k = op[0]
        name = OPNAME[k]
        where = dict(op_index=n, op=jsonable(list(op[:3])), after=last_shape_op)
        pre = None
        if k in ("av", "aw"):
            pre = (np.array(h.histogram(), dtype=float).copy(), h.number_of_histograms())
        exp_csv = None
        if k == "wr" and adm:
            try:
                exp_csv = expected_csv(h, op[1], op[2])
            except Exception as e:  # noqa: BLE001
                return (f"getters-raise-before-write:{type(e).__name__}", f"getters raise {type(e).__name__}: {e}", where)
        try:
            with np.errstate(all="ignore"):
                got = apply_op(h, op)
            raised = None
        except Exception as e:  # noqa: BLE001
            raised = e
        if raised is None and adm is False and k not in ("f", "fl", "wr"):
            return None     # a call the harness expected to be rejected went through: its bookkeeping is void
        if raised is not None and adm:
            ctxs = ""
            if k == "wr":
                ctxs = ":single-label-several-histograms" if len(op[2]) == 1 and h.number_of_histograms_ > 1 else ":labels-per-histogram"
            return (f"raises:{name}{ctxs}:{type(raised).__name__}",
                    f"{name} raised {type(raised).__name__} ({raised}) on valid arguments in a state reached by valid calls",
                    dict(where, exception=str(raised)))
        sp = shape_problem(h)
        if sp:
            return (f"shape:{sp[0]}:after-{name}" + ("-rejected-call" if raised is not None else ""),
                    f"after {name}{' (which raised ' + type(raised).__name__ + ')' if raised is not None else ''}: "
                    f"{sp[0]} has shape {sp[1]}, expected {sp[2]} = (number of histograms, number of bins)", where)
        if k in SHAPE_OPS and raised is None:
            last_shape_op = name
        if k in ("av", "aw") and raised is None and adm:
            X, nh0 = pre
            ws = [1.0] * nh0 if k == "av" else [float(w) for w in op[1]]
            if h.number_of_histograms() != 1:
                return (f"average:not-one-histogram:{name}", f"{name} left {h.number_of_histograms()} histograms", where)
            sw = sum(Fraction(w) for w in ws)
            for j in range(X.shape[1]):
                xs = [Fraction(float(x)) for x in X[:, j]]
                mean = sum(Fraction(w) * x for w, x in zip(ws, xs)) / sw
                var = sum(Fraction(w) * (x - mean) ** 2 for w, x in zip(ws, xs)) / sw
                if not feq(float(h.histogram()[0][j]), float(mean), False):
                    return (f"average:mean:{name}", f"{name}: bin {j} is {float(h.histogram()[0][j])!r}, the weighted mean is {float(mean)!r}", where)
                std = math.sqrt(var) if var >= 0 else float("nan")
                got_e = float(h.standard_error()[0][j])
                if not ((got_e != got_e and std != std) or abs(got_e - std) <= 1e-9 * max(1.0, std)):
                    return (f"average:error:{name}", f"{name}: error of bin {j} is {float(h.standard_error()[0][j])!r}, the weighted "
                            f"population standard deviation is {std!r}", where)
        if k == "wr" and raised is None and adm:
            if len(got) != len(exp_csv):
                return ("write:blocks", f"write_to_file wrote {len(got)} blocks for {len(exp_csv)} histograms", where)
            for b, ((gh, gr), (eh, er)) in enumerate(zip(got, exp_csv)):
                if list(gh) != list(eh):
                    return ("write:labels", f"write_to_file header of histogram {b} is {gh}, requested labels are {eh}", where)
                if len(gr) != len(er) or any(len(x) != len(y) or not all(feq(a, c, True) for a, c in zip(x, y)) for x, y in zip(gr, er)):
                    cols = ALL_COLS if op[1] is None else op[1]
                    prefix = list(cols) == ALL_COLS[:len(cols)]
                    return ("write:values-not-by-column-name" + ("" if not prefix else ":prefix-selection"),
                            f"write_to_file columns {list(cols)}: rows {gr} but the values belonging to these columns are {er}",
                            where)
    return None


def shrink(ctor, ops, adms, key):
    cur = list(zip(ops, adms))
    changed = True
    while changed and len(cur) > 1:
        changed = False
        for i in range(len(cur)):
            cand = cur[:i] + cur[i + 1:]
            # removing a shape-changing op invalidates the admissibility flags of later ops: only drop ops whose
            # removal keeps (nb, nh) bookkeeping intact, or re-derive by replay
            try:
                r = oracle_c10(ctor, [c[0] for c in cand], readmit(ctor, [c[0] for c in cand]))
            except Exception:  # noqa: BLE001
                r = None
            if r and r[0] == key:
                cur = [(o, a) for o, a in zip([c[0] for c in cand], readmit(ctor, [c[0] for c in cand]))]
                changed = True
                break
    return [c[0] for c in cur], [c[1] for c in cur]


def search(ctx, budget_s):
    rng = ctx.rng
    t0 = time.time()
    n = 0
    found = set()
    for case in H.corpus("C10"):
        ctor, ops = H.ctor_from_json(case["ctor"]), ops_from_json(case["ops"])
        adms = readmit(ctor, ops)
        r = oracle_c10(ctor, ops, adms)
        n += 1
        if r:
            found.add(r[0])
            ctx.violation(r[0], r[1], dict(input=case, detail=jsonable(r[2]), how_to_replay="./check C10 --replay <this file>"))
    limit = 20000 if ctx.thorough else 1500
    while time.time() - t0 < budget_s and n < limit:
        ctor, edges, ops, adms = gen_history(rng)
        if n % 4 == 0:   # the sequences the statement names: write after averaging, scale after inserting a bin
            ref_nh = sum(1 for o in ops if o[0] == "ah")
            ops = [o for o in ops if o[0] not in ("wr",)]
            adms = readmit(ctor, ops)
            if None not in adms:
                tail = [("av",), ("wr", rng.choice([None, ["bin_low", "distribution"], ["distribution", "sys_err-", "bin_center"]]),
                                  [{c: c.upper() for c in ALL_COLS}], "")]
                ops = ops + tail
                adms = readmit(ctor, ops)
        r = oracle_c10(ctor, ops, adms)
        n += 1
        kinds = [o[0] for o in ops]
        ctx.case(("oracle", tuple(edges), tuple(enc_op(o) for o in ops)), bool(SHAPE_OPS & set(kinds)))
        if r and r[0] not in found:
            found.add(r[0])
            try:
                ops2, adms2 = shrink(ctor, ops, adms, r[0])
                r2 = oracle_c10(ctor, ops2, adms2) or r
            except Exception:  # noqa: BLE001
                ops2, r2 = ops, r
            ctx.violation(r2[0], r2[1], dict(input=dict(ctor=jsonable(ctor), ops=jsonable([list(o) for o in ops2])),
                                             detail=jsonable(r2[2]), how_to_replay="./check C10 --replay <this file>"))
    ctx.cov["oracle_cases"] = n
    ctx.count("oracle", n)


def ops_from_json(ops):
    out = []
    for o in H.unjson(ops):
        o = list(o)
        if o[0] == "fl" and isinstance(o[2], list):
            o[2] = (o[2][0], o[2][1])
        out.append(tuple(o))
    return out


def replay(ctx, path):
    d = json.loads(open(path).read())
    inp = d.get("input")
    if not inp:
        print(f"[C10] replay file names a broken obligation, not an input: {d.get('broken')}")
        return 1
    ctor, ops = H.ctor_from_json(inp["ctor"]), ops_from_json(inp["ops"])
    adms = readmit(ctor, ops)
    r = oracle_c10(ctor, ops, adms)
    edges = [float(x) for x in make_hist(ctor).bin_edges_]
    try:
        translate(ctx)      # the model is the one of the tree under test
        ok, log = common.lake_build(common.obligations("C10")["driver_modules"])
        if not ok:
            raise RuntimeError("lake build of the driver failed")
        out = common.run_driver("C10", [enc_case(edges, ops)])[0]
        diff = H.compare_history(ctor, ops, out)[0]
        print(f"[C10] model vs code on this input: {'agree' if diff is None else diff}")
    except Exception as e:  # noqa: BLE001
        print(f"[C10] driver not available: {e}")
    if r:
        print(f"VIOLATION property=C10 replay={path}")
        print(r[1])
        return 1
    print("[C10] replay: property holds on this input now")
    return 0
