"""C13 — multi-particle pT correlations.  Tie T (polynomials regenerated) + tie C (Float driver)."""
import json
import math
import time
import warnings
from fractions import Fraction

import numpy as np

import common
from common import f2h, h2f, close
from translate import ptcorr

warnings.filterwarnings("ignore")


# ------------------------------------------------------------------ translator (tie T)
def translate(ctx):
    text, regions = ptcorr.render(common.read_src("MultiParticlePtCorrelations.py"))
    changed = common.write_if_changed(common.LEAN / "SparkxVerif/Gen/PtCorr.lean", text)
    golden = (common.LEAN / "golden/Gen/PtCorr.lean")
    same = golden.exists() and golden.read_text() == text
    ctx.cov["gen_equals_golden"] = same
    if changed:
        ctx.notes.append("Gen/PtCorr.lean regenerated (source differs from last run)")
    return regions


# ------------------------------------------------------------------ real code access
def _particles(ev):
    from sparkx.Particle import Particle
    out = []
    for w, pt in ev:
        p = Particle()
        p.px = pt
        p.py = 0.0
        if w is not None:
            p.weight = w
        out.append(p)
    return out


def real_event_nd(ev, max_order=8):
    """per-event numerators / denominators: through the private per-event method when it exists, otherwise from the
    public API (after a call the object keeps N_events / D_events); None if neither is available"""
    from sparkx.MultiParticlePtCorrelations import MultiParticlePtCorrelations
    m = MultiParticlePtCorrelations(max_order=max_order)
    if hasattr(m, "_transverse_momentum_correlations_event_num_denom"):
        m.N_events, m.D_events = [], []
        m._transverse_momentum_correlations_event_num_denom(_particles(ev))
        return [float(x) for x in m.N_events[0]], [float(x) for x in m.D_events[0]]
    try:
        with np.errstate(all="ignore"):
            m.mean_pT_correlations([_particles(ev)], compute_error=False)
        N, D = np.asarray(m.N_events), np.asarray(m.D_events)
        return [float(x) for x in N[0]], [float(x) for x in D[0]]
    except Exception:
        return None


_REUSED = {}   # max_order -> (estimator object, history of (first_method, events) it has already served)
_CALLS = [0]
_LAST_CONTAINER = []   # kinds of event containers used by the calls so far (last two = last real_all)
_MODE_RNG = __import__("random").Random(20260930)   # which calls re-use an object / come after a failed call: independent
                                                    # of the case generator, so no modular pattern can hide a class


def real_all(evs, max_order, mode="auto", corr_first=None, do_poison=None, container=None):
    """mode 'fresh': new estimator objects; 'reuse': one long-lived object per max_order serves both public methods
    (order of the two varies), so that state leaking from one call into the next shows up; before some re-use calls the
    object first serves a call that fails midway; 'auto' draws all of this at random."""
    from sparkx.MultiParticlePtCorrelations import MultiParticlePtCorrelations
    _CALLS[0] += 1
    reuse = mode == "reuse" or (mode == "auto" and _MODE_RNG.random() < 0.5)
    if corr_first is None:
        corr_first = _MODE_RNG.random() < 0.5
    if reuse:
        m1, hist = _REUSED.setdefault(max_order, (MultiParticlePtCorrelations(max_order=max_order), []))
        m2 = m1
        if do_poison is None:
            do_poison = _MODE_RNG.random() < 0.25
        if do_poison and evs:
            # a call that fails midway (an event holding something that is not a particle) must leave no trace in the object
            poison(m1, evs, corr_first)
            hist.append(("poison-" + ("correlations" if corr_first else "cumulants"), evs))
        hist.append(("correlations-then-cumulants" if corr_first else "cumulants-then-correlations", evs))
    else:
        m1 = MultiParticlePtCorrelations(max_order=max_order)
        m2 = MultiParticlePtCorrelations(max_order=max_order)
        via = _MODE_RNG.random()   # an estimator that went through copy / deepcopy / pickle must behave like the original
        if via < 0.06:
            m1, m2 = __import__("copy").deepcopy(m1), __import__("copy").copy(m2)
        elif via < 0.12:
            pk = __import__("pickle")
            m1, m2 = pk.loads(pk.dumps(m1)), pk.loads(pk.dumps(m2))
    def events_arg():
        """the sample as the caller may hold it: a list, a tuple, or a one-shot iterator over the events (a generator
        streaming events from a file); `container` fixes the kind for replays"""
        lst = [_particles(ev) for ev in evs]
        kind = container if container is not None else _MODE_RNG.choice(["list"] * 5 + ["tuple", "iter", "generator"])
        _LAST_CONTAINER.append(kind)
        if kind == "tuple":
            return tuple(lst)
        if kind == "iter":
            return iter(lst)
        if kind == "generator":
            return (e for e in lst)
        return lst
    with np.errstate(all="ignore"):
        if corr_first:
            c = m1.mean_pT_correlations(events_arg(), compute_error=False)
            k = m2.mean_pT_cumulants(events_arg(), compute_error=False)
        else:
            k = m2.mean_pT_cumulants(events_arg(), compute_error=False)
            c = m1.mean_pT_correlations(events_arg(), compute_error=False)
    return [float(x) for x in c], [float(x) for x in k]


def poison(m, evs, corr_first):
    """one call on `m` that raises after some events have been processed: the sample's events followed by a non-event"""
    # other particles than the valid call that follows (the same events twice would leave every average unchanged)
    other = [[(w, 3.0 * pt + 1.0) for w, pt in ev] for ev in evs]
    bad = [_particles(ev) for ev in other]
    bad.append(_particles(other[-1]) + [None])    # fails inside the last event, after everything else was accumulated
    try:
        with np.errstate(all="ignore"):
            (m.mean_pT_correlations if corr_first else m.mean_pT_cumulants)(bad, compute_error=False)
    except Exception:
        pass


# ------------------------------------------------------------------ generators
def gen_event(rng, lo, hi, dyadic=True, wscale=1.0, ptscale=1.0, mode=None):
    """wscale / ptscale: powers of two multiplying every set weight / every pT (exact in binary floating point):
    the defining ratios are homogeneous, so any hidden absolute tolerance or threshold in the code shows"""
    m = rng.randint(lo, hi)
    ev = []
    mode = mode or rng.choice(["unset", "set", "mixed"])
    r = rng.random()
    zero_pt = "all" if r < 0.06 else ("some" if r < 0.16 else None)   # particles at rest in the transverse plane: pT exactly 0
    tied = rng.random() < 0.15                                         # bit-identical pT with different weights
    last_pt = None
    for _ in range(m):
        pt = (rng.randint(1, 40) / 8.0 if dyadic else rng.uniform(0.1, 5.0)) * ptscale
        if zero_pt == "all" or (zero_pt == "some" and rng.random() < 0.4):
            pt = 0.0
        elif tied and last_pt is not None and rng.random() < 0.5:
            pt = last_pt
        last_pt = pt
        if mode == "unset" or (mode == "mixed" and rng.random() < 0.5):
            w = None
        else:
            w = (rng.randint(1, 16) / 8.0 if dyadic else rng.uniform(0.2, 2.0)) * wscale
        ev.append((w, pt))
    return ev


SCALES = [0, 0, 0, -3, -6, -9, -12, -16, -24, 4, 8, 16, 24]


def gen_scale(rng):
    return 2.0 ** rng.choice(SCALES)


def enc_event(ev):
    if not ev:
        return "."
    return ";".join(("-" if w is None else f2h(w)) + "," + f2h(pt) for w, pt in ev)


# ------------------------------------------------------------------ exact oracle (independent of the code's expansion)
def esym(xs, k):
    e = [Fraction(0)] * (k + 1)
    e[0] = Fraction(1)
    for x in xs:
        for j in range(k, 0, -1):
            e[j] += e[j - 1] * x
    return e[k]


def exact_corr(evs, k):
    """sum over events of sum over k-tuples of distinct particles = k! e_k"""
    num = sum(esym([Fraction(1 if w is None else w) * Fraction(pt) for w, pt in ev], k) for ev in evs)
    den = sum(esym([Fraction(1 if w is None else w) for w, pt in ev], k) for ev in evs)
    return num, den  # the k! cancels in the ratio


def exact_cumulants(C):
    """kappa_k from moments C_1..C_K through log of the exponential generating function (independent of the recursion)."""
    K = len(C)
    a = [Fraction(0)] + [Fraction(C[i]) / math.factorial(i + 1) for i in range(K)]  # f = 1 + sum a_k t^k
    # log(1+g) coefficients: L' = g'/(1+g)  ->  n L_n = n a_n - sum_{j=1}^{n-1} j L_j a_{n-j}
    L = [Fraction(0)] * (K + 1)
    for n in range(1, K + 1):
        L[n] = a[n] - sum(Fraction(j, n) * L[j] * a[n - j] for j in range(1, n))
    return [L[k] * math.factorial(k) for k in range(1, K + 1)]


def oracle_check(evs, max_order, rel=1e-6, mode="fresh", corr_first=None, do_poison=None, container=None):
    """Returns None or (key, what, detail) when the *real code* disagrees with the definition."""
    import random as _random
    import sparkx.MultiParticlePtCorrelations  # noqa: F401  (the first import of sparkx itself advances `random`)
    env0 = (_random.getstate(), np.random.get_state()[1].tobytes(), np.geterr(), np.get_printoptions())
    try:
        c, kap = real_all(evs, max_order, mode, corr_first, do_poison, container)
        env1 = (_random.getstate(), np.random.get_state()[1].tobytes(), np.geterr(), np.get_printoptions())
        if env1 != env0:
            what = [n for n, a, b in zip(("random-state", "numpy-random-state", "numpy-error-state", "print-options"), env0, env1) if a != b]
            return ("environment-changed:" + "+".join(what), "mean_pT_correlations / mean_pT_cumulants (compute_error=False) left "
                    + ", ".join(what) + " changed", dict(changed=what))
    except Exception as e:   # an admissible sample must not make the estimator raise
        if not any(len(ev) >= 1 for ev in evs):
            return None
        return (f"raises-{type(e).__name__}", f"mean_pT_correlations / mean_pT_cumulants raised {type(e).__name__}: {e} on an admissible sample",
                dict(exception=type(e).__name__))
    Cex = []
    ptmax = max([abs(pt) for ev in evs for _, pt in ev] + [0.0]) or 1.0
    for k in range(1, max_order + 1):
        n, d = exact_corr(evs, k)
        if d == 0:
            return None
        Cex.append(n / d)
        # absolute floor: when the defining value is exactly 0 (a zero-pT particle in every tuple) the power-sum
        # expansion leaves rounding noise proportional to the size of its terms, i.e. to ptmax^k
        if not close(c[k - 1], float(n / d), rel=rel, abs_=1e-7 * ptmax ** k):
            return (f"corr-order-{k}", f"mean_pT_correlations order {k}: code {c[k-1]!r} != distinct-tuple definition {float(n/d)!r}",
                    dict(order=k, code=c[k - 1], expected=float(n / d)))
    kex = exact_cumulants(Cex)
    scale = [max(abs(float(Cex[0])), 1e-2 * ptmax) ** (k + 1) for k in range(max_order)]  # kappa_k is homogeneous of degree k in pT
    for k in range(max_order):
        if abs(kap[k] - float(kex[k])) > 1e-6 * max(scale[k], abs(float(kex[k]))) * (10 ** k if k > 3 else 1):
            return (f"kappa-order-{k+1}", f"mean_pT_cumulants order {k+1}: code {kap[k]!r} != cumulant of the defining correlations {float(kex[k])!r}",
                    dict(order=k + 1, code=kap[k], expected=float(kex[k])))
    return None


# ------------------------------------------------------------------ correspondence (tie C)
def correspond(ctx):
    rng = ctx.rng
    ctx.rule = ("random event samples (dyadic pT in [1/8,5], weights unset/set/mixed, 1-4 events, multiplicities 0..12, "
                "both >= k and < k); non-trivial = at least two events of different multiplicity or some weight set; "
                "distinct by canonical input")
    ncases = ctx.n(60, 1500)
    lines, meta = [], []
    for i in range(ncases):
        if i % 3 == 0:
            ev = gen_event(rng, 0, 12, dyadic=rng.random() < 0.7)
            k = rng.randint(1, 8)
            lines.append(f"ev\t{k}\t{enc_event(ev)}")
            meta.append(("ev", k, ev))
        else:
            mo = rng.randint(1, 8)
            nev = rng.randint(1, 4)
            # one exact power-of-two scale for all set weights of the sample (unset weights count 1, so a scaled sample has
            # every weight set): the arithmetic of code and model is then the unscaled one, shifted in the exponent
            ws, ps = gen_scale(rng), gen_scale(rng)
            evs = [gen_event(rng, mo, 12, dyadic=rng.random() < 0.7, wscale=ws, ptscale=ps, mode=None if ws == 1.0 else "set")
                   for _ in range(nev)]
            if rng.random() < 0.3:  # too-small event contributes 0
                evs.insert(rng.randrange(len(evs) + 1), gen_event(rng, 0, max(0, mo - 1), wscale=ws, ptscale=ps,
                                                                  mode=None if ws == 1.0 else "set"))
            lines.append(f"all\t{mo}\t" + "|".join(enc_event(e) for e in evs))
            meta.append(("all", mo, evs))
    outs = common.run_driver("C13", lines)
    broken_seen = []
    for (kind, k, data), out in zip(meta, outs):
        if kind == "ev":
            nd = real_event_nd(data)
            if nd is None:
                ctx.count("ev/skipped-no-per-event-access")
                continue
            N, D = nd
            scale = max(1.0, sum(abs((1.0 if w is None else w) * pt) for w, pt in data)) ** k
            scale_w = max(1.0, sum(abs(1.0 if w is None else w) for w, pt in data)) ** k
            ok = out.startswith("ok ")
            if ok:
                n_m, d_m = (h2f(t) for t in out.split()[1:3])
                ok = abs(n_m - N[k - 1]) <= 1e-9 * scale and abs(d_m - D[k - 1]) <= 1e-9 * scale_w
            nontriv = len(data) >= k and any(w is not None for w, _ in data)
            ctx.case(("ev", k, tuple(data)), nontriv, sample=dict(op="ev", k=k, event=data, code=[N[k - 1], D[k - 1]], model=out))
            ctx.count(f"ev/k={k}/{'M>=k' if len(data) >= k else 'M<k'}")
            if not ok:
                ctx.brk("correspondence-broken", f"event numerator/denominator order {k}: code {N[k-1]!r},{D[k-1]!r} vs model {out}",
                        case=dict(op="ev", k=k, event=data))
        else:
            c, kap = real_all(data, k)
            ok = out.startswith("ok ")
            if ok:
                cs, ks = (common.parse_fl(t) for t in out.split()[1:3])
                pm = max([abs(pt) for e in data for _, pt in e] + [0.0]) or 1.0
                c1 = max(abs(c[0]), 1e-2 * pm)
                ok = all(close(a, b, rel=1e-7, abs_=1e-7 * pm ** (i + 1)) for i, (a, b) in enumerate(zip(c, cs))) and \
                    all(close(a, b, rel=1e-6, abs_=1e-7 * c1 ** (i + 1) * 10 ** i) for i, (a, b) in enumerate(zip(kap, ks)))
            mults = {len(e) for e in data}
            nontriv = len(mults) > 1 or any(w is not None for e in data for w, _ in e)
            ctx.case(("all", k, tuple(tuple(e) for e in data)), nontriv,
                     sample=dict(op="all", max_order=k, events=data, code=dict(corr=c, kappa=kap)))
            ctx.count(f"all/max_order={k}/events={len(data)}")
            if not ok:
                ctx.brk("correspondence-broken", f"correlations/cumulants max_order {k}: code {c},{kap} vs model {out}",
                        case=dict(op="all", max_order=k, events=data))
                if len(broken_seen) < 8:   # the first place to look for a failing input of the property itself
                    broken_seen.append(1)
                    r = check_all_kinds(data, k)
                    if r:
                        ctx.violation(r[0], r[1], dict(input=dict(events=data, max_order=k), detail=r[2],
                                                       how_to_replay="./check C13 --replay <this file>"))


# ------------------------------------------------------------------ search on the real code
def search(ctx, budget_s):
    rng = ctx.rng
    t0 = time.time()
    n = 0
    # corpus first
    for case in corpus():
        r = oracle_check(case["events"], case["max_order"])
        n += 1
        if r:
            ctx.violation(r[0], r[1], dict(input=case, detail=r[2], how_to_replay="./check C13 --replay <this file>"))
    while time.time() - t0 < budget_s and n < (4000 if ctx.thorough else 400):
        mo = 8 if rng.random() < 0.6 else rng.randint(1, 8)
        nev = rng.choice([1, 2, 2, 3])
        ws, ps = gen_scale(rng), gen_scale(rng)
        evs = [gen_event(rng, mo, mo + rng.randint(0, 4), wscale=ws, ptscale=ps, mode=None if ws == 1.0 else "set")
               for _ in range(nev)]
        r = oracle_check(evs, mo, mode="auto")
        n += 1
        ctx.case(("oracle", mo, tuple(tuple(e) for e in evs)), True)
        ctx.count(f"oracle/wscale=2^{int(math.log2(ws))}/ptscale=2^{int(math.log2(ps))}")
        if r is None and n % 3 == 0:
            r = homogeneity_check(rng, mo)
            if r:
                ctx.violation(r[0], r[1], dict(input=dict(events=r[2]["events"], max_order=mo), detail=r[2],
                                               how_to_replay="./check C13 --replay <this file>"))
                break
        if r:
            fresh = check_all_kinds(evs, mo)
            if fresh is None:
                # correct on a fresh object, wrong on the re-used one: state leaks between calls
                hist = _REUSED[mo][1][-3:]
                ctx.violation("instance-reuse-" + r[0], "on an estimator object that has served earlier calls: " + r[1],
                              dict(input=dict(max_order=mo, history=[dict(order=o, events=e) for o, e in hist]), detail=r[2],
                                   how_to_replay="./check C13 --replay <this file>"))
            else:
                evs = shrink(evs, mo, fresh[0])
                r = check_all_kinds(evs, mo) or fresh
                ctx.violation(r[0], r[1], dict(input=dict(events=evs, max_order=mo), detail=r[2],
                                               how_to_replay="./check C13 --replay <this file>"))
            break
    ctx.cov["oracle_cases"] = n
    ctx.count("oracle", n)


def homogeneity_check(rng, mo):
    """all weights set: multiplying every weight by 2^a and every pT by 2^b (exact) must leave C_k * 2^(-b k) unchanged
    up to rounding noise; returns a violation triple for the scaled sample when the unscaled one is right"""
    nev = rng.choice([1, 2, 3])
    base = [gen_event(rng, mo, mo + rng.randint(0, 3), mode="set") for _ in range(nev)]
    a, b = rng.choice([-30, -20, -12, -6, 6, 12, 20, 30]), rng.choice([-20, -8, 0, 0, 8, 20])
    scaled = [[(w * 2.0 ** a, pt * 2.0 ** b) for w, pt in e] for e in base]
    if oracle_check(base, mo, mode="fresh") is not None:
        return None  # the plain sample is already wrong: reported by the ordinary path
    c0, _ = real_all(base, mo, "fresh")
    c1, _ = real_all(scaled, mo, "fresh")
    for k in range(mo):
        want = c0[k] * 2.0 ** (b * (k + 1))
        # tolerance: the oracle's own.  The scaling is exact for +,-,* but libm's pow is only faithfully rounded, and with
        # M close to the order the power-sum expansion amplifies that last bit by many orders of magnitude.
        pm = max([abs(pt) for e in scaled for _, pt in e] + [0.0]) or 1.0
        if not ((want != want and c1[k] != c1[k]) or close(c1[k], want, rel=1e-6, abs_=1e-7 * pm ** (k + 1))):
            r = oracle_check(scaled, mo, mode="fresh")
            key = r[0] if r else f"corr-order-{k+1}"
            return (key + "-scaled", f"weights x 2^{a}, pT x 2^{b}: order {k+1} correlation {c1[k]!r}, "
                    f"the unscaled sample gives {c0[k]!r} (expected {want!r}: the definition is homogeneous)",
                    dict(events=scaled, unscaled=base, order=k + 1, code=c1[k], expected=want))
    return None


def check_all_kinds(evs, mo):
    """fresh objects, the sample passed as list / tuple / one-shot iterator / generator: first failure or None"""
    for kind in ("list", "tuple", "iter", "generator"):
        r = oracle_check(evs, mo, mode="fresh", container=kind)
        if r:
            return (r[0], f"(events passed as {kind}) " + r[1], r[2])
    return None


def shrink(evs, mo, key):
    cur = [list(e) for e in evs]
    changed = True
    while changed:
        changed = False
        for i in range(len(cur)):
            if len(cur) > 1:
                cand = cur[:i] + cur[i + 1:]
                r = check_all_kinds(cand, mo)
                if r and r[0] == key:
                    cur = cand
                    changed = True
                    break
        for i in range(len(cur)):
            for j in range(len(cur[i])):
                if len(cur[i]) > (int(key.split("-")[-1]) if key.split("-")[-1].isdigit() else 1):
                    cand = [list(e) for e in cur]
                    del cand[i][j]
                    r = check_all_kinds(cand, mo)
                    if r and r[0] == key:
                        cur = cand
                        changed = True
                        break
            if changed:
                break
    return cur


def corpus():
    p = common.VERIF / "harness/corpus/C13"
    out = []
    if p.exists():
        for f in sorted(p.glob("*.json")):
            out.append(json.loads(f.read_text()))
    return out


def replay(ctx, path):
    d = json.loads(open(path).read())
    inp = d.get("input")
    if not inp:
        print(f"[C13] replay file names a broken obligation, not an input: {d.get('broken')}")
        return 1
    conv = lambda events: [[(None if w is None else float(w), float(pt)) for w, pt in e] for e in events]
    if "history" in inp:
        _REUSED.pop(inp["max_order"], None)
        r = None
        from sparkx.MultiParticlePtCorrelations import MultiParticlePtCorrelations
        for h in inp["history"]:
            if h["order"].startswith("poison"):
                m1, _ = _REUSED.setdefault(inp["max_order"], (MultiParticlePtCorrelations(max_order=inp["max_order"]), []))
                poison(m1, conv(h["events"]), h["order"].endswith("correlations"))
                continue
            r = oracle_check(conv(h["events"]), inp["max_order"], mode="reuse",
                             corr_first=h["order"].startswith("correlations"), do_poison=False) or r
    else:
        r = check_all_kinds(conv(inp["events"]), inp["max_order"])
    if r:
        print(f"VIOLATION property=C13 replay={path}")
        print(r[1])
        return 1
    print("[C13] replay: property holds on this input now")
    return 0
