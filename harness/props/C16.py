"""C16 — smearing particles onto a lattice conserves the smeared quantity.

Tie T: harness/translate/smear.py regenerates Gen/Smear.lean (`add_particle_data`, `add_same_spaced_grid` and every
helper they go through, constructor attributes included) from the current source; Lemmas/SmearGen.lean proves the
generated functions equal to the hand model, Props/C16/Gen.lean restates the property about them.
Tie C (Float driver, tolerance 1e-9): the hand model (`smear`) AND the generated function (`gsmear`) are run against
the real code on every case.  The Lean model (`Core/Smear.lean`) computes node
coordinates, temporary lattice, normalisation, closest node, inside test, nearest node,
accumulation and reset; the kernel values (scipy pdf, Gaussian or covariant) and
`round(n_sigma*sigma/spacing)` are parameters which the harness computes itself (`kernel_tables`,
`half_widths`) - independently of how the code under test evaluates the kernel; pdf calls the
code is seen to make are only cross-checked against them.

Every call is issued in one of nine equivalent documented call forms (documented order particle_data, sigma, quantity,
kernel="gaussian", add=False - hard-coded from the property statement, not read off the code).  Besides single calls,
histories on ONE long-lived lattice are run: valid calls interleaved with calls that must raise (bad particle first /
middle / last, bad names, bad sigma); model, generated function and oracle are applied to every step starting from the
content OBSERVED before it (the code is not atomic on failure - `add=False` wipes before it validates - and the property
does not ask for that; what it asks is that a failed call does not change what later valid calls do).  A finding that
disappears on a new object is keyed `instance-reuse[-after-error]-<clause>`, one that disappears with the plain keyword
call `call-form-<form>/<clause>`; the replay file holds the shrunk history and is run in a new process by --replay.

The oracle (`search`) is independent of the model: sum(grid)*cell_volume against the sum of the
particles' quantities (support inside), <= for clipped non-negative quantities, add=True against
old content + fresh smear, add=False against a pre-filled lattice, and permutation of the particles.
"""
import json
import math
import time
import warnings

import numpy as np

import common
from common import f2h, h2f

warnings.filterwarnings("ignore")

QUANTITIES = ["energy_density", "number_density", "charge_density", "baryon_density", "strangeness_density"]
ATTR = dict(energy_density="E", charge_density="charge", baryon_density="baryon_number",
            strangeness_density="strangeness")


# ------------------------------------------------------------------ translator (tie T)
def translate(ctx):
    from translate import smear
    src = common.read_src("Lattice3D.py")
    text, regions, info = smear.render(src)
    common.write_if_changed(common.LEAN / "SparkxVerif/Gen/Smear.lean", text)
    golden = common.LEAN / "golden/Gen/Smear.lean"
    ctx.cov["gen_equals_golden"] = golden.exists() and golden.read_text() == text
    ctx.cov["translated_methods"] = sorted(info)
    ctx.cov["tie"] = ("T+C: Gen/Smear.lean regenerated from the current source (add_particle_data, add_same_spaced_grid, "
                      "reset, closest / nearest node search, coordinates, by-index access, constructor attributes), proved "
                      "equal to the hand model (Lemmas/SmearGen); hand model and generated function both run at Float "
                      "against the real class; scipy pdf values, round, linspace: parameters")
    return regions


# ------------------------------------------------------------------ real code access
def make_lattice(lat):
    from sparkx.Lattice3D import Lattice3D
    (x0, x1, nx), (y0, y1, ny), (z0, z1, nz) = lat["axes"]
    ns = lat.get("n_sigma")
    if ns is None:
        return Lattice3D(x0, x1, y0, y1, z0, z1, nx, ny, nz)
    return Lattice3D(x0, x1, y0, y1, z0, z1, nx, ny, nz, ns[0], ns[1], ns[2])


def make_particle(d):
    from sparkx.Particle import Particle
    p = Particle()
    for k in ("x", "y", "z", "E", "mass", "px", "py", "pz", "charge", "baryon_number", "strangeness"):
        if d.get(k) is not None:
            setattr(p, k, d[k])
    return p


def quantity_value(p, quantity):
    """the number the code smears for this particle, read through the same getter"""
    if quantity == "number_density":
        return 1.0
    return float(getattr(p, ATTR[quantity]))


class _Recorder:
    """wraps `multivariate_normal` inside sparkx.Lattice3D and notes what every pdf call returns (scalar or batched).
    Pure observation: it never changes or fails a call of the code under test; what it saw is only a cross-check of the
    kernel table the harness computes itself (`kernel_tables`)."""

    def __init__(self, real):
        self.real = real
        self.vals = []          # all pdf values seen, flattened in call order
        self.calls = 0

    def __call__(self, *a, **k):
        frozen = self.real(*a, **k)
        rec = self

        class F:
            def pdf(self_, *x, **kw):
                r = frozen.pdf(*x, **kw)
                try:
                    rec.calls += 1
                    rec.vals.extend(float(v) for v in np.asarray(r, dtype=float).ravel())
                except Exception:
                    rec.vals.append(None)
                return r

            def __getattr__(self_, name):
                return getattr(frozen, name)

        return F()


def axis_spacing(ax):
    xs = np.linspace(ax[0], ax[1], ax[2])
    return float(xs[1] - xs[0])


def half_widths(case):
    """round(n_sigma * sigma / spacing) per axis, computed by the harness from the case itself (Python round on the numpy
    double, as documented); None where that is not a number (invalid sigma)"""
    lat = case["lattice"]
    ns = lat.get("n_sigma") or [3, 3, 3]
    out = []
    for ax, s_ in zip(lat["axes"], ns):
        try:
            out.append(round(np.float64(float(s_)) * case["sigma"] / np.float64(axis_spacing(ax))))
        except (ValueError, OverflowError, TypeError):
            out.append(None)
    return out


# the documented call: add_particle_data(particle_data, sigma, quantity, kernel="gaussian", add=False)
# (order and defaults as the property statement / the docstring give them; NOT read off the code under test, so that a
# signature change which re-binds positional arguments shows as a wrong result)
DOC_ORDER = ["particle_data", "sigma", "quantity", "kernel", "add"]
DOC_DEFAULTS = dict(kernel="gaussian", add=False)
FORMS = ["kw", "kw-reversed", "pos", "pos4", "pos3", "pos2", "pos1", "defaults-pos", "defaults-kw"]


def call_args(form, vals):
    """positional and keyword arguments of one of the equivalent documented call forms"""
    if form in (None, "kw"):
        return [], dict(vals)
    if form == "kw-reversed":
        return [], {k: vals[k] for k in reversed(DOC_ORDER)}
    if form == "pos":
        return [vals[k] for k in DOC_ORDER], {}
    if form in ("pos4", "pos3", "pos2", "pos1"):
        n = int(form[3:])
        return [vals[k] for k in DOC_ORDER[:n]], {k: vals[k] for k in DOC_ORDER[n:]}
    if form == "defaults-pos":      # trailing arguments that equal their documented default are left out
        names = list(DOC_ORDER)
        while names and names[-1] in DOC_DEFAULTS and vals[names[-1]] == DOC_DEFAULTS[names[-1]] \
                and type(vals[names[-1]]) is type(DOC_DEFAULTS[names[-1]]):
            names.pop()
        return [vals[k] for k in names], {}
    if form == "defaults-kw":       # every argument that equals its documented default is left out, the rest by keyword
        return [vals[k] for k in DOC_ORDER[:3]], {k: vals[k] for k in DOC_ORDER[3:]
                                                 if not (vals[k] == DOC_DEFAULTS[k] and type(vals[k]) is type(DOC_DEFAULTS[k]))}
    raise ValueError("unknown call form " + str(form))


# ---- round-4 devices: the same call, made in a way the documentation admits, must give the same lattice
#   container     how `particle_data` ("a list of Particle objects") is handed over: list, list subclass; tuple, numpy object
#                 array and the one-shot iterables (generator, iter(list), map, filter) where the code under test accepts them
#                 at all (probed once per run: a probe call that raises makes the kind inadmissible, it is then only counted)
#   copy_lattice  the lattice object is replaced by its copy.copy / copy.deepcopy / pickle round trip before the call
#   copy_parts    every particle likewise
#   argtypes      sigma as numpy double, quantity / kernel as numpy str or a str subclass, add as numpy bool (probed)
#   env           the call is made after os.chdir into a fresh empty directory, with non-default numpy print options,
#                 np.seterr(all="warn") and advanced `random` / `np.random` global states; afterwards cwd, print options,
#                 np.geterr(), both global random states must be as the call found them and the directory still empty
COPY_KINDS = ["copy", "deepcopy", "pickle"]
CONTAINERS_FREE = ["list", "list-subclass"]
CONTAINERS_PROBED = ["tuple", "object-array", "generator", "iter", "map", "filter"]
ONE_SHOT = {"generator", "iter", "map", "filter"}
ARGTYPES_PROBED = ["sigma-np.float64", "names-np.str_", "names-str-subclass", "add-np.bool_"]
DEV_DEFAULT = dict(container="list", copy_lattice=None, copy_parts=None, argtypes=None, env=False)
_ADMISSIBLE = {}


class _PList(list):
    pass


class _PStr(str):
    pass


def copied(obj, kind):
    import copy
    import pickle
    if kind == "copy":
        return copy.copy(obj)
    if kind == "deepcopy":
        return copy.deepcopy(obj)
    if kind == "pickle":
        return pickle.loads(pickle.dumps(obj))
    return obj


def wrap_container(parts, kind):
    if kind in (None, "list"):
        return list(parts)
    if kind == "list-subclass":
        return _PList(parts)
    if kind == "tuple":
        return tuple(parts)
    if kind == "object-array":
        a = np.empty(len(parts), dtype=object)
        for i, p_ in enumerate(parts):
            a[i] = p_
        return a
    if kind == "generator":
        return (p_ for p_ in parts)
    if kind == "iter":
        return iter(list(parts))
    if kind == "map":
        return map(lambda p_: p_, parts)
    if kind == "filter":
        return filter(lambda p_: True, parts)
    raise ValueError("unknown container " + str(kind))


def typed_args(vals, kind):
    v = dict(vals)
    if kind == "sigma-np.float64":
        v["sigma"] = np.float64(v["sigma"])
    elif kind == "names-np.str_":
        v["quantity"], v["kernel"] = np.str_(v["quantity"]), np.str_(v["kernel"])
    elif kind == "names-str-subclass":
        v["quantity"], v["kernel"] = _PStr(v["quantity"]), _PStr(v["kernel"])
    elif kind == "add-np.bool_":
        v["add"] = np.bool_(v["add"])
    return v


class _Env:
    """the environment device (see above); `changed` lists what the call did not leave as it found it"""

    def __enter__(self):
        import os
        import random
        import tempfile
        self.cwd0 = os.getcwd()
        self.print0 = np.get_printoptions()
        self.err0 = np.geterr()
        self.rand0 = random.getstate()
        self.nprand0 = np.random.get_state()
        self.tmp = tempfile.mkdtemp(prefix="c16env_")
        os.chdir(self.tmp)
        np.set_printoptions(precision=3, threshold=5, suppress=True, linewidth=40)
        np.seterr(all="warn")
        random.seed(20261001)
        [random.random() for _ in range(17)]
        np.random.seed(424242)
        np.random.rand(7)
        self.before = self.snapshot()
        self.changed = []
        return self

    @staticmethod
    def snapshot():
        import os
        import random
        st = np.random.get_state()
        return dict(cwd=os.getcwd(), printoptions=repr(sorted(np.get_printoptions().items(), key=lambda kv: kv[0])),
                    geterr=repr(sorted(np.geterr().items())), random=hash(random.getstate()),
                    nprandom=(st[0], st[1].tobytes(), st[2:]), files=tuple(sorted(os.listdir("."))))

    def __exit__(self, *a):
        import os
        import random
        import shutil
        try:
            after = self.snapshot()
            self.changed = [k for k in self.before if after[k] != self.before[k]]
        except Exception:
            self.changed = ["cwd"]
        os.chdir(self.cwd0)
        np.set_printoptions(**self.print0)
        np.seterr(**self.err0)
        random.setstate(self.rand0)
        np.random.set_state(self.nprand0)
        shutil.rmtree(self.tmp, ignore_errors=True)
        return False


PROBE_CASE = dict(lattice=dict(axes=[[-1.0, 1.0, 5], [-1.0, 1.0, 5], [-1.0, 1.0, 5]]), sigma=0.2, kernel="gaussian",
                  quantity="energy_density", add=False, form="kw",
                  particles=[dict(x=0.1, y=0.0, z=-0.1, E=1.0, mass=1.0, px=0.0, py=0.0, pz=0.0, charge=1, baryon_number=1,
                                  strangeness=0)])


def admissible():
    """which of the probed ways of calling the code under test accepts at all (one probe call each, once per process)"""
    if not _ADMISSIBLE:
        for kind in CONTAINERS_PROBED:
            r = run_real(dict(PROBE_CASE, dev=dict(container=kind)), record=False)
            _ADMISSIBLE["container/" + kind] = r["status"] == "ok"
        for kind in ARGTYPES_PROBED:
            r = run_real(dict(PROBE_CASE, dev=dict(argtypes=kind)), record=False)
            _ADMISSIBLE["argtypes/" + kind] = r["status"] == "ok"
    return _ADMISSIBLE


def gen_devices(rng):
    adm = admissible()
    dev = {}
    r = rng.random()
    if r < 0.45:
        kinds = CONTAINERS_FREE[1:] + [k for k in CONTAINERS_PROBED if adm["container/" + k]]
        dev["container"] = rng.choice(kinds)
    if rng.random() < 0.2:
        dev["copy_lattice"] = rng.choice(COPY_KINDS)
    if rng.random() < 0.2:
        dev["copy_parts"] = rng.choice(COPY_KINDS)
    if rng.random() < 0.2:
        kinds = [k for k in ARGTYPES_PROBED if adm["argtypes/" + k]]
        if kinds:
            dev["argtypes"] = rng.choice(kinds)
    if rng.random() < 0.15:
        dev["env"] = True
    return dev


def pick_form(rng, case):
    """every call is issued in one of the equivalent documented forms and with a random choice of the devices above
    (kept in the case: replays are exact)"""
    if "form" not in case:
        case["form"] = rng.choice(FORMS)
    if "dev" not in case:
        case["dev"] = gen_devices(rng)
    return case


def plain(case, **kw):
    """the same call as a plain keyword call on a new object with a plain list (the reference way of calling)"""
    return dict(case, form="kw", dev={}, **kw)


def dev_of(case):
    return dict(DEV_DEFAULT, **(case.get("dev") or {}))


def dev_tag(case):
    d = case.get("dev") or {}
    return [f"{k}={d[k]}" for k in sorted(d) if d[k] not in (None, False) and not (k == "container" and d[k] == "list")]


def run_real(case, record=True, lattice=None):
    """Runs the real add_particle_data (on a new object, or on the long-lived `lattice` of a session) in the call form
    case["form"] with the devices case["dev"]. Returns dict(status, grid (flat list), V, kvals, nums, values, lattice)."""
    import contextlib
    import importlib
    L3 = importlib.import_module("sparkx.Lattice3D")
    dev = dev_of(case)
    lat = lattice if lattice is not None else make_lattice(case["lattice"])
    if lattice is None and case.get("grid") is not None:
        lat.grid_[...] = np.array(case["grid"], dtype=float).reshape(lat.grid_.shape)
    if dev["copy_lattice"]:
        lat = copied(lat, dev["copy_lattice"])
    parts = [make_particle(d) for d in case["particles"]]
    if dev["copy_parts"]:
        parts = [copied(p, dev["copy_parts"]) for p in parts]
    rec = _Recorder(L3.multivariate_normal)
    if record:
        L3.multivariate_normal = rec
    status = "ok"
    vals = typed_args(dict(particle_data=wrap_container(parts, dev["container"]), sigma=case["sigma"],
                           quantity=case["quantity"], kernel=case["kernel"], add=case["add"]), dev["argtypes"])
    args, kwargs = call_args(case.get("form"), vals)
    env = _Env() if dev["env"] else None
    try:
        with (env if env is not None else np.errstate(all="ignore")):
            lat.add_particle_data(*args, **kwargs)
    except (ValueError, TypeError, ZeroDivisionError, OverflowError, FloatingPointError, ArithmeticError, AttributeError,
            KeyError, IndexError) as e:
        status = "err:" + type(e).__name__
    finally:
        if record:
            L3.multivariate_normal = rec.real
    nums = half_widths(case)

    def _num(p, a):
        try:
            return float(getattr(p, a))
        except Exception:
            return float("nan")
    try:
        values = [quantity_value(p, case["quantity"]) for p in parts]
    except KeyError:
        values = None               # invalid quantity name
    return dict(status=status, grid=[float(v) for v in lat.grid_.flatten()], V=float(lat.cell_volume_),
                kvals=rec.vals, pdf_calls=rec.calls, nums=nums, lattice=lat, values=values,
                env_changed=(env.changed if env is not None else []),
                seen=[[_num(p, a) for a in GEN_ATTRS] for p in parts])


def kernel_table(case, d, nums):
    """The kernel values of one particle on the stencil the model defines (temporary lattice of half-widths `nums` with the
    lattice's spacing, centred at 0), in the order the model consumes them (C order: x outermost), by the documented
    kernels: gaussian = N(mean = particle position, sigma^2 1_3) at stencil offset + particle position; covariant =
    N(0, sigma^2 1_2) at (|offset|^2, p.offset / (gamma m)).  The harness's own scipy call, one batched evaluation."""
    from scipy.stats import multivariate_normal
    p = make_particle(d)
    sigma, kernel = case["sigma"], case["kernel"]
    hs = [np.float64(axis_spacing(ax)) for ax in case["lattice"]["axes"]]
    tx, ty, tz = (np.linspace(-(n * h), n * h, 2 * n + 1) for n, h in zip(nums, hs))
    X, Y, Z = np.meshgrid(tx, ty, tz, indexing="ij")
    with np.errstate(all="ignore"):
        if kernel == "gaussian":
            kv = multivariate_normal(mean=[p.x, p.y, p.z], cov=sigma ** 2 * np.eye(3))
            vals = kv.pdf(np.stack([X + p.x, Y + p.y, Z + p.z], axis=-1))
        else:
            kv = multivariate_normal(mean=[0, 0], cov=sigma ** 2 * np.eye(2))
            gamma = np.sqrt(1 + p.p_abs() ** 2 / p.mass ** 2)
            dv = (p.px * X + p.py * Y + p.pz * Z) / (gamma * p.mass)
            vals = kv.pdf(np.stack([X ** 2 + Y ** 2 + Z ** 2, dv], axis=-1))
    return [float(v) for v in np.asarray(vals, dtype=float).reshape(X.shape).ravel()]


def kernel_tables(case, nums):
    per = (2 * nums[0] + 1) * (2 * nums[1] + 1) * (2 * nums[2] + 1)
    out = []
    for d in case["particles"]:
        try:
            t = kernel_table(case, d, nums)
            out.append(t if len(t) == per else [float("nan")] * per)
        except Exception:
            out.append([float("nan")] * per)      # kernel undefined for this particle (NaN position, unset attribute, ...)
    return out


# ------------------------------------------------------------------ encoding for the driver
def enc_lattice(lat):
    return "|".join(f"{f2h(a)},{f2h(b)},{n}" for a, b, n in lat["axes"])


def enc_case(case, real):
    """driver line for a case: half-widths and kernel tables computed by the harness (never taken from the run of the code
    under test); `how` says whether the pdf values the code was seen to evaluate agree with them"""
    nums = real["nums"]
    per = (2 * nums[0] + 1) * (2 * nums[1] + 1) * (2 * nums[2] + 1)
    chunks = kernel_tables(case, nums)
    kv = real.get("kvals") or []
    n = len(case["particles"])
    flat = [k for ks in chunks for k in ks]
    how = "recomputed"        # the code did not evaluate scipy pdfs in a form that can be lined up: nothing to cross-check
    if n and len(kv) == per * n and None not in kv:
        same = all((a != a and b != b) or abs(a - b) <= 1e-9 * max(abs(a), abs(b), 1e-300) for a, b in zip(kv, flat))
        how = "recorded" if same else "recorded-differs"
    parts = []
    for d, v, ks in zip(case["particles"], real["values"], chunks):
        kss = ";".join("-" if k != k else f2h(k) for k in ks)
        parts.append(",".join([f2h(d["x"]), f2h(d["y"]), f2h(d["z"]), f2h(v), str(nums[0]), str(nums[1]), str(nums[2]), kss]))
    grid = "z" if case.get("grid") is None else common.fl(case["grid"])
    line = "\t".join(["smear", enc_lattice(case["lattice"]), "1" if case["add"] else "0", grid, "|".join(parts) or "."])
    return line, chunks, how


GEN_ATTRS = ["x", "y", "z", "E", "charge", "baryon_number", "strangeness", "px", "py", "pz"]


def fx(v):
    return "-" if v != v else f2h(v)


def enc_gcase(case, real, chunks):
    """driver line for the GENERATED add_particle_data: the object as the constructor built it (extents, node counts,
    n_sigma), the call's arguments, the particles as the getters show them, the recorded pdf values"""
    ns = ",".join(f2h(float(v)) for v in (case["lattice"].get("n_sigma") or [3, 3, 3]))
    parts = []
    for seen, ks in zip(real["seen"], chunks):
        parts.append(",".join([fx(v) for v in seen] + [";".join(fx(k) for k in ks)]))
    grid = "z" if case.get("grid") is None else common.fl(case["grid"])
    return "\t".join(["gsmear", enc_lattice(case["lattice"]), ns, f2h(float(case["sigma"])), case["quantity"],
                      case["kernel"], "1" if case["add"] else "0", grid, "|".join(parts) or "."])


def compare_gen(case, real, out):
    """None when the generated function agrees with the real run, else a description"""
    if real["status"] != "ok":
        return None if out.startswith("err") else f"code raised {real['status']}, generated function answered {out[:60]}"
    if not out.startswith("ok "):
        return f"code returned a lattice, generated function answered {out[:60]}"
    g = common.parse_fl(out[3:])
    if len(g) != len(real["grid"]):
        return f"grid size: code {len(real['grid'])} generated {len(g)}"
    m = grid_scale(case, real, g)
    for idx, (a, b) in enumerate(zip(real["grid"], g)):
        if abs(a - b) > 1e-9 * m:
            return f"node {idx}: code {a!r} generated function {b!r} (scale {m!r})"
    return None


def grid_scale(case, real, g):
    """what the 1e-9 tolerance of a node-by-node comparison is relative to: the largest magnitude that enters the sums of
    the call - result, previous content, and the quantity per cell volume of a single particle (contributions of opposite
    sign may cancel to rounding noise, whose size depends on the order of summation, not on the result)"""
    m = max([1e-300] + [abs(x) for x in real["grid"]] + [abs(x) for x in g if x == x])
    if case.get("grid"):
        m = max(m, max(abs(x) for x in case["grid"]))
    vals = [abs(v) for v in (real.get("values") or []) if v == v and v != float("inf")]
    if vals and real["V"] > 0:
        m = max(m, max(vals) / real["V"])
    return m


# ------------------------------------------------------------------ generators
def gen_axis(rng, nmax):
    n = rng.randint(3, nmax)
    mode = rng.random()
    if mode < 0.35:      # dyadic spacing: node coordinates exact
        h = rng.choice([0.25, 0.5, 1.0, 2.0])
        lo = rng.randint(-12, 4) * h
        return [lo, lo + (n - 1) * h, n]
    if mode < 0.7:       # decimal extents: spacing not representable, edge nodes hit only up to rounding
        lo = rng.randint(-50, 20) / 10.0
        h = rng.choice([0.1, 0.2, 0.3, 0.6, 0.7, 1.1])
        return [lo, lo + round((n - 1) * h, 6), n]
    lo = rng.uniform(-6, 2)
    return [lo, lo + rng.uniform(0.5, 9.0), n]


def node(ax, i):
    return float(np.linspace(ax[0], ax[1], ax[2])[i])


def gen_coord(rng, ax, num, where):
    """a coordinate on axis `ax` whose closest node leaves the requested room for `num` nodes"""
    lo, hi, n = ax
    h = (hi - lo) / (n - 1)
    if where == "inside" and 2 * num + 1 <= n:
        i = rng.randint(num, n - 1 - num)
    elif where == "touch" and 2 * num + 1 <= n:
        i = rng.choice([num, n - 1 - num])
    elif where == "edge":
        i = rng.choice([0, n - 1, rng.randint(0, min(num, n - 1)), n - 1 - rng.randint(0, min(num, n - 1))])
    elif where == "outside":
        return lo - rng.uniform(0.6, 3) * h if rng.random() < 0.5 else hi + rng.uniform(0.6, 3) * h
    else:
        i = rng.randint(0, n - 1)
    if rng.random() < 0.3:
        return node(ax, i)                       # exactly on a node
    off = rng.uniform(-0.45, 0.45)
    if i == 0:
        off = abs(off)
    if i == n - 1:
        off = -abs(off)
    return lo + (i + off) * h


def gen_particle(rng, lat, sigma, kernel, quantity, where):
    axes = lat["axes"]
    ns = lat.get("n_sigma") or [3, 3, 3]
    d = {}
    for name, ax, s in zip("xyz", axes, ns):
        h = (ax[1] - ax[0]) / (ax[2] - 1)
        num = round(s * sigma / h)
        d[name] = gen_coord(rng, ax, num, where if rng.random() < 0.8 else "inside")
    d["E"] = rng.choice([0.5, 1.0, 2.0, 10.0, rng.uniform(0.1, 20)])
    d["mass"] = rng.choice([0.138, 0.938, 1.0, rng.uniform(0.1, 2)])
    d["px"], d["py"], d["pz"] = (rng.choice([0.0, rng.uniform(-2, 2)]) for _ in range(3))
    d["charge"] = rng.choice([-2, -1, 0, 1, 2])
    d["baryon_number"] = rng.choice([-1, 0, 1])
    d["strangeness"] = rng.choice([-3, -2, -1, 0, 1, 2, 3])
    return d


def gen_case(rng, nmax=9, maxnum=3, where=None, defects=True, maxnodes=400):
    """a random case; `where` in inside/touch/edge/outside/any"""
    for _ in range(500):
        lat = dict(axes=[gen_axis(rng, nmax) for _ in range(3)])
        if rng.random() < 0.6:
            lat["n_sigma"] = [rng.choice([0.5, 1, 1.5, 2, 3, 4]) for _ in range(3)]
        hs = [(a[1] - a[0]) / (a[2] - 1) for a in lat["axes"]]
        ns = lat.get("n_sigma") or [3, 3, 3]
        # aim at a half-width on the first axis, the other axes follow from their own spacing / n_sigma
        want = rng.choice([0, 1, 1, 1, 2, 2, 3])
        frac = rng.uniform(0.1, 0.45) if want == 0 else want + rng.uniform(-0.4, 0.4)
        sigma = frac * hs[0] / ns[0]
        nums = [round(s * sigma / h) for s, h in zip(ns, hs)]
        if max(nums) <= maxnum and (2 * nums[0] + 1) * (2 * nums[1] + 1) * (2 * nums[2] + 1) <= maxnodes:
            break
    kernel = rng.choice(["gaussian", "covariant"])
    quantity = rng.choice(QUANTITIES)
    w = where or rng.choice(["inside", "inside", "touch", "edge", "outside", "any"])
    np_ = rng.choice([0, 1, 1, 2, 2, 3, 4]) if where is None else rng.randint(1, 3)
    parts = [gen_particle(rng, lat, sigma, kernel, quantity, w) for _ in range(np_)]
    case = dict(lattice=lat, sigma=sigma, kernel=kernel, quantity=quantity, add=rng.random() < 0.4,
                particles=parts, where=w)
    if case["add"] and rng.random() < 0.8:
        size = lat["axes"][0][2] * lat["axes"][1][2] * lat["axes"][2][2]
        case["grid"] = [rng.randint(-8, 8) / 4.0 for _ in range(size)]
    elif rng.random() < 0.3:
        size = lat["axes"][0][2] * lat["axes"][1][2] * lat["axes"][2][2]
        case["grid"] = [rng.randint(-8, 8) / 4.0 for _ in range(size)]      # must be wiped by add=False
    if defects and kernel == "covariant" and parts and rng.random() < 0.12:
        # kernel undefined: unset pz / unset mass / massless
        d = rng.choice(parts)
        k = rng.choice(["pz", "mass", "massless"])
        if k == "massless":
            d["mass"] = 0.0
        else:
            d[k] = None
        case["nan_kernel"] = k
    return case


def gen_large_scale(rng):
    """spacing so large that the discrete kernel sum drops below 1e-15"""
    h = rng.choice([2e5, 5e5, 1e6])
    n = rng.choice([5, 7])
    lo = -h * (n - 1) / 2
    lat = dict(axes=[[lo, -lo, n]] * 3, n_sigma=[1, 1, 1])
    d = dict(x=0.0, y=0.0, z=0.0, E=1.0, mass=1.0, px=0.0, py=0.0, pz=0.0, charge=1, baryon_number=1, strangeness=0)
    return dict(lattice=lat, sigma=h * rng.choice([0.7, 1.0]), kernel="gaussian", quantity="energy_density", add=False,
                particles=[d], where="inside", large_scale=True)


# ------------------------------------------------------------------ structured generators
ZERO_LO = [-1.0, -2.5, -0.3, -0.7, -3.0, -1.1, -6.4]
POS_HI = [1.0, 2.5, 0.3, 0.7, 3.0, 1.1, 6.4]


def edge_axis(rng, n=None, kind=None):
    """an axis whose edges sit at awkward places: exactly 0.0 (upper or lower), negative / positive / spanning extents"""
    n = n or rng.randint(10, 26)
    kind = kind or rng.choice(["upper0", "upper0", "lower0", "lower0", "neg", "pos", "span"])
    if kind == "upper0":
        return [rng.choice(ZERO_LO), 0.0, n]
    if kind == "lower0":
        return [0.0, rng.choice(POS_HI), n]
    if kind == "neg":
        hi = -rng.choice([0.1, 0.4, 1.3, 2.2])
        return [hi - rng.choice(POS_HI), hi, n]
    if kind == "pos":
        lo = rng.choice([0.1, 0.4, 1.3, 2.2])
        return [lo, lo + rng.choice(POS_HI), n]
    return [rng.choice(ZERO_LO), rng.choice(POS_HI), n]


def _blank_particle(rng, simple=False):
    if simple:
        return dict(E=1.0, mass=1.0, px=0.0, py=0.0, pz=0.0, charge=1, baryon_number=1, strangeness=0)
    return dict(E=rng.choice([0.5, 1.0, 2.0, 7.0]), mass=rng.choice([0.138, 0.938, 1.0]),
                px=rng.choice([0.0, rng.uniform(-2, 2)]), py=rng.choice([0.0, rng.uniform(-2, 2)]),
                pz=rng.choice([0.0, rng.uniform(-2, 2)]), charge=rng.choice([-2, -1, 1, 2]),
                baryon_number=rng.choice([-1, 1]), strangeness=rng.choice([-3, -1, 1, 2]))


def _n_sigma_for(axes, nums, sigma):
    """n_sigma per axis such that round(n_sigma*sigma/spacing) is the wanted half-width"""
    out = []
    for ax, num in zip(axes, nums):
        h = (ax[1] - ax[0]) / (ax[2] - 1)
        out.append((num if num > 0 else 0.2) * h / sigma)
    return out


def _prefill(rng, axes):
    size = axes[0][2] * axes[1][2] * axes[2][2]
    return [rng.choice([-2.0, -0.75, 0.5, 1.25, 3.0]) for _ in range(size)]


def gen_edge_case(rng, axes=None, nums=None, ends=None, simple=False):
    """supports that end EXACTLY on the lower / upper edge node of an axis: particles sit on (or next to)
    node `num` / `n-1-num`, on lattices with an edge at 0.0 or at negative / positive extents, 10..26 nodes on one axis"""
    if axes is None:
        big = rng.randrange(3)
        if rng.random() < 0.25:
            n = rng.randint(10, 16)
            a = edge_axis(rng, n)
            axes = [list(a), list(a), list(a)]                   # cube, same awkward axis three times
        else:
            axes = [edge_axis(rng, None if k == big else rng.randint(3, 7)) for k in range(3)]
    if nums is None:
        nums = [rng.choice([0, 1, 1, 2]) for _ in range(3)]
        nums = [min(num, (ax[2] - 1) // 2) for num, ax in zip(nums, axes)]
        if max(nums) == 0:
            nums[rng.randrange(3)] = 1
    hs = [(ax[1] - ax[0]) / (ax[2] - 1) for ax in axes]
    sigma = hs[0] * rng.choice([0.5, 1.0, 1.0, 2.0])
    lat = dict(axes=axes, n_sigma=_n_sigma_for(axes, nums, sigma))
    npart = 1 if simple else rng.choice([1, 1, 2, 3])
    parts = []
    for _ in range(npart):
        d = _blank_particle(rng, simple)
        for k, (name, ax, num) in enumerate(zip("xyz", axes, nums)):
            end = ends[k] if ends else rng.choice(["lower", "upper", "upper", "lower", "interior"])
            n = ax[2]
            ci = num if end == "lower" else (n - 1 - num if end == "upper" else rng.randint(num, n - 1 - num))
            x = node(ax, ci)
            if not simple and rng.random() < 0.3:
                x += rng.uniform(-0.4, 0.4) * hs[k] * (0.0 if (ci == 0 or ci == n - 1) else 1.0)
            d[name] = x
        parts.append(d)
    case = dict(lattice=lat, sigma=sigma, kernel="gaussian" if simple else rng.choice(["gaussian", "covariant"]),
                quantity="energy_density" if simple else rng.choice(QUANTITIES), add=False, particles=parts,
                where="touch", family="edge-exact")
    if not simple and rng.random() < 0.4:
        case["add"] = rng.random() < 0.7
        case["grid"] = _prefill(rng, axes)
    return case


def zero_edge_sweep(rng, full):
    """lattices with an edge exactly at 0.0, every node count 10..26, the support ending exactly on the lower and on
    the upper edge node, on each axis in turn (thorough) or on all three at once (quick)"""
    out = []
    los = ZERO_LO[:3] if full else [ZERO_LO[0], rng.choice(ZERO_LO[1:])]
    for lo in los:
        for n in range(10, 27):
            for kind in ("upper0", "lower0"):
                ax = [lo, 0.0, n] if kind == "upper0" else [0.0, -lo, n]
                for num in ([1, 2] if full else [1 + (n % 2)]):
                    for end in ("upper", "lower"):
                        if full:
                            for pos in range(3):
                                axes = [[-1.5, 2.5, 5], [0.5, 2.5, 4], [-4.0, -1.0, 4]]
                                axes[pos] = list(ax)
                                nums = [0, 0, 0]
                                nums[pos] = num
                                ends = ["interior"] * 3
                                ends[pos] = end
                                out.append(gen_edge_case(rng, axes, nums, ends, simple=True))
                        if not full or n <= 14:
                            out.append(gen_edge_case(rng, [list(ax), list(ax), list(ax)], [num] * 3, [end] * 3, simple=True))
    for c in out:
        c["family"] = "zero-edge-sweep"
    return out


def gen_collapsed_case(rng):
    """kernel much narrower than the spacing (num = 0 on every axis): every particle goes to its closest node;
    several particles share a closest node, often on top of non-empty content (add=True)"""
    axes = [gen_axis(rng, 7) if rng.random() < 0.5 else edge_axis(rng, rng.randint(3, 8)) for _ in range(3)]
    hs = [(ax[1] - ax[0]) / (ax[2] - 1) for ax in axes]
    lat = dict(axes=axes)
    if rng.random() < 0.5:
        lat["n_sigma"] = [rng.choice([0.5, 1, 2, 3]) for _ in range(3)]
    ns = lat.get("n_sigma") or [3, 3, 3]
    sigma = rng.choice([0.02, 0.05, 0.1, 0.15]) * min(h / s for h, s in zip(hs, ns))
    nodes = [[rng.randint(0, ax[2] - 1) for ax in axes] for _ in range(rng.choice([1, 1, 2]))]
    parts = []
    for _ in range(rng.choice([2, 2, 3, 4])):
        d = _blank_particle(rng)
        nd = rng.choice(nodes)
        for name, ax, h, ci in zip("xyz", axes, hs, nd):
            x = node(ax, ci)
            if rng.random() < 0.6:
                off = rng.uniform(-0.4, 0.4) * h
                if (ci == 0 and off < 0) or (ci == ax[2] - 1 and off > 0):
                    off = -off
                x += off
            d[name] = x
        parts.append(d)
    case = dict(lattice=lat, sigma=sigma, kernel=rng.choice(["gaussian", "covariant"]), quantity=rng.choice(QUANTITIES),
                add=rng.random() < 0.6, particles=parts, where="inside", family="collapsed-shared-node")
    if case["add"] or rng.random() < 0.3:
        case["grid"] = _prefill(rng, axes)
    return case


def canon(case):
    return json.dumps({k: case[k] for k in ("lattice", "sigma", "kernel", "quantity", "add", "particles")} |
                      {"grid": case.get("grid"), "form": case.get("form", "kw"), "dev": dev_tag(case)}, sort_keys=True)


# ------------------------------------------------------------------ independent reference for the oracle
def ref_support(case):
    """per particle: True when the nodes closest-num .. closest+num exist on every axis
    (closest node by rounding the coordinate, not by the code's or the model's search)"""
    lat = case["lattice"]
    ns = lat.get("n_sigma") or [3, 3, 3]
    res = []
    for d in case["particles"]:
        inside = True
        for name, ax, s in zip("xyz", lat["axes"], ns):
            lo, hi, n = ax
            h = (hi - lo) / (n - 1)
            num = round(s * case["sigma"] / h)
            q = (d[name] - lo) / h
            if d[name] < lo or d[name] > hi:
                inside = False        # particle itself outside the lattice: only the <= statement applies
            c = min(max(int(math.floor(q + 0.5)), 0), n - 1)
            # ambiguous half-way points: ask for room around both candidates
            cands = {c}
            if abs((q + 0.5) - round(q + 0.5)) < 1e-6:
                cands |= {min(max(c - 1, 0), n - 1), min(max(c + 1, 0), n - 1)}
            for c_ in cands:
                if c_ - num < 0 or c_ + num > n - 1:
                    inside = False
        res.append(inside)
    return res


def kernel_defined(case):
    """False when the covariant kernel is undefined for some particle (unset momentum / mass, massless)"""
    if case["kernel"] != "covariant":
        return True
    for d in case["particles"]:
        if any(d.get(k) is None for k in ("px", "py", "pz", "mass")) or d.get("mass") == 0:
            return False
    return True


def judge_totals(case, real):
    """conservation / clipping clauses on the outcome `real` of one call whose previous content was case["grid"]"""
    out = []
    V = real["V"]
    vals = real["values"]
    if real["status"] != "ok":
        if not kernel_defined(case):
            return []            # raising is the accepted answer for an undefined kernel
        return [("raises-on-valid-input", f"add_particle_data raised {real['status']} on a valid input "
                 f"(call form {case.get('form', 'kw')}, {', '.join(dev_tag(case)) or 'plain list, no copies'})", dict(status=real["status"]))]
    for what in real.get("env_changed") or []:
        out.append(("environment-changed/" + what, f"the call did not leave `{what}` as it found it (cwd / numpy print options / "
                    f"np.geterr() / global random states / files in the working directory are not the call's to change)",
                    dict(changed=real["env_changed"])))
    old = case.get("grid")
    base = math.fsum(old) if (case["add"] and old is not None) else 0.0
    dep = (math.fsum(real["grid"]) - base) * V
    want = math.fsum(vals)
    scale = max(1.0, sum(abs(v) for v in vals), abs(base) * V)
    inside = ref_support(case)
    if not kernel_defined(case):
        return [("covariant-nan-kernel-dropped",
                 f"covariant kernel undefined ({case.get('nan_kernel')}) for a particle: the call neither raised nor "
                 f"deposited the quantity (deposited {dep!r}, quantities {vals})", dict(deposited=dep, expected=want))]
    if all(inside):
        if abs(dep - want) > 1e-7 * scale:
            key = "not-conserved-inside"
            if case.get("large_scale"):
                key = "not-conserved-inside/spacing-above-1e5"
            elif touches_edge(case):
                key = "not-conserved-inside/support-ends-on-edge-node"
            elif shares_node(case):
                key = "not-conserved-inside/particles-share-closest-node"
            out.append((key, f"all supports inside but sum(grid)*cell_volume - old content = {dep!r} != sum of quantities {want!r}",
                        dict(deposited=dep, expected=want)))
    elif all(v >= 0 for v in vals):
        if dep > want + 1e-7 * scale or dep < -1e-7 * scale:
            out.append(("clipped-exceeds", f"non-negative quantities, clipped support: deposited {dep!r} not within [0, {want!r}]",
                        dict(deposited=dep, expected_max=want)))
    return out


def judge_content(case, real, fresh):
    """add=True accumulates / add=False starts from zero: node by node against old content (+) the smear `fresh` of the
    same particles on an empty lattice"""
    old = case.get("grid")
    if old is None:
        old = [0.0] * len(real["grid"])
    exp = [(o if case["add"] else 0.0) + f for o, f in zip(old, fresh["grid"])]
    m = max(1.0, max(abs(e) for e in exp))
    for idx, (a, b) in enumerate(zip(real["grid"], exp)):
        if abs(a - b) > 1e-9 * m:
            return [("add-accumulates" if case["add"] else "no-add-resets",
                     f"add={case['add']} (call form {case.get('form', 'kw')}): node {idx} holds {a!r}, expected {b!r} "
                     f"(old content {'+' if case['add'] else 'ignored,'} fresh smear)",
                     dict(node=idx, observed=a, expected=b))]
    return []


def oracle_all(case):
    """Property C16 on the REAL code, every clause evaluated. Returns a list of (key, what, detail)."""
    real = run_real(case, record=False)
    out = judge_totals(case, real)
    if real["status"] != "ok" or not kernel_defined(case):
        return out
    old = case.get("grid")
    # add=False starts from zero / add=True accumulates: compare node by node with a run on an empty lattice
    # (an add=True call without previous content is judged too: the call form may mis-bind `add`)
    if old is not None or case["add"] or case.get("form") not in (None, "kw") or dev_tag(case):
        fresh = run_real(plain(case, grid=None, add=False), record=False)
        out.extend(judge_content(case, real, fresh))
    # order independence: reversed, rotated by one, and (>= 3 particles) first two swapped
    ps = case["particles"]
    if len(ps) >= 2:
        perms = [("reversed", list(reversed(ps))), ("rotated", ps[1:] + ps[:1])]
        if len(ps) >= 3:
            perms.append(("first two swapped", [ps[1], ps[0]] + ps[2:]))
        m = max(1.0, max(abs(e) for e in real["grid"]))
        done = False
        for name, pp in perms:
            if pp == ps or done:
                continue
            r2 = run_real(dict(case, particles=pp), record=False)
            for idx, (a, b) in enumerate(zip(real["grid"], r2["grid"])):
                if abs(a - b) > 1e-9 * m:
                    out.append(("order-dependent", f"particle list {name}: node {idx} changes from {a!r} to {b!r}",
                                dict(node=idx, a=a, b=b, permutation=name)))
                    done = True
                    break
    return out


def oracle_check(case, key=None):
    """first finding (or the one with the given key), None when the property holds on this input"""
    for r in oracle_all(case):
        if key is None or r[0] == key:
            return r
    return None


def blame(case, key, still):
    """which device of the call makes `key` appear: the first one whose removal makes it disappear names the finding
    (`still(case')` = is the key still found for case'); none -> the plain key"""
    d = case.get("dev") or {}
    for name in ("container", "copy_lattice", "copy_parts", "argtypes", "env"):
        if d.get(name) not in (None, False, "list"):
            if not still(dict(case, dev={k: v for k, v in d.items() if k != name})):
                return f"{name.replace('_', '-')}-{d[name]}/{key}"
    if case.get("form") not in (None, "kw") and not still(dict(case, form="kw")):
        return f"call-form-{case['form']}/{key}"      # the plain keyword call is fine: the call form matters
    return key


def closest_nodes(case):
    lat = case["lattice"]
    res = []
    for d in case["particles"]:
        idx = []
        for name, ax in zip("xyz", lat["axes"]):
            lo, hi, n = ax
            h = (hi - lo) / (n - 1)
            idx.append(min(max(int(math.floor((d[name] - lo) / h + 0.5)), 0), n - 1))
        res.append(tuple(idx))
    return res


def shares_node(case):
    c = closest_nodes(case)
    return len(set(c)) < len(c)


def touches_edge(case):
    lat = case["lattice"]
    ns = lat.get("n_sigma") or [3, 3, 3]
    for d in case["particles"]:
        for name, ax, s in zip("xyz", lat["axes"], ns):
            lo, hi, n = ax
            h = (hi - lo) / (n - 1)
            num = round(s * case["sigma"] / h)
            c = min(max(int(math.floor((d[name] - lo) / h + 0.5)), 0), n - 1)
            if c - num == 0 or c + num == n - 1:
                return True
    return False


# ------------------------------------------------------------------ sessions: one long-lived lattice, failing calls in between
BAD_KINDS = ["nan-coordinate", "missing-quantity", "massless", "no-momentum", "bad-kernel", "bad-quantity", "bad-sigma"]
# what the generated function can be asked about (an invalid sigma makes scipy / round raise, which it does not model)
GEN_EXPRESSIBLE = {"nan-coordinate", "missing-quantity", "massless", "no-momentum", "bad-kernel", "bad-quantity"}


def gen_step(rng, lat, sigmas, bad=None):
    """one call of a session; `bad` = the way it is made invalid (it must then raise), at a random position of the list"""
    kernel = rng.choice(["gaussian", "covariant"])
    quantity = rng.choice(QUANTITIES)
    if bad in ("massless", "no-momentum"):
        kernel = "covariant"
    if bad == "missing-quantity":
        quantity = rng.choice([q for q in QUANTITIES if q in ATTR])
    sigma = rng.choice(sigmas)
    n = rng.choice([1, 2, 2, 3]) if bad is None else rng.choice([1, 2, 3, 4])
    where = rng.choice(["inside", "inside", "touch", "edge", "any"])
    parts = [gen_particle(rng, lat, sigma, kernel, quantity, where) for _ in range(n)]
    step = dict(sigma=sigma, kernel=kernel, quantity=quantity, add=rng.random() < 0.5, particles=parts,
                form=rng.choice(FORMS), dev=gen_devices(rng), expect="ok", bad=None)
    if bad is None:
        return step
    step["expect"], step["bad"] = "raise", bad
    pos = rng.choice([0, n // 2, n - 1])
    step["bad_pos"] = pos
    d = parts[pos]
    if bad == "nan-coordinate":
        d[rng.choice("xyz")] = float("nan")
    elif bad == "missing-quantity":
        d[ATTR[quantity]] = None
    elif bad == "massless":
        d["mass"] = 0.0
    elif bad == "no-momentum":
        d[rng.choice(["px", "py", "pz"])] = None
    elif bad == "bad-kernel":
        step["kernel"] = rng.choice(["Gaussian", "gauss", "", "covariant ", "lorentz"])
    elif bad == "bad-quantity":
        step["quantity"] = rng.choice(["energy", "Energy_density", "", "number", "charge"])
    elif bad == "bad-sigma":
        step["sigma"] = rng.choice([float("nan"), 0.0])
    return step


def gen_session(rng, nmax=7):
    """a history of calls on ONE lattice object: valid calls (add or not, any call form) interleaved with calls that must
    raise at different points of their particle list; every failing call is followed by at least one valid call"""
    for _ in range(200):
        lat = dict(axes=[gen_axis(rng, nmax) for _ in range(3)])
        if rng.random() < 0.5:
            lat["n_sigma"] = [rng.choice([0.5, 1, 1.5, 2, 3]) for _ in range(3)]
        hs = [(a[1] - a[0]) / (a[2] - 1) for a in lat["axes"]]
        ns = lat.get("n_sigma") or [3, 3, 3]
        sigmas = []
        for want in (rng.choice([1, 1, 2]), rng.choice([0, 1])):
            frac = rng.uniform(0.1, 0.45) if want == 0 else want + rng.uniform(-0.4, 0.4)
            sigmas.append(frac * hs[0] / ns[0])
        ok = True
        for sg in sigmas:
            nums = [round(s_ * sg / h) for s_, h in zip(ns, hs)]
            if max(nums) > 2 or (2 * nums[0] + 1) * (2 * nums[1] + 1) * (2 * nums[2] + 1) > 125:
                ok = False
        if ok:
            break
    steps = []
    if rng.random() < 0.6:
        steps.append(gen_step(rng, lat, sigmas))
    for _ in range(rng.choice([1, 1, 2, 3])):
        steps.append(gen_step(rng, lat, sigmas, bad=rng.choice(BAD_KINDS)))
        for _ in range(rng.choice([1, 1, 2])):
            steps.append(gen_step(rng, lat, sigmas))
    sess = dict(lattice=lat, steps=steps, family="session")
    if rng.random() < 0.4:
        sess["grid"] = _prefill(rng, lat["axes"])
    return sess


def step_case(sess, step, pre):
    """the call `step` as a single-call case whose previous content is `pre`"""
    c = dict(lattice=sess["lattice"], grid=list(pre), where="any", family="session")
    c.update({k: step[k] for k in ("sigma", "kernel", "quantity", "add", "particles", "form")})
    c["dev"] = step.get("dev") or {}
    if step.get("bad") in ("massless", "no-momentum"):
        c["nan_kernel"] = step["bad"]
    return c


def run_session(sess, record=False):
    """runs the history on one object; -> per step dict(case, real, pre) (`pre` = content observed before the call)"""
    lat = make_lattice(sess["lattice"])
    if sess.get("grid") is not None:
        lat.grid_[...] = np.array(sess["grid"], dtype=float).reshape(lat.grid_.shape)
    out = []
    for step in sess["steps"]:
        pre = [float(v) for v in lat.grid_.flatten()]
        case = step_case(sess, step, pre)
        real = run_real(case, record=record, lattice=lat)
        lat = real["lattice"]      # the object the call was made on (a copy of the previous one when the step says so)
        out.append(dict(case=case, real=real, pre=pre, step=step))
    return out


def judge_step(case, real):
    """what the property says about ONE valid call, given the content observed before it: totals, and node by node old
    content (+) the smear of the same particles on a new empty lattice (plain keyword call)"""
    out = judge_totals(case, real)
    if real["status"] == "ok" and kernel_defined(case):
        fresh = run_real(plain(case, grid=None, add=False), record=False)
        if fresh["status"] == "ok":
            out.extend(judge_content(case, real, fresh))
    return out


def classify(sess, idx, rec, finding):
    """where a failing step of a session comes from: the history of the object, the call form, or the call itself"""
    key = finding[0]
    case = rec["case"]
    alone = run_real(case, record=False)                       # same call, same form, new object holding the same content
    if key not in [f[0] for f in judge_step(case, alone)]:
        after_error = any(r["real"]["status"] != "ok" for r in sess["_run"][:idx])
        return ("instance-reuse-after-error-" if after_error else "instance-reuse-") + key
    return blame(case, key, lambda c2: key in [f[0] for f in judge_step(c2, run_real(c2, record=False))])


def oracle_session(sess):
    """Property C16 along a history on one object. A call that raises is not judged itself (the property is about calls that
    return; the code under test is not required to be atomic, and is not: `add=False` wipes before it validates) - but it must
    not influence what the later valid calls do: every valid call is judged against the content OBSERVED before it.
    -> list of (key, what, detail, index of the step)"""
    run = run_session(sess)
    sess["_run"] = run
    out = []
    for idx, rec in enumerate(run):
        if rec["step"]["expect"] != "ok":
            continue
        for f in judge_step(rec["case"], rec["real"]):
            key = classify(sess, idx, rec, f)
            hist = ", ".join(f"{i}:{'raised' if r['real']['status'] != 'ok' else 'ok'}" for i, r in enumerate(run[:idx]))
            out.append((key, f"step {idx} of a history on one lattice [{hist}]: " + f[1], f[2], idx))
        if out:
            break
    sess.pop("_run", None)
    return out


def shrink_session(sess, key):
    """smallest history that still shows `key` at its last step"""
    def bad(s):
        return any(f[0] == key for f in oracle_session(s))
    fs = [f for f in oracle_session(sess) if f[0] == key]
    if not fs:
        return sess
    cur = dict(sess, steps=list(sess["steps"][:fs[0][3] + 1]))
    changed = True
    while changed:
        changed = False
        for i in range(len(cur["steps"]) - 1):
            cand = dict(cur, steps=cur["steps"][:i] + cur["steps"][i + 1:])
            if bad(cand):
                cur, changed = cand, True
                break
        if changed:
            continue
        for i, st in enumerate(cur["steps"]):
            if len(st["particles"]) > 1:
                for j in range(len(st["particles"])):
                    if st.get("bad_pos") == j:
                        continue
                    st2 = dict(st, particles=st["particles"][:j] + st["particles"][j + 1:])
                    if st.get("bad_pos") is not None and j < st["bad_pos"]:
                        st2["bad_pos"] = st["bad_pos"] - 1
                    cand = dict(cur, steps=cur["steps"][:i] + [st2] + cur["steps"][i + 1:])
                    if bad(cand):
                        cur, changed = cand, True
                        break
            if changed:
                break
        if not changed and cur.get("grid") is not None:
            cand = dict(cur, grid=None)
            if bad(cand):
                cur, changed = cand, True
    return cur


def canon_session(sess):
    return json.dumps(dict(lattice=sess["lattice"], grid=sess.get("grid"),
                           steps=[{k: st.get(k) for k in ("sigma", "kernel", "quantity", "add", "particles", "form", "dev", "expect")}
                                  for st in sess["steps"]]), sort_keys=True)


def run_driver_sharded(lines, shards=8):
    """the Lean driver on several processes (the interpreter is the slow part of the correspondence)"""
    if len(lines) < 4 * shards:
        return common.run_driver("C16", lines)
    from concurrent.futures import ThreadPoolExecutor
    idx = [list(range(k, len(lines), shards)) for k in range(shards)]
    with ThreadPoolExecutor(max_workers=shards) as ex:
        res = list(ex.map(lambda ix: common.run_driver("C16", [lines[i] for i in ix]), idx))
    out = [None] * len(lines)
    for ix, r in zip(idx, res):
        for i, o in zip(ix, r):
            out[i] = o
    return out


# ------------------------------------------------------------------ correspondence (tie C)
def compare(case, real, out):
    """None when the driver answer agrees with the real run, else a description"""
    if real["status"] != "ok":
        return None if out.startswith("err") else f"code raised {real['status']}, model answered {out[:60]}"
    if not out.startswith("ok "):
        return f"code returned a lattice, model answered {out[:60]}"
    _, tags, v, grid = out.split(" ")
    if not common.close(h2f(v), real["V"], rel=1e-12):
        return f"cell volume: code {real['V']!r} model {h2f(v)!r}"
    g = common.parse_fl(grid)
    if len(g) != len(real["grid"]):
        return f"grid size: code {len(real['grid'])} model {len(g)}"
    m = grid_scale(case, real, g)
    for idx, (a, b) in enumerate(zip(real["grid"], g)):
        if abs(a - b) > 1e-9 * m:
            return f"node {idx}: code {a!r} model {b!r} (scale {m!r})"
    return None


def check_contract(ctx, case, real, chunks):
    """what the theorems assume about the supplied parameters"""
    for ks in chunks:
        for k in ks:
            if k == k and k < 0:
                ctx.brk("correspondence-broken", f"contract: kernel value {k!r} < 0", case=case)
                return
    for name, ax in zip("xyz", case["lattice"]["axes"]):
        xs = np.linspace(ax[0], ax[1], ax[2])
        if not (np.all(np.diff(xs) > 0) and xs[0] == ax[0] and xs[-1] == ax[1]):
            ctx.brk("correspondence-broken", f"contract: np.linspace{tuple(ax)} ({name} axis) not increasing from min to max", case=case)


ASSUMPTIONS = [
    "C16: kernel values (scipy multivariate_normal.pdf, Gaussian and covariant formula) are a parameter of the model; the "
    "harness computes them itself (its own batched scipy call on the stencil the model defines, in the order the model consumes "
    "them) and checks them to be >= 0 or NaN; the correspondence does not depend on HOW the code under test evaluates the kernel "
    "(per node, batched, closed form). Where the code is seen to make one scipy pdf evaluation per stencil node in that order, "
    "the observed values are compared with the harness's (histogram kernel-recorded / kernel-recorded-differs / "
    "kernel-recomputed); the observation never changes a call and its absence breaks nothing",
    "C16: num = round(n_sigma*sigma/spacing) (Python round on a numpy double) is a parameter, computed by the harness from the "
    "case itself (n_sigma argument or 3, spacing = np.linspace(lo, hi, n)[1] - [0])",
    "C16: np.linspace is modelled (arange*step+start, last entry = stop) and compared bit for bit with numpy on every axis used; "
    "np.argmin = first minimum; np.linspace(lo, hi, n) increasing from lo to hi (checked per case on numpy itself)",
    "C16: theorems are over an exact ordered field; with IEEE doubles node positions are hit only up to rounding - the repaired "
    "code absorbs that with a tolerance of 1e-9 spacing, the correspondence runs the same comparisons at Float",
    "C16: the branch `np.isnan(value_to_add) -> 0.0` is only reachable with a NaN kernel value or non-finite quantity; "
    "after the repair a NaN kernel raises (model: none); non-finite quantities are outside the generated domain",    "C16 tie T: the translator (harness/translate/smear.py) is trusted to render Python faithfully; beyond plain statement-by-"
    "statement compilation it (a) keeps pure locals symbolic, (b) writes binary + and * of two numbers in one canonical operand "
    "order (bit-for-bit commutative in IEEE arithmetic), (c) renders three directly nested range loops as the np.ndindex fold over "
    "the same triples, (d) renders a float literal as the ratio of two naturals < 2^53 read off its decimal form, (e) treats the "
    "arguments of multivariate_normal(...) / .pdf(...) and locals feeding only them as opaque: every .pdf call takes the next "
    "recorded value of the particle's table; the generated function is itself run at Float against the real code (gsmear)",
    "C16 tie T: gen_eq_model is over an ordered field with isnan constantly false (there is no NaN in a field); what the code does "
    "on NaN coordinates / quantities / momenta / kernel values (raise ValueError) is only compared at Float; unknown quantity or "
    "kernel names and a negative round() are outside the hypotheses (the generated function answers err there, compared at Float "
    "when generated); the object must be one built by the constructor (derived attributes as __init__ computes them)",
]


def correspond(ctx):
    rng = ctx.rng
    ctx.assumptions.extend(ASSUMPTIONS)
    ctx.rule = ("structured families: lattices with an edge exactly at 0.0 / negative / positive extents, 10..26 nodes, supports "
                "ending exactly on the lower or upper edge node of each axis; kernels narrower than the spacing with several "
                "particles on one closest node and add=True on non-empty content; plus "
                "random lattices (3..9 nodes per axis, up to 21 in a few cases; dyadic / decimal / irregular extents), "
                "0-4 particles placed well inside / support touching the edge node / near the edge / outside, both kernels, "
                "all five quantities, several sigma and n_sigma, add on pre-filled lattices; non-trivial = at least one "
                "particle whose temporary lattice has more than one node (num > 0 on some axis), or particles sharing a closest "
                "node, or add=True on non-empty content; distinct by canonical input; every call in one of nine equivalent documented "
                "call forms (keywords / positional prefixes of particle_data, sigma, quantity, kernel, add / defaults omitted); "
                "histories on one long-lived lattice: valid calls interleaved with calls that raise (NaN coordinate, missing "
                "quantity, massless / momentum-less particle for the covariant kernel at first / middle / last position, unknown "
                "kernel / quantity name, sigma NaN or 0), every valid call judged against the content observed before it; devices "
                "chosen at random per call: particle_data as list / list subclass / tuple / numpy object array / generator / "
                "iter(list) / map / filter (the latter six only where a probe call of the code under test accepts them - the "
                "docs say 'a list'; see device-admissible/-rejected in the histogram), lattice and particles replaced by their "
                "copy.copy / copy.deepcopy / pickle round trip before the call (in histories: the long-lived object is swapped "
                "for its copy), sigma as numpy double, names as numpy str / str subclass, add as numpy bool, and an altered "
                "environment (fresh empty cwd, numpy print options, np.seterr(all='warn'), advanced random / np.random states) "
                "which the call must leave as found and must not depend on; the API takes no file names and no free text, so "
                "the text devices (CRLF, non-ASCII, trailing blanks) do not apply: 'gaussian ' is an unknown kernel and must raise")
    for k_, ok_ in admissible().items():
        ctx.count(("device-admissible/" if ok_ else "device-rejected/") + k_)
    cases = []
    for c in corpus():
        if "session" not in c:
            cases.append(c)
    ze = zero_edge_sweep(rng, False)
    cases.extend(ze if ctx.thorough else rng.sample(ze, 24))
    cases.extend(gen_edge_case(rng) for _ in range(ctx.n(30, 500)))
    cases.extend(gen_collapsed_case(rng) for _ in range(ctx.n(24, 400)))
    n = ctx.n(120, 3000)
    for i in range(n):
        if i % 12 == 11:
            cases.append(gen_large_scale(rng))
        elif i % 12 == 5:
            cases.append(gen_case(rng, nmax=21 if i % 24 == 5 else 13, maxnum=3, maxnodes=729))
        else:
            cases.append(gen_case(rng))
    # linspace / closest contract of the model against numpy and the real lookup
    lin_lines, lin_meta = [], []
    for c in cases[: ctx.n(12, 60)]:
        for ax in c["lattice"]["axes"]:
            lin_lines.append(f"lin\t{f2h(ax[0])}\t{f2h(ax[1])}\t{ax[2]}")
            lin_meta.append(("lin", ax))
        for d in c["particles"][:1]:
            ax = c["lattice"]["axes"][0]
            lin_lines.append(f"closest\t{f2h(ax[0])},{f2h(ax[1])},{ax[2]}\t{f2h(d['x'])}")
            lin_meta.append(("closest", c, d))
    reals, lines, metas, glines = [], [], [], []
    for c in cases:
        pick_form(rng, c)
        ctx.count("call-form/" + c["form"])
        for t in dev_tag(c):
            ctx.count("device/" + t)
        real = run_real(c)
        line, chunks, how = enc_case(c, real)
        check_contract(ctx, c, real, chunks)
        reals.append(real)
        lines.append(line)
        glines.append(enc_gcase(c, real, chunks))
        metas.append(how)
    # histories on one long-lived object: every call (valid or raising) against model and generated function, started
    # from the content observed before the call
    s_items, s_lines = [], []
    for _ in range(ctx.n(10, 160)):
        sess = gen_session(rng)
        run = run_session(sess, record=True)
        ctx.case(("session", canon_session(sess)), any(r["real"]["status"] != "ok" for r in run[:-1]))
        ctx.count("family/session")
        ctx.count("session/steps", len(run))
        for rec in run:
            c, real, step = rec["case"], rec["real"], rec["step"]
            ctx.count("session-step/" + (step["bad"] or "valid") + ("" if step["bad"] is None else f"@{'first' if step['bad_pos'] == 0 else 'last' if step['bad_pos'] == len(step['particles']) - 1 else 'middle'}"))
            ctx.count("call-form/" + c["form"])
            for t in dev_tag(c):
                ctx.count("device/" + t)
            ctx.count("session-step/" + ("raised" if real["status"] != "ok" else "returned"))
            if None in real["nums"] or real["values"] is None and step["bad"] != "bad-quantity":
                continue
            send_model = step["bad"] is None or step["bad"] in ("massless", "no-momentum")
            send_gen = step["bad"] is None or step["bad"] in GEN_EXPRESSIBLE
            if real["values"] is None:
                real = dict(real, values=[float("nan")] * len(c["particles"]))
                send_model = False
            try:
                line, chunks, how = enc_case(c, real)
                gline = enc_gcase(c, real, chunks)
            except Exception:
                continue
            if step["bad"] is None:
                check_contract(ctx, c, real, chunks)
                ctx.count("kernel-" + how)
            if send_model:
                s_items.append(("model", c, real))
                s_lines.append(line)
            if send_gen:
                s_items.append(("gen", c, real))
                s_lines.append(gline)
    outs = run_driver_sharded(lin_lines + lines + glines + s_lines)
    souts = outs[len(lin_lines) + len(lines) + len(glines):]
    gouts = outs[len(lin_lines) + len(lines):len(lin_lines) + len(lines) + len(glines)]
    outs = outs[:len(lin_lines) + len(lines)]
    for (which, c, real), out in zip(s_items, souts):
        ctx.count(f"session-{which}/" + ("raises" if out.startswith("err") else "ok" if out.startswith("ok") else "bad-op"))
        bad = compare(c, real, out) if which == "model" else compare_gen(c, real, out)
        if bad:
            ctx.brk("correspondence-broken", f"history on one object, {'hand model' if which == 'model' else 'generated function'}: " + bad,
                    case={k: v for k, v in c.items() if k != "grid"})
    for (meta, out) in zip(lin_meta, outs[:len(lin_lines)]):
        if meta[0] == "lin":
            ax = meta[1]
            want = list(np.linspace(ax[0], ax[1], ax[2]))
            got = common.parse_fl(out[3:]) if out.startswith("ok ") else None
            ctx.count("lin")
            if got != [float(w) for w in want]:
                ctx.brk("correspondence-broken", f"linspace{tuple(ax)}: numpy {want} model {out[:200]}", case=dict(axis=ax))
        else:
            _, c, d = meta
            lat = make_lattice(c["lattice"])
            want = lat.find_closest_indices(d["x"], d["y"], d["z"])[0]
            ctx.count("closest")
            if out != f"ok {want}":
                ctx.brk("correspondence-broken", f"find_closest_indices x={d['x']!r}: code {want} model {out}", case=c)
    for c, real, how, out in zip(cases, reals, metas, outs[len(lin_lines):]):
        nums = real["nums"]
        tags = out.split(" ")[1] if out.startswith("ok ") else "err"
        nontriv = bool(c["particles"]) and (max(nums) > 0 or shares_node(c) or (c["add"] and c.get("grid") is not None))
        ctx.case(canon(c), nontriv, sample=dict(lattice=c["lattice"], sigma=c["sigma"], kernel=c["kernel"],
                                                quantity=c["quantity"], add=c["add"], particles=c["particles"],
                                                code_total=math.fsum(real["grid"]) * real["V"], model=out[:80]))
        ctx.count(f"{c['kernel']}/{c['quantity']}")
        ctx.count("family/" + c.get("family", "random"))
        if shares_node(c):
            ctx.count("particles-share-closest-node")
        for ax in c["lattice"]["axes"]:
            if ax[1] == 0.0:
                ctx.count("axis-upper-edge-0.0")
            if ax[0] == 0.0:
                ctx.count("axis-lower-edge-0.0")
        ctx.count(f"particles={len(c['particles'])}")
        ctx.count(f"num={max(nums)}")
        ctx.count("add" if c["add"] else ("reset-prefilled" if c.get("grid") else "reset"))
        ctx.count("kernel-" + how)
        for t in tags if tags not in (".", "err") else [tags]:
            ctx.count({"i": "support-inside", "c": "support-clipped", ".": "no-particles", "err": "raises"}[t])
        bad = compare(c, real, out)
        if bad:
            ctx.brk("correspondence-broken", bad, case={k: v for k, v in c.items() if k != "grid"})
    for c, real, gout in zip(cases, reals, gouts):
        ctx.count("generated/" + ("raises" if gout.startswith("err") else "ok" if gout.startswith("ok") else "bad-op"))
        bad = compare_gen(c, real, gout)
        if bad:
            ctx.brk("correspondence-broken", "generated add_particle_data (Gen/Smear.lean): " + bad,
                    case={k: v for k, v in c.items() if k != "grid"})


# ------------------------------------------------------------------ search on the real code
def search(ctx, budget_s):
    rng = ctx.rng
    t0 = time.time()
    n = 0
    found = set()

    def one(case):
        nonlocal n
        n += 1
        pick_form(rng, case)
        rs = oracle_all(case)
        ctx.case(("oracle", canon(case)), bool(case["particles"]))
        ctx.count("oracle/" + case.get("family", "random"))
        ctx.count("oracle-call-form/" + case["form"])
        for t in dev_tag(case):
            ctx.count("oracle-device/" + t)
        for r in rs:
            key = blame(case, r[0], lambda c2: oracle_check(c2, r[0]) is not None)
            if key in found:
                continue
            found.add(key)
            small = shrink(case, r[0])
            r2 = oracle_check(small, r[0]) or r
            ctx.violation(key, r2[1], dict(input=small, detail=r2[2], how_to_replay="./check C16 --replay <this file>"))
        return rs

    def one_session(sess):
        nonlocal n
        n += 1
        rs = oracle_session(sess)
        ctx.case(("oracle-session", canon_session(sess)), True)
        ctx.count("oracle/session")
        for st in sess["steps"]:
            ctx.count("oracle-session-step/" + (st["bad"] or "valid"))
        for r in rs:
            if r[0] in found:
                continue
            found.add(r[0])
            small = shrink_session(sess, r[0])
            r2 = next((f for f in oracle_session(small) if f[0] == r[0]), r)
            ctx.violation(r2[0], r2[1], dict(input=dict(session=small), detail=r2[2], failing_step=r2[3],
                                             how_to_replay="./check C16 --replay <this file>  (runs the history on a new "
                                                           "object in a new process)"))
        return rs

    for case in corpus():
        if "session" in case:
            one_session(case["session"])
        else:
            one(case)
    # histories on one long-lived object with failing calls in between
    for _ in range(ctx.n(30, 500)):
        one_session(gen_session(rng))
    # the input classes in which this code once lost quantity, then random cases
    one(gen_large_scale(rng))
    one(edge_rounding_case())
    for case in sweep_cases(rng, ctx.thorough):
        one(case)
    for case in zero_edge_sweep(rng, ctx.thorough):
        one(case)
    for _ in range(ctx.n(40, 400)):
        one(gen_edge_case(rng))
    for _ in range(ctx.n(30, 300)):
        one(gen_collapsed_case(rng))
    k = 0
    while time.time() - t0 < budget_s and n < (6000 if ctx.thorough else 900):
        k += 1
        if k % 5 == 0:
            one(gen_case(rng, where="touch", defects=False))
        elif k % 7 == 0:
            one(gen_large_scale(rng))
        elif k % 7 == 1:
            one(gen_edge_case(rng))
        elif k % 7 == 2:
            one(gen_collapsed_case(rng))
        else:
            one(gen_case(rng))
    ctx.cov["oracle_cases"] = n
    ctx.count("oracle", n)


SWEEP_AXES = [[0.1, 0.7, 7], [-3.3, 3.3, 12], [0.0, 1.0, 11], [-0.7, 0.7, 15], [0.0, 1.0, 10], [-1.1, 2.3, 18],
              [0.2, 1.1, 4], [-5.0, 5.0, 21]]


def sweep_cases(rng, full):
    """every node of an axis with inexact spacing as closest node x every half-width that still fits:
    the support ends on an edge node for the first / last admissible node"""
    axes = SWEEP_AXES if full else [rng.choice(SWEEP_AXES)]
    out = []
    for ax in axes:
        lo, hi, n = ax
        h = (hi - lo) / (n - 1)
        for num in ([1, 2, 3] if full else [rng.choice([1, 2])]):
            for ci in range(num, n - num):
                if not full and ci not in (num, n - 1 - num):
                    continue
                d = dict(x=node(ax, ci), y=2.0, z=2.0, E=1.0, mass=1.0, px=0.0, py=0.0, pz=0.0, charge=1,
                         baryon_number=1, strangeness=0)
                out.append(dict(lattice=dict(axes=[ax, [0.0, 4.0, 5], [0.0, 4.0, 5]], n_sigma=[num, 0.1, 0.1]),
                                sigma=h, kernel="gaussian", quantity="energy_density", add=False, particles=[d],
                                where="touch" if ci in (num, n - 1 - num) else "inside"))
    return out


def edge_rounding_case():
    d = dict(x=0.3, y=0.4, z=0.4, E=1.0, mass=1.0, px=0.0, py=0.0, pz=0.0, charge=1, baryon_number=1, strangeness=0)
    return dict(lattice=dict(axes=[[0.1, 0.7, 7]] * 3, n_sigma=[2, 2, 2]), sigma=0.1, kernel="gaussian",
                quantity="energy_density", add=False, particles=[d], where="touch")


def shrink(case, key):
    cur = dict(case)
    changed = True
    while changed:
        changed = False
        ps = cur["particles"]
        if len(ps) > 1:
            for i in range(len(ps)):
                cand = dict(cur, particles=ps[:i] + ps[i + 1:])
                r = oracle_check(cand, key)
                if r:
                    cur = cand
                    changed = True
                    break
        if not changed and cur.get("grid") is not None and key not in ("add-accumulates", "no-add-resets"):
            cand = dict(cur, grid=None)
            r = oracle_check(cand, key)
            if r:
                cur = cand
                changed = True
    return cur


def corpus():
    p = common.VERIF / "harness/corpus/C16"
    out = []
    if p.exists():
        for f in sorted(p.glob("*.json")):
            out.append(json.loads(f.read_text()))
    return out


def replay(ctx, path):
    d = json.loads(open(path).read())
    inp = d.get("input") or (d.get("broken") or [{}])[0].get("case")
    if inp and "session" in inp:
        sess = inp["session"]
        run = run_session(sess)
        for i, rec in enumerate(run):
            print(f"[C16] step {i}: {rec['step'].get('bad') or 'valid'} call (form {rec['case']['form']}, add={rec['case']['add']}, "
                  f"{', '.join(dev_tag(rec['case'])) or 'plain list'}) "
                  f"-> {rec['real']['status']}, sum(grid)*V = {math.fsum(rec['real']['grid']) * rec['real']['V']!r}")
        rs = oracle_session(sess)
        if rs:
            print(f"VIOLATION property=C16 replay={path}")
            print(f"[{rs[0][0]}] {rs[0][1]}")
            return 1
        print("[C16] replay: property holds along this history now")
        return 0
    if not inp or "lattice" not in inp:
        print(f"[C16] replay file names a broken obligation, not an input: {d.get('broken')}")
        return 1
    inp.setdefault("add", False)
    r = oracle_check(inp)
    real = run_real(inp)
    line, _, _ = enc_case(inp, real)
    out = common.run_driver("C16", [line])[0]
    diff = compare(inp, real, out)
    print(f"[C16] real code (call form {inp.get('form', 'kw')}, {', '.join(dev_tag(inp)) or 'plain list, no copies'}): status={real['status']} sum(grid)*V={math.fsum(real['grid']) * real['V']!r} quantities={real['values']}")
    print(f"[C16] model vs code: {'agree' if diff is None else diff}")
    if r:
        print(f"VIOLATION property=C16 replay={path}")
        print(r[1])
        return 1
    print("[C16] replay: property holds on this input now")
    return 0
