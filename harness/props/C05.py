"""C05 — constructor filters are equivalent to calling the filter methods.

Tie T: the three `__apply_kwargs_filters` chains and the method wrappers -> Gen/Dispatch.lean (translate/dispatch.py).
Tie C: (a) dispatch: the real chains / methods are run with recording stand-ins for the Filter functions and the
           recorded calls are compared with the model's `ctorDispatch` / `methodsOfDict`;
       (b) `X(file, events=sel, filters=d)` against the `ctor` op (shared reader model + dispatch inside the event);
       (c) `X(file, events=sel).k1(v1).k2(v2)…` against the `meth` op (method path with recount);
       (d) the conclusion of `ctor_eq_methods` evaluated on the model (`cmp` op) must say `same=1` with `booked=1`;
       (e) `ParticleObjectStorer(list, filters=d)` / method chain against `objctor` / `objmeth`;
       (f) the layer-1 observations (`analyse`) of every line of the generated files against the kind of line the
           grammar wrote (classification on the real bytes).
Oracle (search): the property itself on the real classes, no model involved.
"""
import collections
import contextlib
import copy
import inspect
import pickle
import random as _random
import shutil
import tempfile
import json
import math
import os
import time
import warnings

import numpy as np

import common
import pmodel
import rmodel
from common import f2h
from translate import dispatch as tdispatch

warnings.filterwarnings("ignore")
np.seterr(all="ignore")

CLASSES = ("oscar", "jetscape", "obj")
SWITCH = set(pmodel.NOARG)
ERRNAME = [(NotImplementedError, "err notimpl"), (AttributeError, "err attr"), (KeyError, "err key"),
           (TypeError, "err type"), (ValueError, "err value"), (IndexError, "err index"), (NameError, "err name")]


def classify(e):
    for k, v in ERRNAME:
        if isinstance(e, k):
            return v
    return "err other:" + type(e).__name__


# ------------------------------------------------------------------ translator (tie T)
def translate(ctx):
    text, regions = tdispatch.render(common.read_src)
    changed = common.write_if_changed(common.LEAN / "SparkxVerif/Gen/Dispatch.lean", text)
    golden = common.LEAN / "golden/Gen/Dispatch.lean"
    ctx.cov["gen_equals_golden"] = golden.exists() and golden.read_text() == text
    if changed:
        ctx.notes.append("Gen/Dispatch.lean regenerated (source differs from last run)")
    return regions


# ------------------------------------------------------------------ dictionaries
def enc_val(key, v):
    """driver encoding of a dictionary value, by the kind of argument the filter of that name takes"""
    if key in SWITCH or key not in pmodel.ALL_FILTERS:
        if isinstance(v, bool):
            return "T" if v else "F"
        return None
    if key in pmodel.SPECIES or key == "particle_status":
        return "i~" + pmodel.enc_iarg(v)
    if key in pmodel.WINDOW:
        return "w~" + pmodel.enc_window(v)
    if key in pmodel.RAPLIKE:
        return "r~" + pmodel.enc_rarg(v)
    if key == "lower_event_energy_cut":
        if isinstance(v, bool) or not isinstance(v, (int, float)) or v != v:
            return None
        return "x~" + f2h(float(v))
    if key == "spacetime_cut":
        if isinstance(v, (list, tuple)):
            if len(v) != 2 or not isinstance(v[0], str):
                return None
            d = v[0] if v[0] in ("t", "x", "y", "z") else "bad"
            return "q~%s~%s~%s" % ("L" if isinstance(v, list) else "T", d, pmodel.enc_window(v[1]))
        if v is None or isinstance(v, (int, float)):
            return "o"
        return None
    return None


def enc_dict(d):
    if not d:
        return "="
    out = []
    for k, v in d.items():
        e = enc_val(k, v)
        if e is None or not k.replace("_", "").isalnum():
            return None
        out.append(f"{k}={e}")
    return "+".join(out)


def jval(v):
    if isinstance(v, np.ndarray):
        return {"nd": [int(x) for x in v]}
    if isinstance(v, tuple):
        return {"tu": [jval(x) for x in v]}
    if isinstance(v, list):
        return {"li": [jval(x) for x in v]}
    return v


def unjval(v):
    if isinstance(v, dict):
        if "nd" in v:
            return np.array(v["nd"])
        if "tu" in v:
            return tuple(unjval(x) for x in v["tu"])
        if "li" in v:
            return [unjval(x) for x in v["li"]]
    return v


def jdict(d):
    return [[k, jval(v)] for k, v in d.items()]


def unjdict(l):
    return {k: unjval(v) for k, v in l}


def pick_limits(rng, values, nonneg=False):
    vals = sorted({float(v) for v in values if v == v and abs(v) != math.inf and (not nonneg or v >= 0)})
    if not vals:
        vals = [0.0, 1.0]
    cands = list(vals)
    for a, b in zip(vals, vals[1:]):
        cands.append((a + b) / 2)
    cands += [vals[0] - 1.0 if not nonneg else 0.0, vals[-1] + 1.0]
    a, b = rng.choice(cands), rng.choice(cands)
    r = rng.random()
    if r < 0.2:
        return (None, b)
    if r < 0.4:
        return (a, None)
    return (a, b)


def gen_value(rng, key, parts):
    """an admissible, boundary-biased value for `key`, with cut limits taken from the particles' own values"""
    def vals(f):
        out = []
        for p in parts:
            with np.errstate(all="ignore"):
                try:
                    out.append(float(f(p)))
                except Exception:
                    pass
        return out
    if key in SWITCH:
        return True
    if key in ("pT_cut", "mT_cut"):
        return pick_limits(rng, vals(lambda p: p.pT_abs() if key == "pT_cut" else p.mT()), nonneg=True)
    if key == "multiplicity_cut":
        return pick_limits(rng, [0, 1, 2, 3, 4, 5, 11], nonneg=True)
    if key in pmodel.RAPLIKE:
        m = {"rapidity_cut": "rapidity", "pseudorapidity_cut": "pseudorapidity", "spacetime_rapidity_cut": "spacetime_rapidity"}[key]
        vs = [v for v in vals(lambda p: getattr(p, m)()) if v == v and abs(v) != math.inf]
        if rng.random() < 0.5:
            t = pick_limits(rng, vs)
            if t[0] is None or t[1] is None:
                t = (t[0] if t[0] is not None else -1.0, t[1] if t[1] is not None else 1.0)
            return t
        return abs(rng.choice(vs)) if vs and rng.random() < 0.7 else rng.choice([0.5, 1.0, 2.0, -1.0])
    if key in pmodel.SPECIES:
        pool = sorted({int(p.pdg) for p in parts if p.pdg == p.pdg}) or [211]
        a, _ = pmodel.gen_int_container(rng, pool + [2212, 22])
        return a
    if key == "particle_status":
        pool = sorted({int(p.status) for p in parts if p.status == p.status}) or [0]
        a, _ = pmodel.gen_int_container(rng, pool + [27])
        return a
    if key == "spacetime_cut":
        d = rng.choice(["t", "x", "y", "z"])
        return [d, pick_limits(rng, vals(lambda p: getattr(p, d)))]
    if key == "lower_event_energy_cut":
        es = vals(lambda p: p.E)
        tot = sum(e for e in es if e == e and e > 0) or 1.0
        return rng.choice([0.5, tot / 4, tot / 2, max(es) if es else 1.0, 1.0])
    return True


_supported = {}


def class_keys(rng, cls):
    """keys to draw from: the filter methods the real class offers; 1 time in 8 all 27 names (a key the class does
    not support is a case of its own)"""
    if cls not in _supported:
        _supported[cls] = [k for k in pmodel.ALL_FILTERS if supported(cls, {k: None})]
    return list(pmodel.ALL_FILTERS) if rng.random() < 0.125 else list(_supported[cls])


def gen_dict(rng, cls, parts, malformed=True):
    n = rng.choice([1, 1, 2, 2, 3, 4])
    keys = class_keys(rng, cls)
    # bias away from keys that raise for most generated particles
    weights = [0.3 if k == "spacetime_rapidity_cut" else 1.0 for k in keys]
    chosen = []
    while len(chosen) < n:
        k = rng.choices(keys, weights)[0]
        if k not in chosen:
            chosen.append(k)
    d = {}
    for k in chosen:
        v = gen_value(rng, k, parts)
        if k in SWITCH and rng.random() < 0.3:
            v = False
        d[k] = v
    tag = "plain"
    if malformed and rng.random() < 0.12:
        r = rng.random()
        if r < 0.45:
            bad = rng.choice(["bogus", "charged", "pt_cut", "keep_photons", "strange_particles", "Particle_status"])
            items = list(d.items())
            items.insert(rng.randrange(len(items) + 1), (bad, rng.choice([True, False])))
            d = dict(items)
            tag = "unknown-key"
        elif r < 0.8:
            t = pick_limits(rng, [0.0, 1.0, 2.0])
            d["spacetime_cut"] = rng.choice([("t", t), 3, None, 2.5])
            tag = "spacetime-not-list"
        else:
            k = rng.choice(["pT_cut", "rapidity_cut", "multiplicity_cut"])
            d[k] = rng.choice([(None, None), (-1.0, 2.0), [0.0, 1.0]]) if k != "rapidity_cut" else (None, 1.0)
            tag = "bad-argument"
    return d, tag


# ------------------------------------------------------------------ real code: dispatch with recording stand-ins
def _stub(particle_list, *args, **kwargs):
    # body of every Filter function while the dispatch is observed: record (own name, arguments), change nothing.
    # It runs with the globals of sparkx.Filter, hence the imports by hand; the name is the code object's.
    __import__("builtins")._c05_rec.append((__import__("sys")._getframe().f_code.co_name, args))
    return particle_list


def _recording(mods, rec):
    """Make the Filter functions record their calls *wherever the code under test looks them up*: the function
    objects of sparkx.Filter themselves get a recording body (their `__code__` is swapped), so a reference held in a
    loader module (`from sparkx.Filter import *`), in a registry dict, in a closure or a partial records all the same.
    Functions whose code cannot be swapped (closures) are replaced by identity in every dict / list that refers to
    them.  `mods` are searched too for names that are no longer the sparkx.Filter objects (older layouts)."""
    import builtins
    import gc
    import importlib
    F = importlib.import_module("sparkx.Filter")
    builtins._c05_rec = rec
    saved = []
    for name in pmodel.ALL_FILTERS:
        f = getattr(F, name, None)
        if f is None or not hasattr(f, "__code__"):
            continue
        try:
            old = f.__code__
            f.__code__ = _stub.__code__.replace(co_name=name)
            saved.append(("code", f, old))
        except (ValueError, TypeError):
            rep = (lambda n: (lambda ev, *a, **k: (rec.append((n, a)), ev)[1]))(name)
            for holder in gc.get_referrers(f):
                if isinstance(holder, dict):
                    for k, v in list(holder.items()):
                        if v is f:
                            holder[k] = rep
                            saved.append(("dict", holder, k, f))
                elif isinstance(holder, list):
                    for k, v in enumerate(holder):
                        if v is f:
                            holder[k] = rep
                            saved.append(("dict", holder, k, f))
    return saved


def _restore(saved):
    import builtins
    for item in reversed(saved):
        if item[0] == "code":
            item[1].__code__ = item[2]
        else:
            item[1][item[2]] = item[3]
    if hasattr(builtins, "_c05_rec"):
        del builtins._c05_rec


_observable = {}


def dispatch_observable(cls, path):
    """can the calls of this class's constructor chain / methods be observed at all?  (one supported switch key on a
    probe object must be recorded)"""
    key = (cls, path)
    if key not in _observable:
        d = {"charged_particles": True}
        r = _ctor_dispatch(cls, d) if path == "ctor" else _method_dispatch(cls, d)
        _observable[key] = (r == "charged")
    return _observable[key]


def loader_class(cls):
    import importlib
    MO = importlib.import_module("sparkx.loader.OscarLoader")
    MJ = importlib.import_module("sparkx.loader.JetscapeLoader")
    MP = importlib.import_module("sparkx.loader.ParticleObjectLoader")
    return {"oscar": (MO, MO.OscarLoader), "jetscape": (MJ, MJ.JetscapeLoader), "obj": (MP, MP.ParticleObjectLoader)}[cls]


def storer_class(cls):
    from sparkx.Oscar import Oscar
    from sparkx.Jetscape import Jetscape
    from sparkx.ParticleObjectStorer import ParticleObjectStorer
    return {"oscar": Oscar, "jetscape": Jetscape, "obj": ParticleObjectStorer}[cls]


def _probe_metadata(obj):
    """the per-event metadata a loaded object carries (Oscar: footer positions, impact parameters), for the bare
    probe objects made with __new__ — delegating overrides read it"""
    obj.event_origin_ = [0]
    obj.impact_parameters_ = [0.0]
    obj.event_end_lines_ = ["# event 0 end 0 impact   0.000 scattering_projectile_target yes"]


def enc_calls(rec):
    return "+".join(pmodel.encode_call(n, a) for n, a in rec) if rec else "-"


def _ctor_dispatch(cls, d):
    mod, L = loader_class(cls)
    rec = []
    saved = _recording([mod], rec)
    try:
        obj = L.__new__(L)
        f = getattr(obj, f"_{L.__name__}__apply_kwargs_filters", None)
        if f is None:
            return "unobservable"
        try:
            f([[]], d)
        except Exception as e:
            return classify(e)
        return enc_calls(rec)
    finally:
        _restore(saved)


def real_ctor_dispatch(cls, d):
    return _ctor_dispatch(cls, d) if dispatch_observable(cls, "ctor") else "unobservable"


def real_method_dispatch(cls, d):
    return _method_dispatch(cls, d) if dispatch_observable(cls, "meth") else "unobservable"


def method_arity(S, name):
    m = getattr(S, name, None)
    if m is None or not callable(m):
        return None
    return len(inspect.signature(m).parameters) - 1


def apply_methods(obj, d):
    """calling the same filter methods with the same arguments in the same order"""
    S = type(obj)
    for k, v in d.items():
        n = method_arity(S, k)
        if n is None or k.startswith("_"):
            raise AttributeError(k)
        if n == 0:
            if v is True:
                getattr(obj, k)()
            elif v is not False:
                raise RuntimeError("switch value is not a bool")
        elif n == 1:
            getattr(obj, k)(v)
        elif n == 2:
            if not isinstance(v, (list, tuple)):
                raise TypeError("value is not a sequence")
            getattr(obj, k)(v[0], v[1])
        else:
            raise RuntimeError("unexpected method arity")
    return obj


def _method_dispatch(cls, d):
    import importlib
    B = importlib.import_module("sparkx.BaseStorer")
    O = importlib.import_module("sparkx.Oscar")
    J = importlib.import_module("sparkx.Jetscape")
    P = importlib.import_module("sparkx.ParticleObjectStorer")
    S = storer_class(cls)
    rec = []
    saved = _recording([B, O, J, P], rec)
    try:
        obj = S.__new__(S)
        obj.particle_list_ = [[]]
        obj.num_output_per_event_ = np.array([[0, 0]])
        obj.num_events_ = 1
        _probe_metadata(obj)
        try:
            apply_methods(obj, d)
        except Exception as e:
            return classify(e)
        return enc_calls(rec)
    finally:
        _restore(saved)


# ------------------------------------------------------------------ real code: files
def particles_of(spec):
    """the Particle built from every row, as the loader builds it (for cut values and views)"""
    from sparkx.Particle import Particle
    fmt = {"oscar2013": "Oscar2013", "extended": "Oscar2013Extended", "ascii": "ASCII"}.get(spec.kind, "JETSCAPE")
    attrs = [rmodel.ATTR_OF[c] for c in spec.cols] if spec.kind == "ascii" else None
    out = []
    for ev in spec.events:
        for row in ev:
            with np.errstate(all="ignore"):
                out.append(Particle(fmt, np.asarray(row), attrs) if attrs is not None else Particle(fmt, np.asarray(row)))
    return out


def key2line(spec):
    m = {}
    for ev, lns in zip(spec.events, spec.particle_line_numbers()):
        for row, ln in zip(ev, lns):
            m[float(row[0])] = ln
    return m


def obs_events(spec, obj, k2l):
    return [[k2l.get(rmodel.first_col_key(spec, p), -1) for p in ev] for ev in obj.particle_objects_list()]


def show_ids(evs):
    if len(evs) == 0:
        return "-"
    return "|".join("." if not ev else ",".join(str(i) for i in ev) for ev in evs)


def booked(obj):
    c = obj.num_output_per_event()
    evs = obj.particle_objects_list()
    if not isinstance(c, np.ndarray) or c.ndim != 2 or len(evs) == 0:
        return False
    return [int(x) for x in c[:, 1]] == [len(e) for e in evs]


# ------------------------------------------------------------------ round-4 devices (copies, containers, environment, text)
COPIERS = {"copy": copy.copy, "deepcopy": copy.deepcopy, "pickle": lambda x: pickle.loads(pickle.dumps(x))}
TEXT_VARIANTS = ("crlf", "nonascii-header", "nonascii-endline", "blank-header", "crlf+nonascii")


class FiltersDict(dict):
    """a dict subclass: still a filter *dictionary*"""


class Dev:
    """which of the admissible variations are applied to one case (None = the plain way)"""

    def __init__(self, copy=None, dictkind=None, text=None, env=False, inner=None):
        self.copy = copy          # copy | deepcopy | pickle : storers before use, the filters dict, the obj-storer input
        self.dictkind = dictkind  # subclass | ordered
        self.text = text          # one of TEXT_VARIANTS (files)
        self.env = env            # fresh cwd + bare relative file name, np.seterr(all='warn'), print options, advanced RNG states
        self.inner = inner        # tuple | ndarray : container of every event of the ParticleObjectStorer input
        self.state_changed = None

    def tag(self):
        return "+".join(x for x in [self.copy and "copy=" + self.copy, self.dictkind and "dict=" + self.dictkind,
                                    self.text and "text=" + self.text, self.env and "env", self.inner and "inner=" + self.inner] if x) or "plain"

    def json(self):
        return dict(copy=self.copy, dictkind=self.dictkind, text=self.text, env=self.env, inner=self.inner)

    def trivial(self):
        return self.tag() == "plain"


def dev_unjson(j):
    return Dev(**j) if j else None


def gen_dev(rng, is_file):
    dev = Dev()
    while dev.trivial():
        if rng.random() < 0.45:
            dev.copy = rng.choice(list(COPIERS))
        if rng.random() < 0.3:
            dev.dictkind = rng.choice(["subclass", "ordered"])
        if rng.random() < 0.3:
            dev.env = True
        if is_file and rng.random() < 0.4:
            dev.text = rng.choice(TEXT_VARIANTS)
        if not is_file and rng.random() < 0.35:
            dev.inner = rng.choice(["tuple", "ndarray"])
    return dev


def dev_dict(d, dev):
    """the filters dictionary as the device hands it over"""
    if dev is None:
        return d
    if dev.dictkind == "subclass":
        d = FiltersDict(d)
    elif dev.dictkind == "ordered":
        d = collections.OrderedDict(d)
    if dev.copy:
        d = COPIERS[dev.copy](d)
    return d


def dev_copy(obj, dev):
    return COPIERS[dev.copy](obj) if dev is not None and dev.copy and obj is not None else obj


def variant_text(spec, kind):
    """the same file with a text variation the clean readers accept (probed once per run, see text_accepted)"""
    L = spec.lines()
    if kind in ("nonascii-header", "crlf+nonascii"):
        if spec.is_jetscape():
            L[0] = L[0] + "\tJ\u00e9tsc\u00e4pe \u2013 \u6d4b\u8bd5"
        else:
            L[2] = "# SMASH-3.1 \u00fcn\u00efc\u00f6d\u00e9 \u2013 \u6d4b\u8bd5"
    if kind == "nonascii-endline":
        if spec.is_jetscape():
            L[-1] = L[-1] + ("\t" if spec.tab_headers else " ") + "\u00b5b"
        else:
            L = [l.replace("scattering_projectile_target yes", "scattering_projectile_target y\u00e9s") for l in L]
    if kind == "blank-header":
        n = 1 if spec.is_jetscape() else 3
        L = [l + " " if i < n else l for i, l in enumerate(L)]
    t = "\n".join(L) + ("\n" if spec.trailing_nl else "")
    if kind in ("crlf", "crlf+nonascii"):
        t = t.replace("\n", "\r\n")
    return t


_text_ok = {}


def text_accepted(spec, kind):
    """does the tree under test read this variation of a small reference file of the same format like the plain
    file?  (decided once per run and format; a variation that is not accepted is left out, with a note)"""
    key = (spec.kind, kind, spec.tab_headers if spec.is_jetscape() else None)
    if key not in _text_ok:
        ref = rmodel.FileSpec(spec.kind, spec.cols, [[rmodel.gen_row(_random.Random(7), spec.cols, 1)], [],
                                                     [rmodel.gen_row(_random.Random(8), spec.cols, 2)]], tab_headers=spec.tab_headers)
        a = load_real(ref)[0]
        b = load_real(ref, dev=Dev(text=kind))[0]
        _text_ok[key] = a.startswith("ok") and a == b
    return _text_ok[key]


def _state():
    return (_random.getstate(), np.random.get_state(), os.getcwd(), dict(np.geterr()))


def _state_diff(a, b):
    out = []
    if a[0] != b[0]:
        out.append("random global state")
    if not (a[1][0] == b[1][0] and np.array_equal(a[1][1], b[1][1]) and a[1][2:] == b[1][2:]):
        out.append("numpy.random global state")
    if a[2] != b[2]:
        out.append("current working directory")
    if a[3] != b[3]:
        out.append("numpy error settings")
    return out


@contextlib.contextmanager
def environment(dev):
    """the surroundings in which the calls of one case are made; with dev.env: a fresh working directory (files are
    then named by a bare relative name), np.seterr(all='warn'), unusual print options, advanced global RNG states;
    afterwards the global state must be as the calls found it (recorded in dev.state_changed) and is restored"""
    if dev is None or not dev.env:
        with np.errstate(all="ignore"):
            yield
        return
    saved = (_random.getstate(), np.random.get_state(), os.getcwd(), np.geterr(), np.get_printoptions())
    tmp = tempfile.mkdtemp(prefix="verif_c05_cwd_", dir=os.environ.get("VERIF_TMP", "/tmp"))
    try:
        os.chdir(tmp)
        np.seterr(all="warn")
        np.set_printoptions(precision=2, suppress=True, threshold=3, linewidth=40)
        _random.seed(20240229)
        [_random.random() for _ in range(11)]
        np.random.seed(977)
        np.random.rand(7)
        before = _state()
        yield
        diff = _state_diff(before, _state())
        if diff:
            dev.state_changed = ", ".join(diff)
    finally:
        os.chdir(saved[2])
        np.seterr(**saved[3])
        np.set_printoptions(**saved[4])
        _random.setstate(saved[0])
        np.random.set_state(saved[1])
        shutil.rmtree(tmp, ignore_errors=True)


_relname = [0]


def open_file(spec, dev, **kw):
    """(constructor thunk, path to remove) for the file of `spec` as the device writes / names it"""
    text = variant_text(spec, dev.text) if dev is not None and dev.text else None
    if dev is None or not dev.env:
        return rmodel.open_real(spec, text, **kw)
    from sparkx.Oscar import Oscar
    from sparkx.Jetscape import Jetscape
    _relname[0] += 1
    name = f"in{_relname[0]}" + spec.suffix()          # bare relative name in the fresh working directory
    with open(name, "w", newline="") as f:
        f.write(spec.text() if text is None else text)
    if spec.is_jetscape():
        if spec.kind == "jetscapeP":
            kw = dict(kw, particletype="parton")
        return (lambda: Jetscape(name, **kw)), name
    return (lambda: Oscar(name, **kw)), name


def real_methods(spec, sel, d, k2l, dev=None):
    """canonical result of X(file, events=sel).k1(v1)… like the `meth` op"""
    kw = {} if sel is None else {"events": sel}
    ctor, path = open_file(spec, dev, **kw)
    try:
        try:
            obj = dev_copy(ctor(), dev)       # a copy of a storer is a storer: the methods are called on the copy
        except Exception as e:
            return rmodel.classify(e), None
        b = booked(obj)
        try:
            apply_methods(obj, dev_dict(d, dev))
        except Exception as e:
            return classify(e), None
        s = f"ok booked={1 if b else 0} counts={rmodel.counts_repr(obj.num_output_per_event())} ev={show_ids(obs_events(spec, obj, k2l))}"
        return s, obj
    finally:
        os.unlink(path)


def load_real(spec, dev=None, **kw):
    """(canonical string like rmodel.run_real, object or None); the temporary file is always removed"""
    if dev is not None and "filters" in kw:
        kw = dict(kw, filters=dev_dict(kw["filters"], dev))
    ctor, path = open_file(spec, dev, **kw)
    try:
        try:
            obj = dev_copy(ctor(), dev)       # observed through its copy
        except Exception as e:
            return rmodel.classify(e), None
        k2l = key2line(spec)
        ev_s = show_ids(obs_events(spec, obj, k2l)) if len(obj.particle_objects_list()) else ""
        fmt = obj.oscar_format() if not spec.is_jetscape() else "-"
        attrs = ",".join(obj.custom_attr_list) if not spec.is_jetscape() else ""
        foot = len(obj.event_end_lines_) if not spec.is_jetscape() else 0
        s = (f"ok ne={obj.num_events()} counts={rmodel.counts_repr(obj.num_output_per_event())} fmt={fmt} attrs={attrs} "
             f"foot={foot} ev={ev_s}")
        return s, obj
    finally:
        os.unlink(path)


def real_ctor(spec, sel, d):
    kw = {"filters": d}
    if sel is not None:
        kw["events"] = sel
    return load_real(spec, **kw)[0]


def gen_sel(rng, nev):
    r = rng.random()
    if r < 0.45:
        return None
    if r < 0.7:
        return rng.randrange(nev) if rng.random() < 0.95 else nev + 1
    a = rng.randrange(nev)
    b = rng.randrange(a, nev)
    return (a, b)


def gen_file(rng, kinds=None):
    while True:
        spec = rmodel.gen_spec(rng, kinds=kinds or ["oscar2013", "oscar2013", "extended", "extended", "ascii", "jetscape",
                                                    "jetscape", "jetscapeP"], maxpart=4)
        # ASCII files with exactly 13 / 21 columns are mis-detected on an unpatched tree (C01's finding, not ours)
        if spec.kind == "ascii" and len(spec.cols) in (13, 21):
            continue
        if spec.kind == "ascii" and "pdg" in spec.cols[1:] and len(spec.cols) > 2 and rng.random() < 0.5:
            # an ASCII file without PDG column: every particle has an unset PDG id; the PDG-needing filters
            # (species, class filters, remove_photons) must drop such particles on both paths, none may raise
            j = spec.cols.index("pdg")
            cols = [c for c in spec.cols if c != "pdg"]
            if len(cols) not in (13, 21):
                spec = rmodel.FileSpec("ascii", cols, [[row[:j] + row[j + 1:] for row in ev] for ev in spec.events],
                                       labels=spec.labels, impacts=spec.impacts, tab_headers=spec.tab_headers)
        return spec


def spec_json(spec):
    return dict(kind=spec.kind, cols=list(spec.cols), events=spec.events, labels=spec.labels, impacts=spec.impacts,
                tab_headers=spec.tab_headers, trailing_nl=spec.trailing_nl)


def spec_unjson(j):
    return rmodel.FileSpec(j["kind"], j["cols"], j["events"], labels=j.get("labels"), impacts=j.get("impacts"),
                           tab_headers=j.get("tab_headers", True), trailing_nl=j.get("trailing_nl", True))


def line_kinds(spec):
    """what the grammar wrote on every line: hdr / out / end / part / evh / trailer"""
    if spec.is_jetscape():
        k = ["hdr"]
        for ev in spec.events:
            k += ["evh"] + ["part"] * len(ev)
        return k + ["trailer"]
    k = ["hdr", "hdr", "hdr"]
    for ev in spec.events:
        k += ["out"] + ["part"] * len(ev) + ["end"]
    return k


def check_classification(ctx, spec, ans):
    """layer-1 observations of the real bytes (driver `lines` op) against the kind of line the grammar wrote"""
    if not ans.startswith("ok "):
        ctx.brk("correspondence-broken", f"lines op: {ans[:80]}")
        return
    rows = ans[3:].split(";")
    kinds = line_kinds(spec)
    if len(rows) != len(kinds):
        ctx.brk("correspondence-broken", f"lines op: {len(rows)} lines, grammar wrote {len(kinds)}")
        return
    ncol = len(spec.cols)
    for i, (r, k) in enumerate(zip(rows, kinds)):
        bits, nt, ntt = r.split(":")
        hsh, evt, out, outsp, insp, start, end, endsp, sig, wgt, evcap, nhad, npar = [c == "1" for c in bits]
        if spec.is_jetscape():
            ok = {"hdr": hsh and not sig and not (evcap and wgt),
                  "evh": hsh and evcap and wgt and not sig and (nhad or npar) and int(ntt) == 9,
                  "part": (not hsh) and (not sig) and not (evcap and wgt) and int(ntt) == 7,
                  "trailer": hsh and sig}[k]
        else:
            is_evline = evt and (out or insp or start)
            ok = {"hdr": hsh and not is_evline and not end if i > 0 else True,
                  "out": hsh and is_evline and outsp and not endsp,
                  "end": hsh and end and endsp and not is_evline and not outsp,
                  "part": (not hsh) and (not is_evline) and int(nt) == ncol}[k]
        if not ok:
            ctx.brk("correspondence-broken", f"line {i} ({k}) of a generated {spec.kind} file is not observed as its kind: {r}",
                    case=dict(spec=spec_json(spec)))
            return


# ------------------------------------------------------------------ real code: particle-object storer
def obj_events(rng):
    nev = rng.randint(1, 4)
    evs, ids, specs = [], {}, []
    n = 0
    for _ in range(nev):
        m = 0 if rng.random() < 0.15 else rng.randint(1, 5)
        ev, sp = [], []
        for _ in range(m):
            s = pmodel.gen_spec(rng, 0.08)
            if rng.random() < 0.15:
                s.pop("pdg", None)  # unset PDG id: PDG-needing filters must drop the particle, on both paths
            s["ID"] = n  # value identity: survives deepcopy / pickle of the input
            p = pmodel.make_particle(s)
            ids[id(p)] = n
            n += 1
            ev.append(p)
            sp.append(s)
        evs.append(ev)
        specs.append(sp)
    return evs, ids, specs


def materialise(specs):
    evs, ids = [], {}
    n = 0
    for sp in specs:
        ev = []
        for s in sp:
            p = pmodel.make_particle(dict(s, ID=s.get("ID", n)))
            ids[id(p)] = n
            n += 1
            ev.append(p)
        evs.append(ev)
    return evs, ids


def _pid(p, ids):
    k = ids.get(id(p))
    return int(p.ID) if k is None else k


def obj_ids(evs, ids):
    return [[_pid(p, ids) for p in ev] for ev in evs]


def obj_input(evs, dev):
    """the nested list handed to ParticleObjectStorer: inner containers list / tuple / object ndarray, possibly copied"""
    def inner(e):
        if dev is not None and dev.inner == "tuple":
            return tuple(e)
        if dev is not None and dev.inner == "ndarray":
            a = np.empty(len(e), dtype=object)
            for i, p in enumerate(e):
                a[i] = p
            return a
        return list(e)
    return dev_copy([inner(e) for e in evs], dev)


def _ids_str(evs, ids):
    evs = obj_ids(evs, ids)
    if len(evs) == 0:
        return "-"
    return "|".join("." if len(ev) == 0 else ",".join(str(i) for i in ev) for ev in evs)


def real_obj_ctor(evs, ids, d, dev=None):
    from sparkx.ParticleObjectStorer import ParticleObjectStorer
    try:
        s = dev_copy(ParticleObjectStorer(obj_input(evs, dev), filters=dev_dict(d, dev)), dev)
    except Exception as e:
        return classify(e), None
    return "ok " + _ids_str(s.particle_objects_list(), ids), s


def real_obj_methods(evs, ids, d, dev=None):
    from sparkx.ParticleObjectStorer import ParticleObjectStorer
    try:
        s = dev_copy(ParticleObjectStorer(obj_input(evs, dev)), dev)
        apply_methods(s, dev_dict(d, dev))
    except Exception as e:
        return classify(e), None
    return "ok " + _ids_str(s.particle_objects_list(), ids), s


# ------------------------------------------------------------------ correspondence
def norm_err(s):
    """the comparison is as fine as the property needs: which events / counts, or *that* it raises"""
    return "err" if s.startswith("err") else s


def correspond(ctx):
    rng = ctx.rng
    ctx.rule = ("random well-formed Oscar2013 / Extended(20,22) / ASCII / JETSCAPE(hadron, parton) files (1-6 events, empty events, "
                "0-4 particles, one 10+ event) x events= none / k / (a,b) x ordered dictionaries of 1-4 distinct keys out of all 27 "
                "filter names (keys a class does not support included), True/False switches, cut limits taken from the particles' "
                "own values or midway between them, None limits, swapped limits; 12% malformed (unknown key, spacetime_cut not a "
                "list, invalid argument); ASCII files without a PDG column and particle lists with unset PDG ids x PDG-needing filters "
                "(both paths must drop such particles, none may raise); the same for ParticleObjectStorer on particle lists. "
                "Devices on the real code (every device case counts): storers / the filters dict / the ParticleObjectStorer input replaced "
                "by copy.copy / copy.deepcopy / a pickle round trip before use; filters as dict subclass / OrderedDict; inner event "
                "containers tuple / object ndarray; excluded inputs (outer tuple, generators, one-shot inner iterators) rejected or equal "
                "to the list; fresh cwd + bare relative file name + np.seterr(all='warn') + odd print options + advanced random / "
                "np.random state (must be left as found); CRLF, non-ASCII free text in header / end / trailer lines, trailing blanks on "
                "header lines (each probed once per run against the plain file) — all must leave both paths' results unchanged. "
                "non-trivial = constructor path "
                "succeeds, >=2 filters or events= given, and at least one particle removed and one kept, or an event emptied")
    ctx.assumptions += [
        "C05: the main theorems assume that the plain load succeeds and is Booked (2-D counts, one row per held event, second "
        "column = number of particles): this is what C01/C02 state for well-formed files; here it is evaluated by the driver on "
        "every generated file (`booked=1`), not proved from the file grammar. Nothing is proved about the string layer `analyse`; "
        "the observations of every generated line are compared with the kind of line the grammar wrote (`lines` op).",
        "C05: filter semantics enter through Props/C03 (`applyCall = keepSpec pred` for admissible arguments; PDG ids present for "
        "species filters no longer required since /repo 9f9a2e0 — ASCII files without PDG column and particle lists with unset PDG ids "
        "are generated and judged: both paths must drop such particles; |z| < t for the space-time rapidity cut); the particle view of a line (charge, pT, class flags …) is "
        "supplied by the harness from the real Particle.",
        "C05: dictionary values are encoded by the kind of argument the receiving filter takes (switch / int container / window / "
        "rapidity argument / threshold / [dim, window]); Python dict = association list with distinct keys.",
        "C05: a `filters=` value that is not a dict instance (types.MappingProxyType, collections.ChainMap, a list of names) is outside "
        "the property's quantifier ('all filter dictionaries'); all three loaders return the events unfiltered for it without an "
        "error (observed, not judged). dict subclasses and OrderedDict are dictionaries and are judged. Trailing blanks on particle "
        "lines / Oscar end lines are rejected by the clean readers (wrong column count / impact parameter parse) and are not generated.",
        "C05: ParticleObjectStorer: model of the events only (its count bookkeeping is C04's subject); oracle checks its counts on the real code.",
    ]
    # ---- corpus first
    run_corpus(ctx)
    # ---- (a) dispatch with recording stand-ins
    nd = ctx.n(300, 4000)
    cases, lines = [], []
    dummy_parts = [pmodel.make_particle(pmodel.gen_spec(rng, 0.0)) for _ in range(6)]
    for i in range(nd):
        cls = CLASSES[i % 3]
        d, tag = gen_dict(rng, cls, dummy_parts)
        e = enc_dict(d)
        if e is None:
            continue
        cases.append((cls, d, tag))
        lines.append(f"calls\t{cls}\t{e}")
    # every single key, True and False, for every class (exhaustive over the tables)
    for cls in CLASSES:
        for k in pmodel.ALL_FILTERS + ["bogus"]:
            for sw in (True, False):
                v = sw if (k in SWITCH or k == "bogus") else gen_value(rng, k, dummy_parts)
                if not sw and k not in SWITCH and k != "bogus":
                    continue
                d = {k: v}
                cases.append((cls, d, "single"))
                lines.append(f"calls\t{cls}\t{enc_dict(d)}")
    outs = common.run_driver("C05", lines)
    unobs = [f"{cls}/{path}" for cls in CLASSES for path in ("ctor", "meth") if not dispatch_observable(cls, path)]
    if unobs:
        ctx.notes.append("dispatch not observable (no sparkx.Filter function object is entered by a probe call) for: " + ", ".join(unobs)
                         + " — dispatch comparison skipped there; the equality constructor == method chain is judged on real results")
    for (cls, d, tag), out in zip(cases, outs):
        rc = real_ctor_dispatch(cls, d)
        rm = real_method_dispatch(cls, d)
        real = f"ok ctor={rc} meth={rm}"
        ctx.count(f"dispatch/{cls}/{tag}")
        ctx.case(("dispatch", cls, repr(jdict(d))), tag != "single" and not rc.startswith("err"))
        if "unobservable" in (rc, rm):
            # the calls of this path cannot be seen from outside (no Filter function object is entered): the dispatch
            # comparison is skipped for it; constructor == method chain is still judged end to end below and by the oracle
            ctx.count("dispatch/unobservable")
            a, b = norm_pair(real), norm_pair(out)
            if isinstance(a, tuple) and isinstance(b, tuple) and all(x == y for x, y, o in zip(a, b, (rc, rm)) if o != "unobservable"):
                continue
        if norm_pair(real) != norm_pair(out):
            ctx.brk("correspondence-broken", f"dispatch {cls} {jdict(d)}: code `{real}` vs model `{out}`",
                    case=dict(cls=cls, dict=jdict(d)))
    # ---- (b)-(d),(f) files
    nf = ctx.n(800, 6000)
    fcases, flines = [], []
    for i in range(nf):
        cls = "oscar" if rng.random() < 0.55 else "jetscape"
        spec = gen_file(rng, ["oscar2013", "oscar2013", "extended", "extended", "ascii"] if cls == "oscar" else ["jetscape", "jetscape", "jetscapeP"])
        parts = particles_of(spec)
        d, tag = gen_dict(rng, cls, parts)
        e = enc_dict(d)
        if e is None:
            continue
        sel = gen_sel(rng, len(spec.events))
        kind = "oscar" if not spec.is_jetscape() else spec.kind
        views = rmodel.views_enc(spec)
        base = "\t".join([cls, kind, rmodel.sel_enc(sel), e, views, common.hexs(spec.text())])
        fcases.append((cls, spec, sel, d, tag))
        flines += ["ctor\t" + base, "meth\t" + base, "cmp\t" + base, "lines\t" + common.hexs(spec.text())]
    outs = common.run_driver("C05", flines)
    for j, (cls, spec, sel, d, tag) in enumerate(fcases):
        o_ctor, o_meth, o_cmp, o_lines = outs[4 * j: 4 * j + 4]
        k2l = key2line(spec)
        r_ctor = real_ctor(spec, sel, d)
        r_meth, _ = real_methods(spec, sel, d, k2l)
        nin = sum(len(e) for e in spec.events)
        nontriv = False
        if r_ctor.startswith("ok"):
            kept = sum(1 for x in r_ctor.split("ev=")[1].replace("|", ",").split(",") if x not in (".", ""))
            nontriv = (len(d) >= 2 or sel is not None) and 0 < kept < nin
        ctx.case((cls, spec.text(), repr(sel), repr(jdict(d))), nontriv,
                 sample=dict(cls=cls, kind=spec.kind, events=sel, filters=jdict(d), ctor_code=r_ctor, ctor_model=o_ctor,
                             methods_code=r_meth, methods_model=o_meth, cmp_model=o_cmp))
        ctx.count(f"file/{spec.kind}/{tag}/" + ("sel" if sel is not None else "all") + ("/err" if r_ctor.startswith("err") else ""))
        if pdg_filters_on(d) and "pdg" not in spec.cols:
            ctx.count("unset-pdg/file+pdg-filter" + ("/err" if r_ctor.startswith("err") else ""))
        case = dict(cls=cls, spec=spec_json(spec), events=jval(sel), filters=jdict(d))
        if norm_err(r_ctor) != norm_err(o_ctor):
            ctx.brk("correspondence-broken", f"{cls}(file, events={sel}, filters={jdict(d)}): code `{r_ctor}` vs model `{o_ctor}`", case=case)
        if norm_err(r_meth) != norm_err(o_meth):
            ctx.brk("correspondence-broken", f"{cls}(file, events={sel}) + methods {jdict(d)}: code `{r_meth}` vs model `{o_meth}`", case=case)
        if o_cmp.startswith("ok "):
            ctx.count("cmp/same" if "same=1" in o_cmp else "cmp/DIFFERENT")
            if "same=1" not in o_cmp or "booked=1" not in o_cmp:
                ctx.brk("correspondence-broken", f"the model itself contradicts ctor_eq_methods (or Booked fails) on a generated case: {o_cmp}", case=case)
        elif o_cmp.startswith("ctor-only") or o_cmp.startswith("meth-only"):
            ctx.count("cmp/one-sided-error")
        check_classification(ctx, spec, o_lines)
    # ---- (e) particle-object storer
    no = ctx.n(400, 4000)
    ocases, olines = [], []
    for i in range(no):
        evs, ids, specs = obj_events(rng)
        d, tag = gen_dict(rng, "obj", [p for ev in evs for p in ev])
        e = enc_dict(d)
        if e is None:
            continue
        ee = pmodel.encode_events(evs, ids)
        ocases.append((evs, ids, specs, d, tag))
        olines += [f"objctor\t{e}\t{ee}", f"objmeth\t{e}\t{ee}"]
    outs = common.run_driver("C05", olines)
    for j, (evs, ids, specs, d, tag) in enumerate(ocases):
        o_c, o_m = outs[2 * j], outs[2 * j + 1]
        r_c, _ = real_obj_ctor(evs, ids, d)
        r_m, _ = real_obj_methods(evs, ids, d)
        ctx.case(("obj", repr(specs), repr(jdict(d))), r_c.startswith("ok") and len(d) >= 2)
        ctx.count(f"obj/{tag}" + ("/err" if r_c.startswith("err") else ""))
        if pdg_filters_on(d) and any(_nan_pdg(p) for ev in evs for p in ev):
            ctx.count("unset-pdg/obj+pdg-filter" + ("/err" if r_c.startswith("err") else ""))
        case = dict(cls="obj", events=specs, filters=jdict(d))
        if norm_err(r_c) != norm_err(o_c):
            ctx.brk("correspondence-broken", f"ParticleObjectStorer(list, filters={jdict(d)}): code `{r_c}` vs model `{o_c}`", case=case)
        if r_m == "err attr" and obj_methods_unusable():
            ctx.count("obj/methods-unusable(C04)")
            continue
        if norm_err(r_m) != norm_err(o_m):
            ctx.brk("correspondence-broken", f"ParticleObjectStorer(list) + methods {jdict(d)}: code `{r_m}` vs model `{o_m}`", case=case)
    # ---- (g) devices on the real code: copies, dict kinds, containers, environment, text variations
    run_devices(ctx, ctx.n(240, 3000))


def norm_pair(s):
    """`ok ctor=<calls|err…> meth=<calls|err…>` with error kinds collapsed"""
    if not s.startswith("ok ctor="):
        return s
    a, b = s[len("ok ctor="):].split(" meth=")
    return (norm_err(a), norm_err(b))


_unusable = None


def obj_methods_unusable():
    """C04's defect: every filter method of a ParticleObjectStorer raises AttributeError ('list' has no 'ndim')"""
    global _unusable
    if _unusable is None:
        from sparkx.ParticleObjectStorer import ParticleObjectStorer
        try:
            ParticleObjectStorer([[pmodel.make_particle({"charge": 1})]]).charged_particles()
            _unusable = False
        except AttributeError:
            _unusable = True
        except Exception:
            _unusable = False
    return _unusable


# ------------------------------------------------------------------ oracle: the property on the real code
def nonempty(evs):
    return [e for e in evs if e]


def counts_of_nonempty(obj):
    """per-event counts of the events that still contain particles, from num_output_per_event()"""
    c = obj.num_output_per_event()
    if isinstance(c, np.ndarray):
        if c.ndim == 2 and c.shape[1] == 2:
            return [int(x) for x in c[:, 1] if int(x) != 0]
        if c.ndim == 1 and c.shape[0] == 2:
            return [int(c[1])] if int(c[1]) != 0 else []
        if c.size == 0:
            return []
        return ["shape", tuple(c.shape)]
    if isinstance(c, list):
        return [int(x) for x in c if int(x) != 0]
    return ["type", type(c).__name__]


def supported(cls, d):
    """keys of d that the class offers as a usable method (decided on the real class, not on the model)"""
    S = storer_class(cls)
    obj = S.__new__(S)
    obj.particle_list_ = [[]]
    obj.num_output_per_event_ = np.array([[0, 0]])
    obj.num_events_ = 1
    _probe_metadata(obj)
    for k in d:
        if k not in pmodel.ALL_FILTERS or method_arity(S, k) is None:
            return False
        try:
            n = method_arity(S, k)
            args = {0: (), 1: (gen_noop_arg(k),), 2: ("t", (0.0, 1.0))}[n]
            getattr(obj, k)(*args)
        except NotImplementedError:
            return False
        except Exception:
            pass
    return True


def gen_noop_arg(k):
    if k in pmodel.SPECIES or k == "particle_status":
        return 1
    if k in pmodel.RAPLIKE:
        return 1.0
    if k == "lower_event_energy_cut":
        return 1.0
    return (0.0, 1.0)


def pdg_filters_on(d):
    return [k for k, v in d.items() if k in pmodel.NEEDS_PDG and v is not False]


def _nan_pdg(p):
    v = p.pdg
    return isinstance(v, float) and v != v


def oracle_file(cls, spec, sel, d, dev=None):
    """None or (key, what): X(file, events=sel, filters=d)  vs  X(file, events=sel).k1(v1)…"""
    k2l = key2line(spec)
    kw = {} if sel is None else {"events": sel}
    r_c, o_c = load_real(spec, dev, filters=d, **kw)
    if True:
        r_m, o_m = real_methods(spec, sel, d, k2l, dev)
        plain, o_p = load_real(spec, dev, **kw)
        if plain.startswith("err"):
            return None  # the selection itself is invalid: outside the property
        unknown = [k for k in d if k not in pmodel.ALL_FILTERS]
        if unknown:
            if not r_c.startswith("err"):
                return (f"{cls}:unknown-key-accepted", f"{cls}(file, filters={jdict(d)}) accepted the unknown key {unknown[0]!r}: {r_c}")
            return None
        if not supported(cls, d):
            if not r_c.startswith("err"):
                return (f"{cls}:unsupported-key-accepted", f"{cls}(file, filters={jdict(d)}) accepted a key whose method raises NotImplementedError")
            return None
        if "spacetime_cut" in d and not isinstance(d["spacetime_cut"], (list, tuple)):
            if not r_c.startswith("err"):
                return (f"{cls}:spacetime-value-accepted", f"{cls}(file, filters={jdict(d)}) accepted a non-sequence spacetime_cut value")
            return None
        if r_m.startswith("err") and r_c.startswith("err"):
            # inadmissible argument / data: both raise -- but never because of a particle without PDG id
            on = pdg_filters_on(d)
            if on and o_p is not None and any(_nan_pdg(p) for ev in o_p.particle_objects_list() for p in ev):
                d0 = {k: v for k, v in d.items() if k not in on}
                r0 = load_real(spec, dev, filters=d0, **kw)[0] if d0 else plain
                if not r0.startswith("err"):
                    return (f"{cls}:raises-on-unset-pdg", f"{cls} events={sel} filters={jdict(d)}: both paths raise ({r_c} / {r_m}) on "
                                                          f"particles without PDG id; without {on} nothing raises")
            return None
        if "spacetime_cut" in d and isinstance(d["spacetime_cut"], tuple) and r_c.startswith("err") and not r_m.startswith("err"):
            return None  # documented: the constructor wants a list
        if r_m.startswith("err") != r_c.startswith("err"):
            return (f"{cls}:one-path-raises", f"{cls} events={sel} filters={jdict(d)}: constructor `{r_c}` but methods `{r_m}`")
        if pdg_filters_on(d):
            for path, o in (("constructor", o_c), ("methods", o_m)):
                if any(_nan_pdg(p) for ev in o.particle_objects_list() for p in ev):
                    return (f"{cls}:unset-pdg-survives", f"{cls} events={sel} filters={jdict(d)}: the {path} path keeps a particle "
                                                         f"without PDG id although {pdg_filters_on(d)} need one")
        ev_c = nonempty(obs_events(spec, o_c, k2l))
        ev_m = nonempty(obs_events(spec, o_m, k2l))
        if ev_c != ev_m:
            return (f"{cls}:events-differ" + ("+events" if sel is not None else ""),
                    f"{cls} events={sel} filters={jdict(d)}: constructor holds {ev_c}, methods hold {ev_m}")
        cc, cm = counts_of_nonempty(o_c), counts_of_nonempty(o_m)
        want = [len(e) for e in ev_m]
        if cc != want or cm != want:
            return (f"{cls}:counts-differ" + ("+events" if sel is not None else ""),
                    f"{cls} events={sel} filters={jdict(d)}: counts of the non-empty events: constructor {cc}, methods {cm}, events {want}")
        # a switch that is False has no effect
        if any(v is False for v in d.values()):
            d2 = {k: v for k, v in d.items() if v is not False}
            r2, o2 = load_real(spec, dev, filters=d2, **kw) if d2 else load_real(spec, dev, **kw)
            if o2 is not None:
                ev2 = nonempty(obs_events(spec, o2, k2l))
                if ev2 != ev_c:
                    return (f"{cls}:false-switch-has-effect", f"{cls} filters={jdict(d)} holds {ev_c}, without the False entries {ev2}")
        return None


def oracle_obj(evs, ids, d, dev=None):
    r_c, s_c = real_obj_ctor(evs, ids, d, dev)
    r_m, s_m = real_obj_methods(evs, ids, d, dev)
    unknown = [k for k in d if k not in pmodel.ALL_FILTERS]
    if unknown:
        if not r_c.startswith("err"):
            return ("obj:unknown-key-accepted", f"ParticleObjectStorer(list, filters={jdict(d)}) accepted the unknown key {unknown[0]!r}")
        return None
    if "spacetime_cut" in d and not isinstance(d["spacetime_cut"], (list, tuple)):
        if not r_c.startswith("err"):
            return ("obj:spacetime-value-accepted", "non-sequence spacetime_cut value accepted")
        return None
    if r_c.startswith("err") and r_m.startswith("err"):
        on = pdg_filters_on(d)
        if on and any(_nan_pdg(p) for ev in evs for p in ev):
            d0 = {k: v for k, v in d.items() if k not in on}
            if not real_obj_ctor(evs, ids, d0, dev)[0].startswith("err"):
                return ("obj:raises-on-unset-pdg", f"ParticleObjectStorer filters={jdict(d)}: both paths raise ({r_c} / {r_m}) on "
                                                   f"particles without PDG id; without {on} nothing raises")
        return None
    if s_c is not None and pdg_filters_on(d) and any(_nan_pdg(p) for ev in s_c.particle_objects_list() for p in ev):
        return ("obj:unset-pdg-survives", f"ParticleObjectStorer(list, filters={jdict(d)}) keeps a particle without PDG id "
                                          f"although {pdg_filters_on(d)} need one")
    if s_c is not None:
        ev_c0 = nonempty(obj_ids(s_c.particle_objects_list(), ids))
        cc0 = counts_of_nonempty(s_c)
        if cc0 != [len(e) for e in ev_c0]:
            return ("obj:ctor-counts-stale", f"ParticleObjectStorer(list, filters={jdict(d)}): counts of the non-empty events {cc0}, "
                                             f"but the events hold {[len(e) for e in ev_c0]} particles")
    if r_m == "err attr" and obj_methods_unusable():
        return ("obj:methods-unusable", "every filter method of a ParticleObjectStorer raises AttributeError "
                                        "('list' object has no attribute 'ndim'): the method path of the property does not exist (C04)")
    if r_m.startswith("err") != r_c.startswith("err"):
        return ("obj:one-path-raises", f"ParticleObjectStorer filters={jdict(d)}: constructor `{r_c}` but methods `{r_m}`")
    ev_c = nonempty(obj_ids(s_c.particle_objects_list(), ids))
    ev_m = nonempty(obj_ids(s_m.particle_objects_list(), ids))
    if ev_c != ev_m:
        return ("obj:events-differ", f"ParticleObjectStorer filters={jdict(d)}: constructor holds {ev_c}, methods hold {ev_m}")
    want = [len(e) for e in ev_m]
    cc, cm = counts_of_nonempty(s_c), counts_of_nonempty(s_m)
    if cc != want or cm != want:
        return ("obj:counts-differ", f"ParticleObjectStorer filters={jdict(d)}: counts of the non-empty events: constructor {cc}, "
                                     f"methods {cm}, events {want}")
    return None


# ------------------------------------------------------------------ devices: judged on the real code
DEVICE_KEY = [("text", "text-variant-differs"), ("copy", "copy-differs"), ("env", "environment-dependent"),
              ("dictkind", "dict-kind-differs"), ("inner", "container-differs")]


def _single_devs(dev):
    out = []
    for f, key in DEVICE_KEY:
        v = getattr(dev, f)
        if v:
            out.append((Dev(**{f: v}), key))
    return out


def observe_file(cls, spec, sel, d, dev):
    """what both paths hold: (status, non-empty events as file lines, their counts) for constructor and methods"""
    k2l = key2line(spec)
    kw = {} if sel is None else {"events": sel}
    with environment(dev):
        r_c, o_c = load_real(spec, dev, filters=d, **kw)
        r_m, o_m = real_methods(spec, sel, d, k2l, dev)

    def ob(o):
        return ("err",) if o is None else ("ok", nonempty(obs_events(spec, o, k2l)), counts_of_nonempty(o))
    return ob(o_c), ob(o_m)


def device_file(cls, spec, sel, d, dev):
    """None | "skipped" | (key, what): the property under the device, and: the device changes nothing observable"""
    if dev.text and not text_accepted(spec, dev.text):
        return "skipped"
    dev.state_changed = None
    with environment(dev):
        r = oracle_file(cls, spec, sel, d, dev)
    if dev.state_changed:
        return (f"{cls}:global-state-changed", f"{cls} events={sel} filters={jdict(d)}: the calls changed the {dev.state_changed}")
    if r:
        return (r[0], r[1] + f"  [with {dev.tag()}]")
    base = observe_file(cls, spec, sel, d, None)
    if observe_file(cls, spec, sel, d, dev) != base:
        key, which, got = "device-changes-result", dev, None
        for one, k in _single_devs(dev):
            got = observe_file(cls, spec, sel, d, one)
            if got != base:
                key, which = k, one
                break
        return (f"{cls}:{key}", f"{cls} events={sel} filters={jdict(d)}: with {which.tag()} constructor/methods hold "
                                f"{got if got is not None else observe_file(cls, spec, sel, d, dev)}, plainly {base}")
    return None


def observe_obj(evs, ids, d, dev):
    with environment(dev):
        r_c, s_c = real_obj_ctor(evs, ids, d, dev)
        r_m, s_m = real_obj_methods(evs, ids, d, dev)

    def ob(o):
        return ("err",) if o is None else ("ok", nonempty(obj_ids(o.particle_objects_list(), ids)), counts_of_nonempty(o))
    return ob(s_c), ob(s_m)


def device_obj(evs, ids, d, dev):
    dev.state_changed = None
    with environment(dev):
        r = oracle_obj(evs, ids, d, dev)
    if dev.state_changed:
        return ("obj:global-state-changed", f"ParticleObjectStorer filters={jdict(d)}: the calls changed the {dev.state_changed}")
    if r:
        return (r[0], r[1] + f"  [with {dev.tag()}]")
    base = observe_obj(evs, ids, d, None)
    if observe_obj(evs, ids, d, dev) != base:
        key, which, got = "device-changes-result", dev, None
        for one, k in _single_devs(dev):
            got = observe_obj(evs, ids, d, one)
            if got != base:
                key, which = k, one
                break
        return (f"obj:{key}", f"ParticleObjectStorer filters={jdict(d)}: with {which.tag()} constructor/methods hold "
                              f"{got if got is not None else observe_obj(evs, ids, d, dev)}, plainly {base}")
    return None


def obj_iterator_inputs(evs, ids, d):
    """inputs the documentation excludes ("a list of lists"): outer tuple / object array / generator, one-shot inner
    iterators.  Either they are rejected (as on the clean tree) or, if a tree accepts them, they must give what the
    list gives — on both paths."""
    base = observe_obj(evs, ids, d, None)
    makers = {"outer-tuple": lambda: tuple(list(e) for e in evs),
              "outer-generator": lambda: (list(e) for e in evs),
              "outer-map": lambda: map(list, evs),
              "inner-iterator": lambda: [iter(list(e)) for e in evs],
              "inner-generator": lambda: [(p for p in e) for e in evs]}
    from sparkx.ParticleObjectStorer import ParticleObjectStorer
    for name, mk in makers.items():
        for path in ("ctor", "meth"):
            try:
                if path == "ctor":
                    st = ParticleObjectStorer(mk(), filters=d)
                else:
                    st = ParticleObjectStorer(mk())
                    apply_methods(st, d)
            except Exception:
                continue  # rejected
            got = ("ok", nonempty(obj_ids(st.particle_objects_list(), ids)), counts_of_nonempty(st))
            want = base[0] if path == "ctor" else base[1]
            if got != want:
                return ("obj:iterator-input-differs", f"ParticleObjectStorer accepts a {name} input ({path} path) but holds {got}; "
                                                      f"the list input gives {want} (filters={jdict(d)})")
    return None


def shrink_dev(judge, dev, key):
    """drop the variations that are not needed for the failure"""
    cur = dev
    for f, _ in DEVICE_KEY:
        if getattr(cur, f):
            j = cur.json()
            j[f] = False if f == "env" else None
            cand = Dev(**j)
            if cand.trivial():
                continue
            try:
                r = judge(cand)
            except Exception:
                continue
            if isinstance(r, tuple) and r[0] == key:
                cur = cand
    return cur


def run_devices(ctx, n):
    rng = ctx.rng
    seen = set()
    skipped = 0
    for i in range(n):
        if i % 3 == 2:
            evs, ids, specs = obj_events(rng)
            d, tag = gen_dict(rng, "obj", [p for ev in evs for p in ev], malformed=rng.random() < 0.3)
            dev = gen_dev(rng, False)
            ctx.case(("device-obj", repr(specs), repr(jdict(d)), dev.tag()), True)
            ctx.count("device/obj/" + dev.tag())
            r = device_obj(evs, ids, d, dev)
            if r is None and i % 15 == 2:
                r = obj_iterator_inputs(evs, ids, d)
                ctx.count("device/obj/iterator-inputs")
            if isinstance(r, tuple) and r[0] not in seen:
                seen.add(r[0])
                dev = shrink_dev(lambda dv: device_obj(evs, ids, d, dv), dev, r[0])
                r = device_obj(evs, ids, d, dev) or r
                ctx.violation(r[0], r[1], dict(input=dict(cls="obj", events=specs, filters=jdict(d), dev=dev.json()),
                                               how_to_replay="./check C05 --replay <this file>"))
            continue
        cls = "oscar" if rng.random() < 0.55 else "jetscape"
        spec = gen_file(rng, ["oscar2013", "oscar2013", "extended", "ascii"] if cls == "oscar" else ["jetscape", "jetscapeP"])
        d, tag = gen_dict(rng, cls, particles_of(spec), malformed=rng.random() < 0.3)
        sel = gen_sel(rng, len(spec.events))
        dev = gen_dev(rng, True)
        r = device_file(cls, spec, sel, d, dev)
        if r == "skipped":
            skipped += 1
            ctx.count("device/text-variant-not-accepted/" + dev.text)
            continue
        ctx.case(("device", cls, spec.text(), repr(sel), repr(jdict(d)), dev.tag()), True)
        ctx.count("device/file/" + dev.tag())
        if isinstance(r, tuple) and r[0] not in seen:
            seen.add(r[0])
            dev = shrink_dev(lambda dv: device_file(cls, spec, sel, d, dv), dev, r[0])
            s2, d2 = shrink_file(cls, spec, sel, d, r[0], dev)
            r2 = device_file(cls, s2, sel, d2, dev)
            r2 = r2 if isinstance(r2, tuple) else r
            ctx.violation(r[0], r2[1], dict(input=dict(cls=cls, spec=spec_json(s2), events=jval(sel), filters=jdict(d2), dev=dev.json()),
                                            how_to_replay="./check C05 --replay <this file>"))
    bad = sorted({k for k, v in _text_ok.items() if not v})
    if bad:
        ctx.notes.append("text variations the tree under test does not read like the plain file (left out): " + ", ".join(map(str, bad)))


def shrink_file(cls, spec, sel, d, key, dev=None):
    """greedy: drop dictionary entries, then events (only without events=), then particles"""
    def fails(sp, dd):
        try:
            r = device_file(cls, sp, sel, dd, dev) if dev is not None else oracle_file(cls, sp, sel, dd)
        except Exception:
            return False
        return isinstance(r, tuple) and r[0] == key
    cur_s, cur_d = spec, dict(d)
    changed = True
    while changed:
        changed = False
        for k in list(cur_d):
            dd = {a: b for a, b in cur_d.items() if a != k}
            if dd and fails(cur_s, dd):
                cur_d, changed = dd, True
                break
        if changed:
            continue
        if sel is None and len(cur_s.events) > 1:
            for i in range(len(cur_s.events)):
                evs = cur_s.events[:i] + cur_s.events[i + 1:]
                sp = rmodel.FileSpec(cur_s.kind, cur_s.cols, evs, tab_headers=cur_s.tab_headers)
                if fails(sp, cur_d):
                    cur_s, changed = sp, True
                    break
        if changed:
            continue
        for i in range(len(cur_s.events)):
            for j in range(len(cur_s.events[i])):
                evs = copy.deepcopy(cur_s.events)
                del evs[i][j]
                sp = rmodel.FileSpec(cur_s.kind, cur_s.cols, evs, labels=cur_s.labels, impacts=cur_s.impacts, tab_headers=cur_s.tab_headers)
                if fails(sp, cur_d):
                    cur_s, changed = sp, True
                    break
            if changed:
                break
    return cur_s, cur_d


def search(ctx, budget_s):
    rng = ctx.rng
    t0 = time.time()
    n = 0
    limit = 6000 if ctx.thorough else 500
    seen = set()
    while time.time() - t0 < budget_s and n < limit:
        n += 1
        if n % 4 == 0:
            evs, ids, specs = obj_events(rng)
            d, tag = gen_dict(rng, "obj", [p for ev in evs for p in ev])
            ctx.case(("oracle-obj", repr(specs), repr(jdict(d))), len(d) >= 2)
            r = oracle_obj(evs, ids, d)
            if r and r[0] not in seen:
                seen.add(r[0])
                ctx.violation(r[0], r[1], dict(input=dict(cls="obj", events=specs, filters=jdict(d)),
                                               how_to_replay="./check C05 --replay <this file>"))
            continue
        cls = "oscar" if rng.random() < 0.55 else "jetscape"
        spec = gen_file(rng, ["oscar2013", "oscar2013", "extended", "ascii"] if cls == "oscar" else ["jetscape", "jetscapeP"])
        d, tag = gen_dict(rng, cls, particles_of(spec))
        sel = gen_sel(rng, len(spec.events))
        ctx.case(("oracle", cls, spec.text(), repr(sel), repr(jdict(d))), len(d) >= 2 or sel is not None)
        r = oracle_file(cls, spec, sel, d)
        if r and r[0] not in seen:
            seen.add(r[0])
            s2, d2 = shrink_file(cls, spec, sel, d, r[0])
            r2 = oracle_file(cls, s2, sel, d2) or r
            ctx.violation(r[0], r2[1], dict(input=dict(cls=cls, spec=spec_json(s2), events=jval(sel), filters=jdict(d2)),
                                            how_to_replay="./check C05 --replay <this file>"))
    ctx.cov["oracle_cases"] = n
    ctx.count("oracle", n)


# ------------------------------------------------------------------ corpus / replay
def run_input(inp):
    """oracle on a stored input; returns None or (key, what)"""
    d = unjdict(inp["filters"])
    dev = dev_unjson(inp.get("dev"))
    if inp["cls"] == "obj":
        evs, ids = materialise(inp["events"])
        r = device_obj(evs, ids, d, dev) if dev else oracle_obj(evs, ids, d)
        return r if r is not None or dev else obj_iterator_inputs(evs, ids, d) if inp.get("iterators") else r
    spec = spec_unjson(inp["spec"])
    sel = unjval(inp.get("events"))
    r = device_file(inp["cls"], spec, sel, d, dev) if dev else oracle_file(inp["cls"], spec, sel, d)
    return r if isinstance(r, tuple) else None


def run_corpus(ctx):
    cdir = common.VERIF / "harness/corpus/C05"
    if not cdir.exists():
        return
    lines, items = [], []
    for f in sorted(cdir.glob("*.json")):
        j = json.loads(f.read_text())
        inp = j["input"]
        r = run_input(inp)
        ctx.count("corpus")
        ctx.case(("corpus", f.name), True)
        if r:
            ctx.violation(r[0], f"corpus {f.name}: {r[1]}", dict(input=inp, how_to_replay=f"./check C05 --replay harness/corpus/C05/{f.name}"))
        if inp["cls"] != "obj":
            spec = spec_unjson(inp["spec"])
            d = unjdict(inp["filters"])
            e = enc_dict(d)
            if e is None:
                continue
            sel = unjval(inp.get("events"))
            kind = "oscar" if not spec.is_jetscape() else spec.kind
            base = "\t".join([inp["cls"], kind, rmodel.sel_enc(sel), e, rmodel.views_enc(spec), common.hexs(spec.text())])
            lines += ["ctor\t" + base, "meth\t" + base]
            items.append((f.name, inp["cls"], spec, sel, d))
    if lines:
        outs = common.run_driver("C05", lines)
        for j, (name, cls, spec, sel, d) in enumerate(items):
            r_c = real_ctor(spec, sel, d)
            r_m, _ = real_methods(spec, sel, d, key2line(spec))
            if norm_err(r_c) != norm_err(outs[2 * j]) or norm_err(r_m) != norm_err(outs[2 * j + 1]):
                ctx.brk("correspondence-broken", f"corpus {name}: code `{r_c}` / `{r_m}` vs model `{outs[2 * j]}` / `{outs[2 * j + 1]}`")


def replay(ctx, path):
    j = json.loads(open(path).read())
    inp = j.get("input")
    if not inp:
        print(f"[C05] replay file names a broken obligation, not an input: {j.get('broken')}")
        return 1
    r = run_input(inp)
    if r:
        print(f"VIOLATION property=C05 replay={path}")
        print(r[1])
        return 1
    print("[C05] replay: property holds on this input now")
    return 0
