"""C05 — constructor filters are equivalent to calling the filter methods.

Tie T: the three `__apply_kwargs_filters` chains and the method wrappers -> Gen/Dispatch.lean (translate/dispatch.py).
Tie C: (a) dispatch: the real chains / methods are run with recording stand-ins for the Filter functions and the
           recorded calls are compared with the model's `ctorDispatch` / `methodsOfDict`;
       (b) `X(file, events=sel, filters=d)` against the `ctor` op (shared reader model + dispatch inside the event);
       (c) `X(file, events=sel).k1(v1).k2(v2)…` against the `meth` op (method path with recount);
       (d) the conclusion of `ctor_eq_methods` evaluated on the model (`cmp` op) must say `same=1` with `booked=1`;
       (e) `ParticleObjectStorer(list, filters=d)` / method chain against `objctor` / `objmeth`;
       (f) the layer-1 observations (`analyse`) of every line of the generated files against the kind of line the
           grammar wrote (classification on the real bytes).
Oracle (search): the property itself on the real classes, no model involved.
"""
import copy
import inspect
import json
import math
import os
import time
import warnings

import numpy as np

import common
import pmodel
import rmodel
from common import f2h
from translate import dispatch as tdispatch

warnings.filterwarnings("ignore")
np.seterr(all="ignore")

CLASSES = ("oscar", "jetscape", "obj")
SWITCH = set(pmodel.NOARG)
ERRNAME = [(NotImplementedError, "err notimpl"), (AttributeError, "err attr"), (KeyError, "err key"),
           (TypeError, "err type"), (ValueError, "err value"), (IndexError, "err index"), (NameError, "err name")]


def classify(e):
    for k, v in ERRNAME:
        if isinstance(e, k):
            return v
    return "err other:" + type(e).__name__


# ------------------------------------------------------------------ translator (tie T)
def translate(ctx):
    text, regions = tdispatch.render(common.read_src)
    changed = common.write_if_changed(common.LEAN / "SparkxVerif/Gen/Dispatch.lean", text)
    golden = common.LEAN / "golden/Gen/Dispatch.lean"
    ctx.cov["gen_equals_golden"] = golden.exists() and golden.read_text() == text
    if changed:
        ctx.notes.append("Gen/Dispatch.lean regenerated (source differs from last run)")
    return regions


# ------------------------------------------------------------------ dictionaries
def enc_val(key, v):
    """driver encoding of a dictionary value, by the kind of argument the filter of that name takes"""
    if key in SWITCH or key not in pmodel.ALL_FILTERS:
        if isinstance(v, bool):
            return "T" if v else "F"
        return None
    if key in pmodel.SPECIES or key == "particle_status":
        return "i~" + pmodel.enc_iarg(v)
    if key in pmodel.WINDOW:
        return "w~" + pmodel.enc_window(v)
    if key in pmodel.RAPLIKE:
        return "r~" + pmodel.enc_rarg(v)
    if key == "lower_event_energy_cut":
        if isinstance(v, bool) or not isinstance(v, (int, float)) or v != v:
            return None
        return "x~" + f2h(float(v))
    if key == "spacetime_cut":
        if isinstance(v, (list, tuple)):
            if len(v) != 2 or not isinstance(v[0], str):
                return None
            d = v[0] if v[0] in ("t", "x", "y", "z") else "bad"
            return "q~%s~%s~%s" % ("L" if isinstance(v, list) else "T", d, pmodel.enc_window(v[1]))
        if v is None or isinstance(v, (int, float)):
            return "o"
        return None
    return None


def enc_dict(d):
    if not d:
        return "="
    out = []
    for k, v in d.items():
        e = enc_val(k, v)
        if e is None or not k.replace("_", "").isalnum():
            return None
        out.append(f"{k}={e}")
    return "+".join(out)


def jval(v):
    if isinstance(v, np.ndarray):
        return {"nd": [int(x) for x in v]}
    if isinstance(v, tuple):
        return {"tu": [jval(x) for x in v]}
    if isinstance(v, list):
        return {"li": [jval(x) for x in v]}
    return v


def unjval(v):
    if isinstance(v, dict):
        if "nd" in v:
            return np.array(v["nd"])
        if "tu" in v:
            return tuple(unjval(x) for x in v["tu"])
        if "li" in v:
            return [unjval(x) for x in v["li"]]
    return v


def jdict(d):
    return [[k, jval(v)] for k, v in d.items()]


def unjdict(l):
    return {k: unjval(v) for k, v in l}


def pick_limits(rng, values, nonneg=False):
    vals = sorted({float(v) for v in values if v == v and abs(v) != math.inf and (not nonneg or v >= 0)})
    if not vals:
        vals = [0.0, 1.0]
    cands = list(vals)
    for a, b in zip(vals, vals[1:]):
        cands.append((a + b) / 2)
    cands += [vals[0] - 1.0 if not nonneg else 0.0, vals[-1] + 1.0]
    a, b = rng.choice(cands), rng.choice(cands)
    r = rng.random()
    if r < 0.2:
        return (None, b)
    if r < 0.4:
        return (a, None)
    return (a, b)


def gen_value(rng, key, parts):
    """an admissible, boundary-biased value for `key`, with cut limits taken from the particles' own values"""
    def vals(f):
        out = []
        for p in parts:
            with np.errstate(all="ignore"):
                try:
                    out.append(float(f(p)))
                except Exception:
                    pass
        return out
    if key in SWITCH:
        return True
    if key in ("pT_cut", "mT_cut"):
        return pick_limits(rng, vals(lambda p: p.pT_abs() if key == "pT_cut" else p.mT()), nonneg=True)
    if key == "multiplicity_cut":
        return pick_limits(rng, [0, 1, 2, 3, 4, 5, 11], nonneg=True)
    if key in pmodel.RAPLIKE:
        m = {"rapidity_cut": "rapidity", "pseudorapidity_cut": "pseudorapidity", "spacetime_rapidity_cut": "spacetime_rapidity"}[key]
        vs = [v for v in vals(lambda p: getattr(p, m)()) if v == v and abs(v) != math.inf]
        if rng.random() < 0.5:
            t = pick_limits(rng, vs)
            if t[0] is None or t[1] is None:
                t = (t[0] if t[0] is not None else -1.0, t[1] if t[1] is not None else 1.0)
            return t
        return abs(rng.choice(vs)) if vs and rng.random() < 0.7 else rng.choice([0.5, 1.0, 2.0, -1.0])
    if key in pmodel.SPECIES:
        pool = sorted({int(p.pdg) for p in parts if p.pdg == p.pdg}) or [211]
        a, _ = pmodel.gen_int_container(rng, pool + [2212, 22])
        return a
    if key == "particle_status":
        pool = sorted({int(p.status) for p in parts if p.status == p.status}) or [0]
        a, _ = pmodel.gen_int_container(rng, pool + [27])
        return a
    if key == "spacetime_cut":
        d = rng.choice(["t", "x", "y", "z"])
        return [d, pick_limits(rng, vals(lambda p: getattr(p, d)))]
    if key == "lower_event_energy_cut":
        es = vals(lambda p: p.E)
        tot = sum(e for e in es if e == e and e > 0) or 1.0
        return rng.choice([0.5, tot / 4, tot / 2, max(es) if es else 1.0, 1.0])
    return True


_supported = {}


def class_keys(rng, cls):
    """keys to draw from: the filter methods the real class offers; 1 time in 8 all 27 names (a key the class does
    not support is a case of its own)"""
    if cls not in _supported:
        _supported[cls] = [k for k in pmodel.ALL_FILTERS if supported(cls, {k: None})]
    return list(pmodel.ALL_FILTERS) if rng.random() < 0.125 else list(_supported[cls])


def gen_dict(rng, cls, parts, malformed=True):
    n = rng.choice([1, 1, 2, 2, 3, 4])
    keys = class_keys(rng, cls)
    # bias away from keys that raise for most generated particles
    weights = [0.3 if k == "spacetime_rapidity_cut" else 1.0 for k in keys]
    chosen = []
    while len(chosen) < n:
        k = rng.choices(keys, weights)[0]
        if k not in chosen:
            chosen.append(k)
    d = {}
    for k in chosen:
        v = gen_value(rng, k, parts)
        if k in SWITCH and rng.random() < 0.3:
            v = False
        d[k] = v
    tag = "plain"
    if malformed and rng.random() < 0.12:
        r = rng.random()
        if r < 0.45:
            bad = rng.choice(["bogus", "charged", "pt_cut", "keep_photons", "strange_particles", "Particle_status"])
            items = list(d.items())
            items.insert(rng.randrange(len(items) + 1), (bad, rng.choice([True, False])))
            d = dict(items)
            tag = "unknown-key"
        elif r < 0.8:
            t = pick_limits(rng, [0.0, 1.0, 2.0])
            d["spacetime_cut"] = rng.choice([("t", t), 3, None, 2.5])
            tag = "spacetime-not-list"
        else:
            k = rng.choice(["pT_cut", "rapidity_cut", "multiplicity_cut"])
            d[k] = rng.choice([(None, None), (-1.0, 2.0), [0.0, 1.0]]) if k != "rapidity_cut" else (None, 1.0)
            tag = "bad-argument"
    return d, tag


# ------------------------------------------------------------------ real code: dispatch with recording stand-ins
def _stub(particle_list, *args, **kwargs):
    # body of every Filter function while the dispatch is observed: record (own name, arguments), change nothing.
    # It runs with the globals of sparkx.Filter, hence the imports by hand; the name is the code object's.
    __import__("builtins")._c05_rec.append((__import__("sys")._getframe().f_code.co_name, args))
    return particle_list


def _recording(mods, rec):
    """Make the Filter functions record their calls *wherever the code under test looks them up*: the function
    objects of sparkx.Filter themselves get a recording body (their `__code__` is swapped), so a reference held in a
    loader module (`from sparkx.Filter import *`), in a registry dict, in a closure or a partial records all the same.
    Functions whose code cannot be swapped (closures) are replaced by identity in every dict / list that refers to
    them.  `mods` are searched too for names that are no longer the sparkx.Filter objects (older layouts)."""
    import builtins
    import gc
    import importlib
    F = importlib.import_module("sparkx.Filter")
    builtins._c05_rec = rec
    saved = []
    for name in pmodel.ALL_FILTERS:
        f = getattr(F, name, None)
        if f is None or not hasattr(f, "__code__"):
            continue
        try:
            old = f.__code__
            f.__code__ = _stub.__code__.replace(co_name=name)
            saved.append(("code", f, old))
        except (ValueError, TypeError):
            rep = (lambda n: (lambda ev, *a, **k: (rec.append((n, a)), ev)[1]))(name)
            for holder in gc.get_referrers(f):
                if isinstance(holder, dict):
                    for k, v in list(holder.items()):
                        if v is f:
                            holder[k] = rep
                            saved.append(("dict", holder, k, f))
                elif isinstance(holder, list):
                    for k, v in enumerate(holder):
                        if v is f:
                            holder[k] = rep
                            saved.append(("dict", holder, k, f))
    return saved


def _restore(saved):
    import builtins
    for item in reversed(saved):
        if item[0] == "code":
            item[1].__code__ = item[2]
        else:
            item[1][item[2]] = item[3]
    if hasattr(builtins, "_c05_rec"):
        del builtins._c05_rec


_observable = {}


def dispatch_observable(cls, path):
    """can the calls of this class's constructor chain / methods be observed at all?  (one supported switch key on a
    probe object must be recorded)"""
    key = (cls, path)
    if key not in _observable:
        d = {"charged_particles": True}
        r = _ctor_dispatch(cls, d) if path == "ctor" else _method_dispatch(cls, d)
        _observable[key] = (r == "charged")
    return _observable[key]


def loader_class(cls):
    import importlib
    MO = importlib.import_module("sparkx.loader.OscarLoader")
    MJ = importlib.import_module("sparkx.loader.JetscapeLoader")
    MP = importlib.import_module("sparkx.loader.ParticleObjectLoader")
    return {"oscar": (MO, MO.OscarLoader), "jetscape": (MJ, MJ.JetscapeLoader), "obj": (MP, MP.ParticleObjectLoader)}[cls]


def storer_class(cls):
    from sparkx.Oscar import Oscar
    from sparkx.Jetscape import Jetscape
    from sparkx.ParticleObjectStorer import ParticleObjectStorer
    return {"oscar": Oscar, "jetscape": Jetscape, "obj": ParticleObjectStorer}[cls]


def _probe_metadata(obj):
    """the per-event metadata a loaded object carries (Oscar: footer positions, impact parameters), for the bare
    probe objects made with __new__ — delegating overrides read it"""
    obj.event_origin_ = [0]
    obj.impact_parameters_ = [0.0]
    obj.event_end_lines_ = ["# event 0 end 0 impact   0.000 scattering_projectile_target yes"]


def enc_calls(rec):
    return "+".join(pmodel.encode_call(n, a) for n, a in rec) if rec else "-"


def _ctor_dispatch(cls, d):
    mod, L = loader_class(cls)
    rec = []
    saved = _recording([mod], rec)
    try:
        obj = L.__new__(L)
        f = getattr(obj, f"_{L.__name__}__apply_kwargs_filters", None)
        if f is None:
            return "unobservable"
        try:
            f([[]], d)
        except Exception as e:
            return classify(e)
        return enc_calls(rec)
    finally:
        _restore(saved)


def real_ctor_dispatch(cls, d):
    return _ctor_dispatch(cls, d) if dispatch_observable(cls, "ctor") else "unobservable"


def real_method_dispatch(cls, d):
    return _method_dispatch(cls, d) if dispatch_observable(cls, "meth") else "unobservable"


def method_arity(S, name):
    m = getattr(S, name, None)
    if m is None or not callable(m):
        return None
    return len(inspect.signature(m).parameters) - 1


def apply_methods(obj, d):
    """calling the same filter methods with the same arguments in the same order"""
    S = type(obj)
    for k, v in d.items():
        n = method_arity(S, k)
        if n is None or k.startswith("_"):
            raise AttributeError(k)
        if n == 0:
            if v is True:
                getattr(obj, k)()
            elif v is not False:
                raise RuntimeError("switch value is not a bool")
        elif n == 1:
            getattr(obj, k)(v)
        elif n == 2:
            if not isinstance(v, (list, tuple)):
                raise TypeError("value is not a sequence")
            getattr(obj, k)(v[0], v[1])
        else:
            raise RuntimeError("unexpected method arity")
    return obj


def _method_dispatch(cls, d):
    import importlib
    B = importlib.import_module("sparkx.BaseStorer")
    O = importlib.import_module("sparkx.Oscar")
    J = importlib.import_module("sparkx.Jetscape")
    P = importlib.import_module("sparkx.ParticleObjectStorer")
    S = storer_class(cls)
    rec = []
    saved = _recording([B, O, J, P], rec)
    try:
        obj = S.__new__(S)
        obj.particle_list_ = [[]]
        obj.num_output_per_event_ = np.array([[0, 0]])
        obj.num_events_ = 1
        _probe_metadata(obj)
        try:
            apply_methods(obj, d)
        except Exception as e:
            return classify(e)
        return enc_calls(rec)
    finally:
        _restore(saved)


# ------------------------------------------------------------------ real code: files
def particles_of(spec):
    """the Particle built from every row, as the loader builds it (for cut values and views)"""
    from sparkx.Particle import Particle
    fmt = {"oscar2013": "Oscar2013", "extended": "Oscar2013Extended", "ascii": "ASCII"}.get(spec.kind, "JETSCAPE")
    attrs = [rmodel.ATTR_OF[c] for c in spec.cols] if spec.kind == "ascii" else None
    out = []
    for ev in spec.events:
        for row in ev:
            with np.errstate(all="ignore"):
                out.append(Particle(fmt, np.asarray(row), attrs) if attrs is not None else Particle(fmt, np.asarray(row)))
    return out


def key2line(spec):
    m = {}
    for ev, lns in zip(spec.events, spec.particle_line_numbers()):
        for row, ln in zip(ev, lns):
            m[float(row[0])] = ln
    return m


def obs_events(spec, obj, k2l):
    return [[k2l.get(rmodel.first_col_key(spec, p), -1) for p in ev] for ev in obj.particle_objects_list()]


def show_ids(evs):
    if len(evs) == 0:
        return "-"
    return "|".join("." if not ev else ",".join(str(i) for i in ev) for ev in evs)


def booked(obj):
    c = obj.num_output_per_event()
    evs = obj.particle_objects_list()
    if not isinstance(c, np.ndarray) or c.ndim != 2 or len(evs) == 0:
        return False
    return [int(x) for x in c[:, 1]] == [len(e) for e in evs]


def real_methods(spec, sel, d, k2l):
    """canonical result of X(file, events=sel).k1(v1)… like the `meth` op"""
    kw = {} if sel is None else {"events": sel}
    ctor, path = rmodel.open_real(spec, None, **kw)
    try:
        try:
            with np.errstate(all="ignore"):
                obj = ctor()
        except Exception as e:
            return rmodel.classify(e), None
        b = booked(obj)
        try:
            with np.errstate(all="ignore"):
                apply_methods(obj, d)
        except Exception as e:
            return classify(e), None
        s = f"ok booked={1 if b else 0} counts={rmodel.counts_repr(obj.num_output_per_event())} ev={show_ids(obs_events(spec, obj, k2l))}"
        return s, obj
    finally:
        os.unlink(path)


def load_real(spec, **kw):
    """(canonical string like rmodel.run_real, object or None); the temporary file is always removed"""
    ctor, path = rmodel.open_real(spec, None, **kw)
    try:
        try:
            with np.errstate(all="ignore"):
                obj = ctor()
        except Exception as e:
            return rmodel.classify(e), None
        k2l = key2line(spec)
        ev_s = show_ids(obs_events(spec, obj, k2l)) if len(obj.particle_objects_list()) else ""
        fmt = obj.oscar_format() if not spec.is_jetscape() else "-"
        attrs = ",".join(obj.custom_attr_list) if not spec.is_jetscape() else ""
        foot = len(obj.event_end_lines_) if not spec.is_jetscape() else 0
        s = (f"ok ne={obj.num_events()} counts={rmodel.counts_repr(obj.num_output_per_event())} fmt={fmt} attrs={attrs} "
             f"foot={foot} ev={ev_s}")
        return s, obj
    finally:
        os.unlink(path)


def real_ctor(spec, sel, d):
    kw = {"filters": d}
    if sel is not None:
        kw["events"] = sel
    return load_real(spec, **kw)[0]


def gen_sel(rng, nev):
    r = rng.random()
    if r < 0.45:
        return None
    if r < 0.7:
        return rng.randrange(nev) if rng.random() < 0.95 else nev + 1
    a = rng.randrange(nev)
    b = rng.randrange(a, nev)
    return (a, b)


def gen_file(rng, kinds=None):
    while True:
        spec = rmodel.gen_spec(rng, kinds=kinds or ["oscar2013", "oscar2013", "extended", "extended", "ascii", "jetscape",
                                                    "jetscape", "jetscapeP"], maxpart=4)
        # ASCII files with exactly 13 / 21 columns are mis-detected on an unpatched tree (C01's finding, not ours)
        if spec.kind == "ascii" and len(spec.cols) in (13, 21):
            continue
        if spec.kind == "ascii" and "pdg" in spec.cols[1:] and len(spec.cols) > 2 and rng.random() < 0.5:
            # an ASCII file without PDG column: every particle has an unset PDG id; the PDG-needing filters
            # (species, class filters, remove_photons) must drop such particles on both paths, none may raise
            j = spec.cols.index("pdg")
            cols = [c for c in spec.cols if c != "pdg"]
            if len(cols) not in (13, 21):
                spec = rmodel.FileSpec("ascii", cols, [[row[:j] + row[j + 1:] for row in ev] for ev in spec.events],
                                       labels=spec.labels, impacts=spec.impacts, tab_headers=spec.tab_headers)
        return spec


def spec_json(spec):
    return dict(kind=spec.kind, cols=list(spec.cols), events=spec.events, labels=spec.labels, impacts=spec.impacts,
                tab_headers=spec.tab_headers, trailing_nl=spec.trailing_nl)


def spec_unjson(j):
    return rmodel.FileSpec(j["kind"], j["cols"], j["events"], labels=j.get("labels"), impacts=j.get("impacts"),
                           tab_headers=j.get("tab_headers", True), trailing_nl=j.get("trailing_nl", True))


def line_kinds(spec):
    """what the grammar wrote on every line: hdr / out / end / part / evh / trailer"""
    if spec.is_jetscape():
        k = ["hdr"]
        for ev in spec.events:
            k += ["evh"] + ["part"] * len(ev)
        return k + ["trailer"]
    k = ["hdr", "hdr", "hdr"]
    for ev in spec.events:
        k += ["out"] + ["part"] * len(ev) + ["end"]
    return k


def check_classification(ctx, spec, ans):
    """layer-1 observations of the real bytes (driver `lines` op) against the kind of line the grammar wrote"""
    if not ans.startswith("ok "):
        ctx.brk("correspondence-broken", f"lines op: {ans[:80]}")
        return
    rows = ans[3:].split(";")
    kinds = line_kinds(spec)
    if len(rows) != len(kinds):
        ctx.brk("correspondence-broken", f"lines op: {len(rows)} lines, grammar wrote {len(kinds)}")
        return
    ncol = len(spec.cols)
    for i, (r, k) in enumerate(zip(rows, kinds)):
        bits, nt, ntt = r.split(":")
        hsh, evt, out, outsp, insp, start, end, endsp, sig, wgt, evcap, nhad, npar = [c == "1" for c in bits]
        if spec.is_jetscape():
            ok = {"hdr": hsh and not sig and not (evcap and wgt),
                  "evh": hsh and evcap and wgt and not sig and (nhad or npar) and int(ntt) == 9,
                  "part": (not hsh) and (not sig) and not (evcap and wgt) and int(ntt) == 7,
                  "trailer": hsh and sig}[k]
        else:
            is_evline = evt and (out or insp or start)
            ok = {"hdr": hsh and not is_evline and not end if i > 0 else True,
                  "out": hsh and is_evline and outsp and not endsp,
                  "end": hsh and end and endsp and not is_evline and not outsp,
                  "part": (not hsh) and (not is_evline) and int(nt) == ncol}[k]
        if not ok:
            ctx.brk("correspondence-broken", f"line {i} ({k}) of a generated {spec.kind} file is not observed as its kind: {r}",
                    case=dict(spec=spec_json(spec)))
            return


# ------------------------------------------------------------------ real code: particle-object storer
def obj_events(rng):
    nev = rng.randint(1, 4)
    evs, ids, specs = [], {}, []
    n = 0
    for _ in range(nev):
        m = 0 if rng.random() < 0.15 else rng.randint(1, 5)
        ev, sp = [], []
        for _ in range(m):
            s = pmodel.gen_spec(rng, 0.08)
            if rng.random() < 0.15:
                s.pop("pdg", None)  # unset PDG id: PDG-needing filters must drop the particle, on both paths
            p = pmodel.make_particle(s)
            ids[id(p)] = n
            n += 1
            ev.append(p)
            sp.append(s)
        evs.append(ev)
        specs.append(sp)
    return evs, ids, specs


def materialise(specs):
    evs, ids = [], {}
    n = 0
    for sp in specs:
        ev = []
        for s in sp:
            p = pmodel.make_particle(s)
            ids[id(p)] = n
            n += 1
            ev.append(p)
        evs.append(ev)
    return evs, ids


def real_obj_ctor(evs, ids, d):
    from sparkx.ParticleObjectStorer import ParticleObjectStorer
    try:
        with np.errstate(all="ignore"):
            s = ParticleObjectStorer([list(e) for e in evs], filters=d)
    except Exception as e:
        return classify(e), None
    return "ok " + pmodel.ids_of(s.particle_objects_list(), ids), s


def real_obj_methods(evs, ids, d):
    from sparkx.ParticleObjectStorer import ParticleObjectStorer
    try:
        with np.errstate(all="ignore"):
            s = ParticleObjectStorer([list(e) for e in evs])
            apply_methods(s, d)
    except Exception as e:
        return classify(e), None
    return "ok " + pmodel.ids_of(s.particle_objects_list(), ids), s


# ------------------------------------------------------------------ correspondence
def norm_err(s):
    """the comparison is as fine as the property needs: which events / counts, or *that* it raises"""
    return "err" if s.startswith("err") else s


def correspond(ctx):
    rng = ctx.rng
    ctx.rule = ("random well-formed Oscar2013 / Extended(20,22) / ASCII / JETSCAPE(hadron, parton) files (1-6 events, empty events, "
                "0-4 particles, one 10+ event) x events= none / k / (a,b) x ordered dictionaries of 1-4 distinct keys out of all 27 "
                "filter names (keys a class does not support included), True/False switches, cut limits taken from the particles' "
                "own values or midway between them, None limits, swapped limits; 12% malformed (unknown key, spacetime_cut not a "
                "list, invalid argument); ASCII files without a PDG column and particle lists with unset PDG ids x PDG-needing filters "
                "(both paths must drop such particles, none may raise); the same for ParticleObjectStorer on particle lists. non-trivial = constructor path "
                "succeeds, >=2 filters or events= given, and at least one particle removed and one kept, or an event emptied")
    ctx.assumptions += [
        "C05: the main theorems assume that the plain load succeeds and is Booked (2-D counts, one row per held event, second "
        "column = number of particles): this is what C01/C02 state for well-formed files; here it is evaluated by the driver on "
        "every generated file (`booked=1`), not proved from the file grammar. Nothing is proved about the string layer `analyse`; "
        "the observations of every generated line are compared with the kind of line the grammar wrote (`lines` op).",
        "C05: filter semantics enter through Props/C03 (`applyCall = keepSpec pred` for admissible arguments; PDG ids present for "
        "species filters no longer required since /repo 9f9a2e0 — ASCII files without PDG column and particle lists with unset PDG ids "
        "are generated and judged: both paths must drop such particles; |z| < t for the space-time rapidity cut); the particle view of a line (charge, pT, class flags …) is "
        "supplied by the harness from the real Particle.",
        "C05: dictionary values are encoded by the kind of argument the receiving filter takes (switch / int container / window / "
        "rapidity argument / threshold / [dim, window]); Python dict = association list with distinct keys.",
        "C05: ParticleObjectStorer: model of the events only (its count bookkeeping is C04's subject); oracle checks its counts on the real code.",
    ]
    # ---- corpus first
    run_corpus(ctx)
    # ---- (a) dispatch with recording stand-ins
    nd = ctx.n(300, 4000)
    cases, lines = [], []
    dummy_parts = [pmodel.make_particle(pmodel.gen_spec(rng, 0.0)) for _ in range(6)]
    for i in range(nd):
        cls = CLASSES[i % 3]
        d, tag = gen_dict(rng, cls, dummy_parts)
        e = enc_dict(d)
        if e is None:
            continue
        cases.append((cls, d, tag))
        lines.append(f"calls\t{cls}\t{e}")
    # every single key, True and False, for every class (exhaustive over the tables)
    for cls in CLASSES:
        for k in pmodel.ALL_FILTERS + ["bogus"]:
            for sw in (True, False):
                v = sw if (k in SWITCH or k == "bogus") else gen_value(rng, k, dummy_parts)
                if not sw and k not in SWITCH and k != "bogus":
                    continue
                d = {k: v}
                cases.append((cls, d, "single"))
                lines.append(f"calls\t{cls}\t{enc_dict(d)}")
    outs = common.run_driver("C05", lines)
    unobs = [f"{cls}/{path}" for cls in CLASSES for path in ("ctor", "meth") if not dispatch_observable(cls, path)]
    if unobs:
        ctx.notes.append("dispatch not observable (no sparkx.Filter function object is entered by a probe call) for: " + ", ".join(unobs)
                         + " — dispatch comparison skipped there; the equality constructor == method chain is judged on real results")
    for (cls, d, tag), out in zip(cases, outs):
        rc = real_ctor_dispatch(cls, d)
        rm = real_method_dispatch(cls, d)
        real = f"ok ctor={rc} meth={rm}"
        ctx.count(f"dispatch/{cls}/{tag}")
        ctx.case(("dispatch", cls, repr(jdict(d))), tag != "single" and not rc.startswith("err"))
        if "unobservable" in (rc, rm):
            # the calls of this path cannot be seen from outside (no Filter function object is entered): the dispatch
            # comparison is skipped for it; constructor == method chain is still judged end to end below and by the oracle
            ctx.count("dispatch/unobservable")
            a, b = norm_pair(real), norm_pair(out)
            if isinstance(a, tuple) and isinstance(b, tuple) and all(x == y for x, y, o in zip(a, b, (rc, rm)) if o != "unobservable"):
                continue
        if norm_pair(real) != norm_pair(out):
            ctx.brk("correspondence-broken", f"dispatch {cls} {jdict(d)}: code `{real}` vs model `{out}`",
                    case=dict(cls=cls, dict=jdict(d)))
    # ---- (b)-(d),(f) files
    nf = ctx.n(800, 6000)
    fcases, flines = [], []
    for i in range(nf):
        cls = "oscar" if rng.random() < 0.55 else "jetscape"
        spec = gen_file(rng, ["oscar2013", "oscar2013", "extended", "extended", "ascii"] if cls == "oscar" else ["jetscape", "jetscape", "jetscapeP"])
        parts = particles_of(spec)
        d, tag = gen_dict(rng, cls, parts)
        e = enc_dict(d)
        if e is None:
            continue
        sel = gen_sel(rng, len(spec.events))
        kind = "oscar" if not spec.is_jetscape() else spec.kind
        views = rmodel.views_enc(spec)
        base = "\t".join([cls, kind, rmodel.sel_enc(sel), e, views, common.hexs(spec.text())])
        fcases.append((cls, spec, sel, d, tag))
        flines += ["ctor\t" + base, "meth\t" + base, "cmp\t" + base, "lines\t" + common.hexs(spec.text())]
    outs = common.run_driver("C05", flines)
    for j, (cls, spec, sel, d, tag) in enumerate(fcases):
        o_ctor, o_meth, o_cmp, o_lines = outs[4 * j: 4 * j + 4]
        k2l = key2line(spec)
        r_ctor = real_ctor(spec, sel, d)
        r_meth, _ = real_methods(spec, sel, d, k2l)
        nin = sum(len(e) for e in spec.events)
        nontriv = False
        if r_ctor.startswith("ok"):
            kept = sum(1 for x in r_ctor.split("ev=")[1].replace("|", ",").split(",") if x not in (".", ""))
            nontriv = (len(d) >= 2 or sel is not None) and 0 < kept < nin
        ctx.case((cls, spec.text(), repr(sel), repr(jdict(d))), nontriv,
                 sample=dict(cls=cls, kind=spec.kind, events=sel, filters=jdict(d), ctor_code=r_ctor, ctor_model=o_ctor,
                             methods_code=r_meth, methods_model=o_meth, cmp_model=o_cmp))
        ctx.count(f"file/{spec.kind}/{tag}/" + ("sel" if sel is not None else "all") + ("/err" if r_ctor.startswith("err") else ""))
        if pdg_filters_on(d) and "pdg" not in spec.cols:
            ctx.count("unset-pdg/file+pdg-filter" + ("/err" if r_ctor.startswith("err") else ""))
        case = dict(cls=cls, spec=spec_json(spec), events=jval(sel), filters=jdict(d))
        if norm_err(r_ctor) != norm_err(o_ctor):
            ctx.brk("correspondence-broken", f"{cls}(file, events={sel}, filters={jdict(d)}): code `{r_ctor}` vs model `{o_ctor}`", case=case)
        if norm_err(r_meth) != norm_err(o_meth):
            ctx.brk("correspondence-broken", f"{cls}(file, events={sel}) + methods {jdict(d)}: code `{r_meth}` vs model `{o_meth}`", case=case)
        if o_cmp.startswith("ok "):
            ctx.count("cmp/same" if "same=1" in o_cmp else "cmp/DIFFERENT")
            if "same=1" not in o_cmp or "booked=1" not in o_cmp:
                ctx.brk("correspondence-broken", f"the model itself contradicts ctor_eq_methods (or Booked fails) on a generated case: {o_cmp}", case=case)
        elif o_cmp.startswith("ctor-only") or o_cmp.startswith("meth-only"):
            ctx.count("cmp/one-sided-error")
        check_classification(ctx, spec, o_lines)
    # ---- (e) particle-object storer
    no = ctx.n(400, 4000)
    ocases, olines = [], []
    for i in range(no):
        evs, ids, specs = obj_events(rng)
        d, tag = gen_dict(rng, "obj", [p for ev in evs for p in ev])
        e = enc_dict(d)
        if e is None:
            continue
        ee = pmodel.encode_events(evs, ids)
        ocases.append((evs, ids, specs, d, tag))
        olines += [f"objctor\t{e}\t{ee}", f"objmeth\t{e}\t{ee}"]
    outs = common.run_driver("C05", olines)
    for j, (evs, ids, specs, d, tag) in enumerate(ocases):
        o_c, o_m = outs[2 * j], outs[2 * j + 1]
        r_c, _ = real_obj_ctor(evs, ids, d)
        r_m, _ = real_obj_methods(evs, ids, d)
        ctx.case(("obj", repr(specs), repr(jdict(d))), r_c.startswith("ok") and len(d) >= 2)
        ctx.count(f"obj/{tag}" + ("/err" if r_c.startswith("err") else ""))
        if pdg_filters_on(d) and any(_nan_pdg(p) for ev in evs for p in ev):
            ctx.count("unset-pdg/obj+pdg-filter" + ("/err" if r_c.startswith("err") else ""))
        case = dict(cls="obj", events=specs, filters=jdict(d))
        if norm_err(r_c) != norm_err(o_c):
            ctx.brk("correspondence-broken", f"ParticleObjectStorer(list, filters={jdict(d)}): code `{r_c}` vs model `{o_c}`", case=case)
        if r_m == "err attr" and obj_methods_unusable():
            ctx.count("obj/methods-unusable(C04)")
            continue
        if norm_err(r_m) != norm_err(o_m):
            ctx.brk("correspondence-broken", f"ParticleObjectStorer(list) + methods {jdict(d)}: code `{r_m}` vs model `{o_m}`", case=case)


def norm_pair(s):
    """`ok ctor=<calls|err…> meth=<calls|err…>` with error kinds collapsed"""
    if not s.startswith("ok ctor="):
        return s
    a, b = s[len("ok ctor="):].split(" meth=")
    return (norm_err(a), norm_err(b))


_unusable = None


def obj_methods_unusable():
    """C04's defect: every filter method of a ParticleObjectStorer raises AttributeError ('list' has no 'ndim')"""
    global _unusable
    if _unusable is None:
        from sparkx.ParticleObjectStorer import ParticleObjectStorer
        try:
            ParticleObjectStorer([[pmodel.make_particle({"charge": 1})]]).charged_particles()
            _unusable = False
        except AttributeError:
            _unusable = True
        except Exception:
            _unusable = False
    return _unusable


# ------------------------------------------------------------------ oracle: the property on the real code
def nonempty(evs):
    return [e for e in evs if e]


def counts_of_nonempty(obj):
    """per-event counts of the events that still contain particles, from num_output_per_event()"""
    c = obj.num_output_per_event()
    if isinstance(c, np.ndarray):
        if c.ndim == 2 and c.shape[1] == 2:
            return [int(x) for x in c[:, 1] if int(x) != 0]
        if c.ndim == 1 and c.shape[0] == 2:
            return [int(c[1])] if int(c[1]) != 0 else []
        if c.size == 0:
            return []
        return ["shape", tuple(c.shape)]
    if isinstance(c, list):
        return [int(x) for x in c if int(x) != 0]
    return ["type", type(c).__name__]


def supported(cls, d):
    """keys of d that the class offers as a usable method (decided on the real class, not on the model)"""
    S = storer_class(cls)
    obj = S.__new__(S)
    obj.particle_list_ = [[]]
    obj.num_output_per_event_ = np.array([[0, 0]])
    obj.num_events_ = 1
    _probe_metadata(obj)
    for k in d:
        if k not in pmodel.ALL_FILTERS or method_arity(S, k) is None:
            return False
        try:
            n = method_arity(S, k)
            args = {0: (), 1: (gen_noop_arg(k),), 2: ("t", (0.0, 1.0))}[n]
            getattr(obj, k)(*args)
        except NotImplementedError:
            return False
        except Exception:
            pass
    return True


def gen_noop_arg(k):
    if k in pmodel.SPECIES or k == "particle_status":
        return 1
    if k in pmodel.RAPLIKE:
        return 1.0
    if k == "lower_event_energy_cut":
        return 1.0
    return (0.0, 1.0)


def pdg_filters_on(d):
    return [k for k, v in d.items() if k in pmodel.NEEDS_PDG and v is not False]


def _nan_pdg(p):
    v = p.pdg
    return isinstance(v, float) and v != v


def oracle_file(cls, spec, sel, d):
    """None or (key, what): X(file, events=sel, filters=d)  vs  X(file, events=sel).k1(v1)…"""
    k2l = key2line(spec)
    kw = {} if sel is None else {"events": sel}
    r_c, o_c = load_real(spec, filters=d, **kw)
    if True:
        r_m, o_m = real_methods(spec, sel, d, k2l)
        plain, o_p = load_real(spec, **kw)
        if plain.startswith("err"):
            return None  # the selection itself is invalid: outside the property
        unknown = [k for k in d if k not in pmodel.ALL_FILTERS]
        if unknown:
            if not r_c.startswith("err"):
                return (f"{cls}:unknown-key-accepted", f"{cls}(file, filters={jdict(d)}) accepted the unknown key {unknown[0]!r}: {r_c}")
            return None
        if not supported(cls, d):
            if not r_c.startswith("err"):
                return (f"{cls}:unsupported-key-accepted", f"{cls}(file, filters={jdict(d)}) accepted a key whose method raises NotImplementedError")
            return None
        if "spacetime_cut" in d and not isinstance(d["spacetime_cut"], (list, tuple)):
            if not r_c.startswith("err"):
                return (f"{cls}:spacetime-value-accepted", f"{cls}(file, filters={jdict(d)}) accepted a non-sequence spacetime_cut value")
            return None
        if r_m.startswith("err") and r_c.startswith("err"):
            # inadmissible argument / data: both raise -- but never because of a particle without PDG id
            on = pdg_filters_on(d)
            if on and o_p is not None and any(_nan_pdg(p) for ev in o_p.particle_objects_list() for p in ev):
                d0 = {k: v for k, v in d.items() if k not in on}
                r0 = load_real(spec, filters=d0, **kw)[0] if d0 else plain
                if not r0.startswith("err"):
                    return (f"{cls}:raises-on-unset-pdg", f"{cls} events={sel} filters={jdict(d)}: both paths raise ({r_c} / {r_m}) on "
                                                          f"particles without PDG id; without {on} nothing raises")
            return None
        if "spacetime_cut" in d and isinstance(d["spacetime_cut"], tuple) and r_c.startswith("err") and not r_m.startswith("err"):
            return None  # documented: the constructor wants a list
        if r_m.startswith("err") != r_c.startswith("err"):
            return (f"{cls}:one-path-raises", f"{cls} events={sel} filters={jdict(d)}: constructor `{r_c}` but methods `{r_m}`")
        if pdg_filters_on(d):
            for path, o in (("constructor", o_c), ("methods", o_m)):
                if any(_nan_pdg(p) for ev in o.particle_objects_list() for p in ev):
                    return (f"{cls}:unset-pdg-survives", f"{cls} events={sel} filters={jdict(d)}: the {path} path keeps a particle "
                                                         f"without PDG id although {pdg_filters_on(d)} need one")
        ev_c = nonempty(obs_events(spec, o_c, k2l))
        ev_m = nonempty(obs_events(spec, o_m, k2l))
        if ev_c != ev_m:
            return (f"{cls}:events-differ" + ("+events" if sel is not None else ""),
                    f"{cls} events={sel} filters={jdict(d)}: constructor holds {ev_c}, methods hold {ev_m}")
        cc, cm = counts_of_nonempty(o_c), counts_of_nonempty(o_m)
        want = [len(e) for e in ev_m]
        if cc != want or cm != want:
            return (f"{cls}:counts-differ" + ("+events" if sel is not None else ""),
                    f"{cls} events={sel} filters={jdict(d)}: counts of the non-empty events: constructor {cc}, methods {cm}, events {want}")
        # a switch that is False has no effect
        if any(v is False for v in d.values()):
            d2 = {k: v for k, v in d.items() if v is not False}
            r2, o2 = load_real(spec, filters=d2, **kw) if d2 else load_real(spec, **kw)
            if o2 is not None:
                ev2 = nonempty(obs_events(spec, o2, k2l))
                if ev2 != ev_c:
                    return (f"{cls}:false-switch-has-effect", f"{cls} filters={jdict(d)} holds {ev_c}, without the False entries {ev2}")
        return None


def oracle_obj(evs, ids, d):
    r_c, s_c = real_obj_ctor(evs, ids, d)
    r_m, s_m = real_obj_methods(evs, ids, d)
    unknown = [k for k in d if k not in pmodel.ALL_FILTERS]
    if unknown:
        if not r_c.startswith("err"):
            return ("obj:unknown-key-accepted", f"ParticleObjectStorer(list, filters={jdict(d)}) accepted the unknown key {unknown[0]!r}")
        return None
    if "spacetime_cut" in d and not isinstance(d["spacetime_cut"], (list, tuple)):
        if not r_c.startswith("err"):
            return ("obj:spacetime-value-accepted", "non-sequence spacetime_cut value accepted")
        return None
    if r_c.startswith("err") and r_m.startswith("err"):
        on = pdg_filters_on(d)
        if on and any(_nan_pdg(p) for ev in evs for p in ev):
            d0 = {k: v for k, v in d.items() if k not in on}
            if not real_obj_ctor(evs, ids, d0)[0].startswith("err"):
                return ("obj:raises-on-unset-pdg", f"ParticleObjectStorer filters={jdict(d)}: both paths raise ({r_c} / {r_m}) on "
                                                   f"particles without PDG id; without {on} nothing raises")
        return None
    if s_c is not None and pdg_filters_on(d) and any(_nan_pdg(p) for ev in s_c.particle_objects_list() for p in ev):
        return ("obj:unset-pdg-survives", f"ParticleObjectStorer(list, filters={jdict(d)}) keeps a particle without PDG id "
                                          f"although {pdg_filters_on(d)} need one")
    if s_c is not None:
        ev_c0 = nonempty([[ids[id(p)] for p in ev] for ev in s_c.particle_objects_list()])
        cc0 = counts_of_nonempty(s_c)
        if cc0 != [len(e) for e in ev_c0]:
            return ("obj:ctor-counts-stale", f"ParticleObjectStorer(list, filters={jdict(d)}): counts of the non-empty events {cc0}, "
                                             f"but the events hold {[len(e) for e in ev_c0]} particles")
    if r_m == "err attr" and obj_methods_unusable():
        return ("obj:methods-unusable", "every filter method of a ParticleObjectStorer raises AttributeError "
                                        "('list' object has no attribute 'ndim'): the method path of the property does not exist (C04)")
    if r_m.startswith("err") != r_c.startswith("err"):
        return ("obj:one-path-raises", f"ParticleObjectStorer filters={jdict(d)}: constructor `{r_c}` but methods `{r_m}`")
    ev_c = nonempty([[ids[id(p)] for p in ev] for ev in s_c.particle_objects_list()])
    ev_m = nonempty([[ids[id(p)] for p in ev] for ev in s_m.particle_objects_list()])
    if ev_c != ev_m:
        return ("obj:events-differ", f"ParticleObjectStorer filters={jdict(d)}: constructor holds {ev_c}, methods hold {ev_m}")
    want = [len(e) for e in ev_m]
    cc, cm = counts_of_nonempty(s_c), counts_of_nonempty(s_m)
    if cc != want or cm != want:
        return ("obj:counts-differ", f"ParticleObjectStorer filters={jdict(d)}: counts of the non-empty events: constructor {cc}, "
                                     f"methods {cm}, events {want}")
    return None


def shrink_file(cls, spec, sel, d, key):
    """greedy: drop dictionary entries, then events (only without events=), then particles"""
    def fails(sp, dd):
        try:
            r = oracle_file(cls, sp, sel, dd)
        except Exception:
            return False
        return r is not None and r[0] == key
    cur_s, cur_d = spec, dict(d)
    changed = True
    while changed:
        changed = False
        for k in list(cur_d):
            dd = {a: b for a, b in cur_d.items() if a != k}
            if dd and fails(cur_s, dd):
                cur_d, changed = dd, True
                break
        if changed:
            continue
        if sel is None and len(cur_s.events) > 1:
            for i in range(len(cur_s.events)):
                evs = cur_s.events[:i] + cur_s.events[i + 1:]
                sp = rmodel.FileSpec(cur_s.kind, cur_s.cols, evs, tab_headers=cur_s.tab_headers)
                if fails(sp, cur_d):
                    cur_s, changed = sp, True
                    break
        if changed:
            continue
        for i in range(len(cur_s.events)):
            for j in range(len(cur_s.events[i])):
                evs = copy.deepcopy(cur_s.events)
                del evs[i][j]
                sp = rmodel.FileSpec(cur_s.kind, cur_s.cols, evs, labels=cur_s.labels, impacts=cur_s.impacts, tab_headers=cur_s.tab_headers)
                if fails(sp, cur_d):
                    cur_s, changed = sp, True
                    break
            if changed:
                break
    return cur_s, cur_d


def search(ctx, budget_s):
    rng = ctx.rng
    t0 = time.time()
    n = 0
    limit = 6000 if ctx.thorough else 500
    seen = set()
    while time.time() - t0 < budget_s and n < limit:
        n += 1
        if n % 4 == 0:
            evs, ids, specs = obj_events(rng)
            d, tag = gen_dict(rng, "obj", [p for ev in evs for p in ev])
            ctx.case(("oracle-obj", repr(specs), repr(jdict(d))), len(d) >= 2)
            r = oracle_obj(evs, ids, d)
            if r and r[0] not in seen:
                seen.add(r[0])
                ctx.violation(r[0], r[1], dict(input=dict(cls="obj", events=specs, filters=jdict(d)),
                                               how_to_replay="./check C05 --replay <this file>"))
            continue
        cls = "oscar" if rng.random() < 0.55 else "jetscape"
        spec = gen_file(rng, ["oscar2013", "oscar2013", "extended", "ascii"] if cls == "oscar" else ["jetscape", "jetscapeP"])
        d, tag = gen_dict(rng, cls, particles_of(spec))
        sel = gen_sel(rng, len(spec.events))
        ctx.case(("oracle", cls, spec.text(), repr(sel), repr(jdict(d))), len(d) >= 2 or sel is not None)
        r = oracle_file(cls, spec, sel, d)
        if r and r[0] not in seen:
            seen.add(r[0])
            s2, d2 = shrink_file(cls, spec, sel, d, r[0])
            r2 = oracle_file(cls, s2, sel, d2) or r
            ctx.violation(r[0], r2[1], dict(input=dict(cls=cls, spec=spec_json(s2), events=jval(sel), filters=jdict(d2)),
                                            how_to_replay="./check C05 --replay <this file>"))
    ctx.cov["oracle_cases"] = n
    ctx.count("oracle", n)


# ------------------------------------------------------------------ corpus / replay
def run_input(inp):
    """oracle on a stored input; returns None or (key, what)"""
    d = unjdict(inp["filters"])
    if inp["cls"] == "obj":
        evs, ids = materialise(inp["events"])
        return oracle_obj(evs, ids, d)
    spec = spec_unjson(inp["spec"])
    sel = unjval(inp.get("events"))
    return oracle_file(inp["cls"], spec, sel, d)


def run_corpus(ctx):
    cdir = common.VERIF / "harness/corpus/C05"
    if not cdir.exists():
        return
    lines, items = [], []
    for f in sorted(cdir.glob("*.json")):
        j = json.loads(f.read_text())
        inp = j["input"]
        r = run_input(inp)
        ctx.count("corpus")
        ctx.case(("corpus", f.name), True)
        if r:
            ctx.violation(r[0], f"corpus {f.name}: {r[1]}", dict(input=inp, how_to_replay=f"./check C05 --replay harness/corpus/C05/{f.name}"))
        if inp["cls"] != "obj":
            spec = spec_unjson(inp["spec"])
            d = unjdict(inp["filters"])
            e = enc_dict(d)
            if e is None:
                continue
            sel = unjval(inp.get("events"))
            kind = "oscar" if not spec.is_jetscape() else spec.kind
            base = "\t".join([inp["cls"], kind, rmodel.sel_enc(sel), e, rmodel.views_enc(spec), common.hexs(spec.text())])
            lines += ["ctor\t" + base, "meth\t" + base]
            items.append((f.name, inp["cls"], spec, sel, d))
    if lines:
        outs = common.run_driver("C05", lines)
        for j, (name, cls, spec, sel, d) in enumerate(items):
            r_c = real_ctor(spec, sel, d)
            r_m, _ = real_methods(spec, sel, d, key2line(spec))
            if norm_err(r_c) != norm_err(outs[2 * j]) or norm_err(r_m) != norm_err(outs[2 * j + 1]):
                ctx.brk("correspondence-broken", f"corpus {name}: code `{r_c}` / `{r_m}` vs model `{outs[2 * j]}` / `{outs[2 * j + 1]}`")


def replay(ctx, path):
    j = json.loads(open(path).read())
    inp = j.get("input")
    if not inp:
        print(f"[C05] replay file names a broken obligation, not an input: {j.get('broken')}")
        return 1
    r = run_input(inp)
    if r:
        print(f"VIOLATION property=C05 replay={path}")
        print(r[1])
        return 1
    print("[C05] replay: property holds on this input now")
    return 0
