"""C02 — event selection equals loading everything and slicing.  Tie T + C (+ oracle on the real classes).

translate  : `BaseStorer.particle_list` zero-event guard (translate/particlelist.py) and the event-selection arithmetic of
             OscarLoader / JetscapeLoader (translate/readersel.py -> Gen/ReaderSelGen.lean: validation of `events`,
             `_get_num_skip_lines`, `__get_num_read_lines`, prelude of `set_particle_list`, count-row tuples,
             `first_event_header`, `event_index`, selection of impact parameters), proved equal to the hand-written model in
             Lemmas/ReaderSelGenGen.lean; the line loop itself stays a hand-written mirror.

correspond : generated Oscar2013 / Extended / ASCII / JETSCAPE files (every pattern of empty events for <= 4 events)
             x every valid selector (each k, each a <= b) and invalid ones (out of range, negative, reversed)
             x filters (none, and dictionaries over every key the loader class supports);
             real `Oscar` / `Jetscape` (returned object + `particle_list()` + `impact_parameters()`) vs the Lean driver's
             `obs` answer (model side), the model's spec side (`sliceLoaded`, `ctorFilter`) and the driver's
             well-formedness check on the real bytes.  `ParticleObjectStorer` slicing vs `sliceList`.
search     : the property itself on the real classes against an independent Python reference
             (load everything with the real class and slice in Python; with filters the constructor-filter semantics
             computed from `pmodel.ref_filter`).
"""
import copy
import glob
import pickle
import random as _random
import json
import math
import os
import time
import warnings

import numpy as np

import common
import pmodel
import rmodel
from translate import particlelist as tpl
from translate import readersel as trs

warnings.filterwarnings("ignore")
np.seterr(all="ignore")

# private scratch directory for the generated files (other builders use rmodel with the default /tmp)
import atexit
import shutil
import tempfile
_TMP = tempfile.mkdtemp(prefix="verif_c02_")
os.environ["VERIF_TMP"] = _TMP
atexit.register(lambda: shutil.rmtree(_TMP, ignore_errors=True))

OSCAR_KEYS = ["charged_particles", "uncharged_particles", "particle_species", "remove_particle_species", "participants",
              "spectators", "lower_event_energy_cut", "spacetime_cut", "pT_cut", "mT_cut", "rapidity_cut",
              "pseudorapidity_cut", "spacetime_rapidity_cut", "multiplicity_cut", "keep_hadrons", "keep_leptons",
              "keep_mesons", "keep_baryons", "keep_up", "keep_down", "keep_strange", "keep_charm", "keep_bottom",
              "keep_top", "remove_photons"]
JETSCAPE_KEYS = ["charged_particles", "uncharged_particles", "particle_species", "remove_particle_species",
                 "lower_event_energy_cut", "pT_cut", "mT_cut", "rapidity_cut", "pseudorapidity_cut", "multiplicity_cut",
                 "particle_status", "keep_hadrons", "keep_leptons", "keep_quarks", "keep_mesons", "keep_baryons",
                 "keep_up", "keep_down", "keep_strange", "keep_charm", "keep_bottom", "keep_top", "remove_photons"]
KINDS = ["oscar2013", "extended", "ascii", "jetscape", "jetscapeP"]
KF_NOKEPT = "particle_list-raises:no-event-kept"


def translate(ctx):
    """tie T: (1) does `BaseStorer.particle_list` handle `num_events_ == 0` before indexing the counts array?
    (2) the event-selection arithmetic of OscarLoader / JetscapeLoader (validation of `events`, `_get_num_skip_lines`,
    `__get_num_read_lines`, the bookkeeping prelude of `set_particle_list`, count-row tuples, `first_event_header`,
    `event_index`, the selection of impact parameters by `loaded_event_indices_`) -> Gen/ReaderSelGen.lean.
    `Untranslatable` from (2) -> golden model, tie = correspondence only (common.standard_flow)."""
    text, regions = tpl.render(common.read_src("BaseStorer.py"))
    changed = common.write_if_changed(common.LEAN / "SparkxVerif/Gen/ParticleList.lean", text)
    golden = common.LEAN / "golden/Gen/ParticleList.lean"
    pl_golden = golden.exists() and golden.read_text() == text
    ctx.cov["zero_events_guard"] = regions[0]["zero_events_guard"]
    if changed:
        ctx.notes.append("Gen/ParticleList.lean regenerated (source differs from last run)")
    if regions[0]["skeleton_sha"] != tpl.GOLDEN_SKELETON:
        ctx.notes.append("BaseStorer.particle_list changed outside the num_events == 0 guard (hand-modelled part; tie C decides)")
        ctx.cov["skeleton_changed"] = True
    ctx.notes.append("particle_list(): " + ("guarded for num_events == 0 -> C02_particleList_full_of_guard applies (full statement)"
                                              if regions[0]["zero_events_guard"] else
                                              "no guard for num_events == 0 -> only C02_particleList_partial applies; "
                                              "particleList_fails_when_nothing_kept is the witness monitored by the oracle"))
    ctx.cov["gen_equals_golden"] = pl_golden        # refined below; stays as is if the selection translator raises
    gtext, gregions, _ = trs.render_all(common.read_src(trs.SRC_OSCAR), common.read_src(trs.SRC_JETSCAPE))
    gchanged = common.write_if_changed(common.LEAN / "SparkxVerif/Gen/ReaderSelGen.lean", gtext)
    ggolden = common.LEAN / "golden/Gen/ReaderSelGen.lean"
    sel_golden = ggolden.exists() and ggolden.read_text() == gtext
    ctx.cov["gen_equals_golden"] = pl_golden and sel_golden
    ctx.cov["readersel_equals_golden"] = sel_golden
    if gchanged:
        ctx.notes.append("Gen/ReaderSelGen.lean regenerated (source differs from last run)")
    ctx.cov["tie"] = ("T + C: the selection arithmetic of OscarLoader / JetscapeLoader (validation of `events`, _get_num_skip_lines, "
                      "__get_num_read_lines, prelude of set_particle_list: counts slice / num_events_ / first_label / event_index, "
                      "count-row tuples, first_event_header, selection of impact parameters by loaded_event_indices_) and the "
                      "num_events == 0 guard of BaseStorer.particle_list are regenerated from the source and proved equal to the "
                      "model (genReadOscar_eq, genReadJetscape_eq); the line loop (classification, filters, closeEvent) and "
                      "ParticleObjectStorer slicing are hand-written mirrors tied by correspondence")
    return regions + gregions


def keys_of(kind):
    return JETSCAPE_KEYS if kind.startswith("jetscape") else OSCAR_KEYS


# ----------------------------------------------------------------------------- (de)serialisation for replays / corpus
def enc_arg(a):
    if isinstance(a, tuple):
        return {"t": [enc_arg(x) for x in a]}
    if isinstance(a, list):
        return {"l": [enc_arg(x) for x in a]}
    if isinstance(a, np.ndarray):
        return {"a": [int(x) for x in a]}
    if isinstance(a, (np.integer,)):
        return int(a)
    if isinstance(a, float) and (a != a or a in (math.inf, -math.inf)):
        return {"f": repr(a)}
    return a


def dec_arg(a):
    if isinstance(a, dict):
        if "t" in a:
            return tuple(dec_arg(x) for x in a["t"])
        if "l" in a:
            return [dec_arg(x) for x in a["l"]]
        if "a" in a:
            return np.array(a["a"])
        if "f" in a:
            return float(a["f"])
    return a


def enc_calls(calls):
    return None if calls is None else [[n, [enc_arg(x) for x in args]] for n, args in calls]


def dec_calls(c):
    return None if c is None else [(n, tuple(dec_arg(x) for x in args)) for n, args in c]


def enc_sel(sel):
    return None if sel is None else (list(sel) if isinstance(sel, tuple) else sel)


def dec_sel(s):
    return None if s is None else (tuple(s) if isinstance(s, list) else s)


def enc_spec(spec):
    return dict(kind=spec.kind, cols=list(spec.cols), events=spec.events, tab_headers=spec.tab_headers,
                trailing_nl=spec.trailing_nl, impacts=list(spec.impacts), text_variant=getattr(spec, "text_variant", "lf"))


def dec_spec(d):
    imp = d.get("impacts")
    sp = rmodel.FileSpec(d["kind"], d["cols"], d["events"], tab_headers=d.get("tab_headers", True),
                         trailing_nl=d.get("trailing_nl", True),
                         impacts=imp if imp is not None and len(imp) == len(d["events"]) else None)
    sp.text_variant = d.get("text_variant", "lf")
    return sp


# ----------------------------------------------------------------------------- text variants, copies, environment
# The same file content written differently.  Only the FREE-TEXT parts are touched (Oscar: units line and version line;
# JETSCAPE: the first header line) — token lines are left alone.  A variant is admissible for a file when the plain full
# load X(path) reads it; the selection must then equal the slice of that load like for any other file.
TEXT_VARIANTS = ["lf", "crlf", "nonascii", "blanks", "nonascii+crlf", "blanks+crlf"]
FREE_TEXT_TAIL = " \u2013 build of J. M\u00fcller, \u00c5ngstr\u00f6m \u03b7"


def spec_text(spec):
    """the characters of the file (with \\r\\n line ends for the crlf variants)"""
    tv = getattr(spec, "text_variant", "lf") or "lf"
    L = spec.lines()
    free = [0] if spec.is_jetscape() else [1, 2]
    if "nonascii" in tv:
        for i in free:
            L[i] = L[i] + FREE_TEXT_TAIL
    if "blanks" in tv:
        for i in free:
            L[i] = L[i] + "   "
    t = "\n".join(L) + ("\n" if spec.trailing_nl else "")
    return t.replace("\n", "\r\n") if "crlf" in tv else t


def spec_bytes(spec):
    return spec_text(spec).encode("utf-8")


def spec_decoded(spec):
    """what Python's text layer (universal newlines, UTF-8) hands to the loaders — the input of the model"""
    return spec_text(spec).replace("\r\n", "\n")


def via_copy(obj, via):
    """the object itself, or a copy.copy / copy.deepcopy / pickle round trip of it"""
    if via == "copy":
        return copy.copy(obj)
    if via == "deepcopy":
        return copy.deepcopy(obj)
    if via == "pickle":
        return pickle.loads(pickle.dumps(obj))
    return obj


def gen_via(rng, p=0.3):
    return rng.choice(["copy", "deepcopy", "pickle"]) if rng.random() < p else None


def _np_state_equal(a, b):
    return a[0] == b[0] and np.array_equal(a[1], b[1]) and tuple(a[2:]) == tuple(b[2:])


class EnvGuard:
    """process-global state around constructor calls.  `on`: the calls run with np.seterr(all="warn"), unusual numpy
    print options and advanced `random` / `np.random` global generators; `cwd`: inside a fresh directory (bare relative
    file names).  In every case the state found before a call must be the state left after it."""

    def __init__(self, on=False, cwd=False, seed=0):
        self.on, self.cwd, self.seed, self.dir = on, cwd, seed, None

    def __enter__(self):
        self.saved = (os.getcwd(), _random.getstate(), np.random.get_state(), np.geterr(), np.get_printoptions())
        if self.cwd:
            self.dir = tempfile.mkdtemp(prefix="cwd_", dir=_TMP)
            os.chdir(self.dir)
        if self.on:
            np.seterr(all="warn")
            np.set_printoptions(precision=2, threshold=3, linewidth=30, suppress=True, sign="+")
            _random.seed(self.seed)
            for _ in range(self.seed % 17 + 3):
                _random.random()
            np.random.seed(self.seed % (2 ** 32))
            np.random.rand(self.seed % 13 + 2)
        return self

    def snap(self):
        return (os.getcwd(), _random.getstate(), np.random.get_state(), np.geterr(), np.get_printoptions())

    @staticmethod
    def changed(a, b):
        if a[0] != b[0]:
            return "cwd", f"{a[0]} -> {b[0]}"
        if a[1] != b[1]:
            return "random-global-state", "the state of the `random` module generator moved"
        if not _np_state_equal(a[2], b[2]):
            return "np.random-global-state", "the state of numpy's global generator moved"
        if a[3] != b[3]:
            return "np.geterr", f"{a[3]} -> {b[3]}"
        if a[4] != b[4]:
            return "np.printoptions", "numpy print options changed"
        return None

    def __exit__(self, *exc):
        cwd, rs, nrs, err, po = self.saved
        os.chdir(cwd)
        _random.setstate(rs)
        np.random.set_state(nrs)
        np.seterr(**err)
        np.set_printoptions(**po)
        if self.dir:
            shutil.rmtree(self.dir, ignore_errors=True)
        return False


def gen_env(rng, p_env=0.25):
    e = {}
    if rng.random() < p_env:
        e["npstate"] = rng.randrange(1, 10 ** 6)
    if rng.random() < p_env:
        e["cwd"] = True
    return e


# ----------------------------------------------------------------------------- generators
def gen_file(rng, kind, sizes, full_cols=False):
    """a FileSpec of the given kind with the given event sizes (first column = unique key)"""
    if kind == "oscar2013":
        cols = rmodel.OSCAR2013_COLS
    elif kind == "extended":
        cols = rmodel.EXT_COLS[:rng.choice([20, 22, 22])]
    elif kind == "ascii":
        if full_cols:
            cols = list(rmodel.EXT_COLS)
        else:
            cols = rng.sample(rmodel.EXT_COLS, rng.randint(1, len(rmodel.EXT_COLS)))
    else:
        cols = rmodel.JETSCAPE_COLS
    events, uid = [], 1
    for m in sizes:
        ev = []
        for _ in range(m):
            ev.append(rmodel.gen_row(rng, cols, uid))
            uid += 1
        events.append(ev)
    return rmodel.FileSpec(kind, cols, events, tab_headers=rng.random() < 0.6)


# files with more events than any hash-table / buffer boundary a small file stays below: 9-12, 17, 33-40, 65+
BIG_CLASSES = [(9, 12), (17, 17), (33, 40), (65, 72)]


def distinct_impacts(rng, n):
    """one impact-parameter token per event, all different, in no particular order"""
    vals = rng.sample(range(0, 8 * max(n, 4) + 40), n)
    return ["%.3f" % (0.125 * v) for v in vals]


def gen_big_file(rng, kind, n):
    """n events of 0-2 particles (a fifth of them empty, one of them with a two-digit count now and then); every event
    carries its own label, footer and impact parameter"""
    sizes = [0 if rng.random() < 0.2 else rng.randint(1, 2) for _ in range(n)]
    if rng.random() < 0.3:
        sizes[rng.randrange(n)] = rng.randint(10, 11)
    spec = gen_file(rng, kind, sizes, full_cols=True)
    spec.impacts = distinct_impacts(rng, n)
    return spec


def big_selectors(rng, n, k):
    """k selectors for a file of n > 8 events, biased to ranges that straddle a multiple of 8 / 16 / 32 / 64 (short: 2-4
    events, and 5-19 events), to both ends of the file and to single events next to those boundaries"""
    def clip(lo, hi):
        return (max(lo, 0), min(hi, n - 1))
    marks = list(range(8, n, 8))
    short, longer, singles = [], [], []
    for m in marks:
        short += [clip(m - 1, m), clip(m - 2, m + 1), clip(m - 3, m), clip(m - 1, m + 2), clip(m - 2, m)]
        longer += [clip(m - 3, m + 3), clip(m - 9, m + 8), clip(m - 1, m + 5), clip(m - 12, m)]
        singles += [m - 1, m]
    ends = [0, n - 1, (0, 0), (n - 1, n - 1), (0, 1), (n - 2, n - 1), (0, n - 1), (1, n - 2), (0, n // 2), (n // 2, n - 1),
            (n - 4, n - 1), (0, 3)]
    pow2 = [m for m in marks if m & (m - 1) == 0]
    out = []
    # always: a short straddle of the lowest and of the highest boundary, a longer one of the highest power of two
    out.append(rng.choice([clip(marks[0] - 1, marks[0]), clip(marks[0] - 2, marks[0] + 1), clip(marks[0] - 3, marks[0])]))
    out.append(rng.choice([clip(marks[-1] - 1, marks[-1]), clip(marks[-1] - 2, marks[-1] + 1)]))
    if pow2[-1] >= 32:
        out.append(rng.choice([clip(pow2[-1] - 3, pow2[-1] + 3), clip(pow2[-1] - 9, pow2[-1] + 8)]))
    tries = 0
    while len(out) < k:
        r = rng.random()
        if r < 0.35:
            c = rng.choice(short)
        elif r < 0.5:
            c = rng.choice(longer)
        elif r < 0.6:
            c = rng.choice(singles)
        elif r < 0.8:
            c = rng.choice(ends)
        else:
            a = rng.randrange(n)
            c = (a, min(n - 1, a + rng.choice([0, 1, 2, 3, 5, 9, 18, 30])))
        tries += 1
        if (isinstance(c, tuple) and c[0] > c[1]) or (c in out and tries < 20 * k):
            continue
        out.append(c)
    return out[:k] if k >= 3 else out


def gen_sizes(rng, pattern):
    """pattern: tuple of booleans (True = empty event)"""
    return [0 if e else (rng.randint(10, 12) if rng.random() < 0.08 else rng.randint(1, 4)) for e in pattern]


def all_patterns(nmax):
    out = []
    for n in range(1, nmax + 1):
        for bits in range(2 ** n):
            out.append(tuple(bool((bits >> i) & 1) for i in range(n)))
    return out


def valid_selectors(n):
    return [k for k in range(n)] + [(a, b) for a in range(n) for b in range(a, n)]


def invalid_selectors(rng, n):
    c = [n, n + 2, (0, n), (n, n + 1), (n - 1, n + 3), -1, (-1, 0), (0, -1)]
    if n >= 2:
        c += [(1, 0), (n - 1, 0)]
    else:
        c += [(1, 0)]
    return c


def gen_calls(rng, kind, nmax=3):
    keys = keys_of(kind)
    k = rng.choice([1, 1, 2, nmax])
    names = rng.sample(keys, min(k, len(keys)))
    return [pmodel.gen_call(rng, [n]) for n in names]


def sel_tag(sel, n):
    if sel is None:
        return "all"
    if isinstance(sel, tuple):
        a, b = sel
        if not (0 <= a <= b < n):
            return "range-invalid"
        if a == b:
            return "range-a=b"
        if a == 0 and b == n - 1:
            return "range-whole"
        return "range-" + ("first" if a == 0 else "last" if b == n - 1 else "middle")
    if not (0 <= sel < n):
        return "one-invalid"
    return "one-" + ("first" if sel == 0 else "last" if sel == n - 1 else "middle")


# ----------------------------------------------------------------------------- real side (canonical strings)
def pl_repr(obj, spec, key2line):
    """particle_list() as `single:<lines>` / `multi:<lines per event>` / err; every row is checked against the
    held particle it must describe"""
    try:
        pl = obj.particle_list()
    except Exception as e:
        return rmodel.classify(e).replace(" ", "-")
    evs = obj.particle_objects_list()

    def rows_ok(rows, ev):
        if len(rows) > len(ev):
            return False
        for r, p in zip(rows, ev):
            want = obj._particle_as_list(p)
            if len(r) != len(want) or not all((x == y) or (x != x and y != y) for x, y in zip(r, want)):
                return False
        return True

    def lines(n, ev):
        return "." if n == 0 else ",".join(str(key2line.get(rmodel.first_col_key(spec, p), -1)) for p in ev[:n])
    if obj.num_events() == 1:
        ev = evs[0] if evs else []
        if not rows_ok(pl, ev):
            return "rows-differ"
        return "single:" + lines(len(pl), ev)
    out = []
    for i, rows in enumerate(pl):
        ev = evs[i] if i < len(evs) else []
        if not rows_ok(rows, ev):
            return "rows-differ"
        out.append(lines(len(rows), ev))
    return "multi:" + "|".join(out)


def imp_repr(obj, spec):
    if spec.is_jetscape():
        return "[]"
    try:
        imp = obj.impact_parameters()
    except Exception as e:
        return rmodel.classify(e).replace(" ", "-")
    vals = [float(b) for b in spec.impacts]
    return "[" + ",".join(str(vals.index(float(x))) if float(x) in vals else "?" for x in imp) + "]"


def real_obs(spec, sel, calls):
    kw = {}
    if sel is not None:
        kw["events"] = sel
    if calls is not None:
        kw["filters"] = rmodel.filters_dict(calls)
    s, obj = rmodel.run_real(spec, text=spec_text(spec), keep=True, **kw)
    if obj is None:
        return s
    key2line = {}
    for ev, lns in zip(spec.events, spec.particle_line_numbers()):
        for row, ln in zip(ev, lns):
            key2line[float(row[0])] = ln
    return f"{s} pl={pl_repr(obj, spec, key2line)} imp={imp_repr(obj, spec)}"


def cleanup_tmp():
    for f in glob.glob(os.path.join(_TMP, "verif_*")):
        try:
            os.unlink(f)
        except OSError:
            pass


def obs_line(spec, sel, calls):
    kind = "oscar" if not spec.is_jetscape() else spec.kind
    sizes = ",".join(str(len(e)) for e in spec.events) or "-"
    return "\t".join(["obs", kind, rmodel.sel_enc(sel), rmodel.filters_enc(calls),
                      rmodel.views_enc(spec) if calls is not None else "-", sizes, common.hexs(spec_decoded(spec))])


def mask_imp(s):
    return s.rsplit(" imp=", 1)[0] + " imp=*" if " imp=" in s else s


def split_obs(ans):
    """(model side, wf flag, spec side)"""
    if " ## " not in ans:
        return ans, None, None
    left, right = ans.split(" ## ", 1)
    wf = None
    if " wf=" in left:
        left, w = left.rsplit(" wf=", 1)
        wf = w
    return left, wf, right


# ----------------------------------------------------------------------------- correspondence
def build_cases(ctx):
    rng = ctx.rng
    cases = []
    pats = all_patterns(4)
    if ctx.thorough:
        plan = [(k, p) for k in KINDS for p in pats]          # 5 x 30 files, every selector
        extra_big = 12
    else:
        plan = [(rng.choice(KINDS), p) for p in rng.sample(pats, 9)]
        plan += [(k, rng.choice(pats)) for k in KINDS]
        extra_big = 2
    for kind, pat in plan:
        spec = gen_file(rng, kind, gen_sizes(rng, pat), full_cols=rng.random() < 0.5)
        spec.text_variant = gen_text_variant(rng, 0.3)
        n = len(pat)
        filt_opts = [None, gen_calls(rng, kind), gen_calls(rng, kind)]
        if rng.random() < 0.3:
            filt_opts.append([])                               # empty dictionary
        if rng.random() < 0.35:                                # a filter that empties everything
            filt_opts.append([("multiplicity_cut", ((50, None),))])
        for sel in valid_selectors(n) + [None]:
            for calls in filt_opts:
                cases.append((spec, sel, calls))
        for sel in rng.sample(invalid_selectors(rng, n), 3 if not ctx.thorough else 6):
            cases.append((spec, sel, rng.choice(filt_opts)))
    # larger files, random selectors
    for _ in range(extra_big):
        n = rng.randint(5, 7)
        pat = tuple(rng.random() < 0.25 for _ in range(n))
        kind = rng.choice(KINDS)
        spec = gen_file(rng, kind, gen_sizes(rng, pat), full_cols=True)
        for _ in range(6):
            sel = rng.choice(valid_selectors(n))
            cases.append((spec, sel, rng.choice([None, gen_calls(rng, kind)])))
    # files with 9-12, 17, 33-40, 65+ events: sampled, boundary-biased selectors
    classes = list(BIG_CLASSES)
    if ctx.thorough:
        classes = classes * 6 + [(129, 136)]
    kinds = ["oscar2013", "extended", "ascii", "jetscape", "jetscapeP"]
    rng.shuffle(kinds)
    for i, (lo, hi) in enumerate(classes):
        kind = kinds[i % len(kinds)]
        n = rng.randint(lo, hi)
        spec = gen_big_file(rng, kind, n)
        spec.text_variant = gen_text_variant(rng, 0.3)
        filt = gen_calls(rng, kind)
        for j, sel in enumerate(big_selectors(rng, n, 9 if not ctx.thorough else 14)):
            cases.append((spec, sel, None if j % 3 != 2 else rng.choice([filt, [("charged_particles", ())]])))
    return cases


def covered_keys(cases):
    s = set()
    for _, _, calls in cases:
        for n, _ in (calls or []):
            s.add(n)
    return s


def corpus_cases():
    out = []
    for p in sorted(glob.glob(str(common.VERIF / "harness/corpus/C02/*.json"))):
        d = json.loads(open(p).read())
        if d.get("kind") == "file":
            out.append((dec_spec(d["spec"]), dec_sel(d["sel"]), dec_calls(d.get("calls")), os.path.basename(p)))
    return out


def correspond(ctx):
    rng = ctx.rng
    ctx.rule = ("files of every kind (Oscar2013, Extended 20/22 columns, ASCII with random/full column sets, JETSCAPE hadron/"
                "parton, tab/space headers) with EVERY pattern of empty events for 1..4 events (thorough: all 30 patterns x 5 kinds; "
                "quick: a sample) plus some 5-7 event files; every valid selector (each k, each a<=b) and `all`; files with 9-12, 17, "
                "33-40, 65+ events (every event its own impact parameter, footer, label) with sampled selectors biased to ranges "
                "straddling multiples of 8/16/32/64 and to both ends; about a third of the files written as CRLF / with non-ASCII "
                "characters or trailing blanks in the free-text header lines (the real code reads the bytes, the model the text "
                "Python's text layer decodes: universal newlines, UTF-8); invalid selectors "
                "(out of range, negative, reversed); filters none / {} / random dictionaries over the keys the class supports / "
                "an all-removing cut.  Compared: returned object, particle_list(), impact_parameters() (real) vs model, model vs "
                "its spec side (slice + ctorFilter), and checkOscar/checkJetscape on the real bytes.  non-trivial = valid proper "
                "sub-selection of a file that has an empty event, or any valid selection with filters.  Oracle: SESSIONS — one file "
                "on disk / one nested list object is re-used for all constructor calls of a case in random order (reference load "
                "first, in the middle or last); the input is compared with a deep snapshot after every call (file bytes; list and "
                "particle identities, lengths, data_), objects built earlier are re-observed after the later calls.  Round-4 devices "
                "in the sessions: objects under test and the input list looked at through copy.copy / deepcopy / pickle round "
                "trips; the nested list handed over with tuple / object-array inner events (accepted) and as tuple / object array / "
                "generator / iterator or with iterator events (rejected with TypeError: the reference load of the session is the "
                "probe, every call must agree with it); calls inside a fresh cwd with a bare relative file name, with "
                "np.seterr(all='warn'), unusual print options and advanced global random generators — cwd, np.geterr(), print "
                "options and both global generators must be left as found.  Tie C on top of tie T: every file case is also "
                "read by the shared line loop driven by the selection arithmetic GENERATED from the current loaders (driver op "
                "`gobs`; without filters its impact parameters come from the generated event_index start value and the generated "
                "selection by loaded_event_indices_), and the generated _get_num_skip_lines / __get_num_read_lines are compared "
                "with the real private methods on loader objects holding given count rows (`garith`: exhaustive for 1-3 rows, "
                "random rows up to 12 events, selectors inside and beyond the last event)")
    ctx.assumptions.append("C02 text variants: only free-text lines are varied (Oscar units/version line, JETSCAPE first line); a "
                           "variant file is an admissible input iff the plain full load reads it (trailing blanks on token lines "
                           "change the token count and are outside the file grammar); `events=` accepts a Python int or a tuple of "
                           "two Python ints only (numpy integers / lists are rejected by the loaders with TypeError)")
    cases = [(s, sel, c) for s, sel, c, _ in corpus_cases()] + build_cases(ctx)
    # make sure every supported filter key occurs at least once per tier
    missing = [k for k in sorted(set(OSCAR_KEYS) | set(JETSCAPE_KEYS)) if k not in covered_keys(cases)]
    for k in missing:
        kind = rng.choice([x for x in KINDS if k in keys_of(x)])
        spec = gen_file(rng, kind, gen_sizes(rng, (False, True, False)), full_cols=True)
        cases.append((spec, rng.choice(valid_selectors(3)), [pmodel.gen_call(rng, [k])]))
    lines = [obs_line(spec, sel, calls) for spec, sel, calls in cases]
    # the concrete example file of Props/C02.lean (`exFile`) and the two `pyInt?` facts its hypothesis needs
    ex_text = "#!ASCII particle_lists ID\n# Units: none\n# SMASH-3.1\n# event 0 out 1\n1\n" \
              "# event 0 end 0 impact   0.000 scattering_projectile_target yes\n# event 1 out 0\n" \
              "# event 1 end 0 impact   0.000 scattering_projectile_target yes\n"
    exj_text = "# JETSCAPE_FINAL_STATE v2\n# Event 1 weight 1 EPangle 0 N_hadrons 0\n# sigmaGen 1 sigmaErr 0\n"
    extra = ["pyint\t0", "pyint\t1", "\t".join(["obs", "oscar", "one:1", "-", "-", "1,0", common.hexs(ex_text)]),
             "\t".join(["obs", "jetscape", "one:0", "-", "-", "0", common.hexs(exj_text)])]
    glines = [gobs_line(spec, sel, calls) for spec, sel, calls in cases]
    t0 = time.time()
    outs_all = common.run_driver("C02", lines + extra + glines)
    outs, gouts = outs_all[:len(lines) + len(extra)], outs_all[len(lines) + len(extra):]
    ctx.cov["driver_s"] = round(time.time() - t0, 1)
    ex = outs[len(lines):]
    if ex[0] != "ok 0" or ex[1] != "ok 1" or " wf=1 " not in ex[2] or not ex[2].startswith("ok ne=1 counts=2d:1.0 fmt=ASCII attrs=ID") \
            or " wf=1 " not in ex[3] or not ex[3].startswith("ok ne=1 counts=2d:1.0 fmt=- "):
        ctx.brk("correspondence-broken", f"the example file / pyInt? facts of Props/C02.lean do not evaluate as stated: {ex}")
    for (spec, sel, calls), ans, line, gans in zip(cases, outs, lines, gouts):
        n = len(spec.events)
        real = real_obs(spec, sel, calls)
        model, wf, specside = split_obs(ans)
        gmodel = gans
        tag = sel_tag(sel, n)
        if calls and real.startswith("ok ne="):
            # impact parameters after constructor filters REMOVED an event are C06's subject (own end line of every kept
            # event vs lookup by the renumbered label); C02 compares them whenever no event was removed
            nsel = n if sel is None else (1 if not isinstance(sel, tuple) else sel[1] - sel[0] + 1)
            if int(real.split()[1][3:]) != nsel:
                real, model, gmodel = mask_imp(real), mask_imp(model), mask_imp(gmodel)
                specside = mask_imp(specside) if specside else specside
        valid = "invalid" not in tag
        has_empty = any(len(e) == 0 for e in spec.events)
        proper = valid and sel is not None and not (isinstance(sel, tuple) and sel == (0, n - 1) and n > 0) and n > 1
        nontriv = valid and real.startswith("ok") and ((proper and has_empty) or calls)
        canon = (spec.kind, tuple(len(e) for e in spec.events), enc_sel(sel) if not isinstance(sel, tuple) else sel,
                 repr(enc_calls(calls)), spec_text(spec) if calls else (len(spec.cols), getattr(spec, "text_variant", "lf")))
        ctx.case(canon, bool(nontriv), sample=dict(kind=spec.kind, sizes=[len(e) for e in spec.events], events=enc_sel(sel),
                                                  filters=enc_calls(calls), code=real, model=model))
        ctx.count(f"{spec.kind}/{tag}/" + ("nofilter" if calls is None else "filters" if calls else "emptydict")
                  + ("/err" if not real.startswith("ok") else ""))
        for nme, _ in (calls or []):
            ctx.count("key/" + nme)
        rd = dict(kind="file", spec=enc_spec(spec), sel=enc_sel(sel), calls=enc_calls(calls))
        if wf != "1":
            ctx.brk("correspondence-broken", f"classification: checkOscar/checkJetscape rejects a generated {spec.kind} file "
                    f"(sizes {[len(e) for e in spec.events]}): the rendered text does not have the observations the theorems assume",
                    case=rd)
        if real != model:
            ctx.brk("correspondence-broken", f"{spec.kind} events={sel} filters={enc_calls(calls)}: code `{real}` vs model `{model}`",
                    case=rd)
        if real != gmodel:
            ctx.brk("correspondence-broken", f"{spec.kind} events={sel} filters={enc_calls(calls)}: code `{real}` vs the reader driven "
                    f"by the GENERATED selection arithmetic (Gen/ReaderSelGen.lean) `{gmodel}`", case=rd)
        if valid and specside is not None and model != specside:
            ctx.brk("correspondence-broken", f"{spec.kind} events={sel} filters={enc_calls(calls)}: model `{model}` differs from its "
                    f"own spec side (slice / ctorFilter) `{specside}` — contradicts select_eq_slice / select_filter", case=rd)
    cleanup_tmp()
    correspond_arith(ctx)
    correspond_pos(ctx)


def gobs_line(spec, sel, calls):
    kind = "oscar" if not spec.is_jetscape() else spec.kind
    return "\t".join(["gobs", kind, rmodel.sel_enc(sel), rmodel.filters_enc(calls),
                      rmodel.views_enc(spec) if calls is not None else "-", common.hexs(spec_decoded(spec))])


# ----------------------------------------------------------------------------- generated arithmetic vs the private methods
def real_arith(kind, rows, sel):
    """`_get_num_skip_lines()` / `__get_num_read_lines()` of a loader object that holds these count rows"""
    if kind == "oscar":
        from sparkx.loader.OscarLoader import OscarLoader as L
    else:
        from sparkx.loader.JetscapeLoader import JetscapeLoader as L
    out = []
    for meth in ("_get_num_skip_lines", f"_{L.__name__}__get_num_read_lines"):
        ld = L.__new__(L)
        ld.optional_arguments_ = {} if sel is None else {"events": sel}
        ld.num_output_per_event_ = np.array(rows, dtype=np.int32, ndmin=2)
        try:
            v = getattr(ld, meth)()
            out.append(str(int(v)))
        except Exception as e:
            out.append(rmodel.classify(e).replace(" ", "-"))
    return f"ok skip={out[0]} nread={out[1]}"


def gen_arith_case(rng):
    n = rng.choice([1, 1, 2, 3, 4, 5, 7, 9, 12])
    base = rng.choice([0, 0, 1, 1, 5])
    rows = [(base + i, rng.choice([0, 0, 1, 2, 3, 7, 12, 40])) for i in range(n)]
    r = rng.random()
    if r < 0.1:
        sel = None
    elif r < 0.45:
        sel = rng.randint(0, n + 1)
    else:
        a = rng.randint(0, n)
        sel = (a, rng.randint(a, n + 1))
    return rng.choice(["oscar", "jetscape"]), rows, sel


def arith_view(ans):
    """what a load can observe of the two methods: `__get_num_read_lines` runs first; when it raises,
    `_get_num_skip_lines` is never called"""
    if " nread=" not in ans:
        return ans
    head, nread = ans.rsplit(" nread=", 1)
    return ans if nread.lstrip("-").isdigit() else "ok skip=* nread=" + nread


def correspond_arith(ctx):
    """tie C on top of tie T for the two line-count methods: the generated definitions (driver op `garith`) vs the real
    private methods on a loader object that holds the same count rows — for selectors that pass the validation of `load`
    (the methods are reached only after it), also out of range (IndexError of the numpy row access); `__get_num_read_lines`
    runs first in `set_particle_list`, so the skip count is compared only where it does not raise"""
    rng = ctx.rng
    cases = []
    for kind in ("oscar", "jetscape"):                       # exhaustive small scope
        for n in (1, 2, 3):
            rows = [(i + (kind == "jetscape"), [2, 0, 5][i]) for i in range(n)]
            for sel in [None] + list(range(0, n + 2)) + [(a, b) for a in range(0, n + 1) for b in range(a, n + 2)]:
                cases.append((kind, rows, sel))
    cases += [gen_arith_case(rng) for _ in range(ctx.n(150, 1500))]
    lines = ["\t".join(["garith", kind, rmodel.sel_enc(sel), ",".join(f"{a}.{b}" for a, b in rows)]) for kind, rows, sel in cases]
    outs = common.run_driver("C02", lines)
    for (kind, rows, sel), out in zip(cases, outs):
        real, out = arith_view(real_arith(kind, rows, sel)), arith_view(out)
        n = len(rows)
        if "other" in real:
            # the private methods could not be run on a bare loader object (refactored internals: other attributes, other
            # method names).  They are not observables of the property; the whole-load comparison (`gobs`) carries the tie.
            ctx.count(f"garith/{kind}/unavailable")
            continue
        inside = sel is not None and (0 <= sel < n if not isinstance(sel, tuple) else 0 <= sel[0] <= sel[1] < n)
        ctx.case(("garith", kind, tuple(rows), sel), bool(inside and n > 1))
        ctx.count(f"garith/{kind}/" + ("all" if sel is None else "inside" if inside else "outside"))
        if real != out:
            ctx.brk("correspondence-broken", f"{kind} loader, count rows {rows}, events={sel}: real _get_num_skip_lines / "
                    f"__get_num_read_lines `{real}` vs the GENERATED definitions `{out}`",
                    case=dict(kind="garith", loader=kind, rows=rows, sel=enc_sel(sel)))


# ----------------------------------------------------------------------------- ParticleObjectStorer: list slicing
def make_list(rng, sizes):
    evs = []
    for m in sizes:
        evs.append([pmodel.make_particle(pmodel.gen_spec(rng, 0.1)) for _ in range(m)])
    return evs


def pos_slice_real(evs, sel):
    """which input events the storer holds (by identity of the event's particles / position), or err"""
    from sparkx.ParticleObjectStorer import ParticleObjectStorer
    work = [list(ev) for ev in evs]
    try:
        obj = ParticleObjectStorer(work, events=sel) if sel is not None else ParticleObjectStorer(work)
    except Exception as e:
        return rmodel.classify(e), None
    held = obj.particle_objects_list()
    idx = []
    for ev in held:
        hit = [i for i, w in enumerate(work) if w is ev]
        idx.append(hit[0] if hit else -1)
    return "ok " + (",".join(str(i) for i in idx) if idx else "."), obj


def correspond_pos(ctx):
    rng = ctx.rng
    cases, lines = [], []
    for n in range(1, 5 if not ctx.thorough else 7):
        sels = valid_selectors(n) + [None] + invalid_selectors(rng, n)
        for sel in sels:
            cases.append((n, sel))
            lines.append(f"slice\t{rmodel.sel_enc(sel)}\t{n}")
    outs = common.run_driver("C02", lines)
    for (n, sel), out in zip(cases, outs):
        evs = make_list(rng, [rng.randint(0, 2) for _ in range(n)])
        real, _ = pos_slice_real(evs, sel)
        ctx.case(("pos-slice", n, sel), "invalid" not in sel_tag(sel, n) and sel is not None and n > 1)
        ctx.count("ParticleObjectStorer/" + sel_tag(sel, n))
        if real != out:
            ctx.brk("correspondence-broken", f"ParticleObjectLoader slicing, {n} events, events={sel}: code `{real}` vs sliceList `{out}`",
                    case=dict(kind="pos-slice", n=n, sel=enc_sel(sel)))


# ----------------------------------------------------------------------------- oracle
def same_particle(p, q):
    return np.array_equal(np.asarray(p.data_, dtype=float), np.asarray(q.data_, dtype=float), equal_nan=True)


def same_events(a, b):
    return len(a) == len(b) and all(len(x) == len(y) and all(same_particle(p, q) for p, q in zip(x, y)) for x, y in zip(a, b))


def rows_equal(a, b):
    if isinstance(a, (list, tuple)) and isinstance(b, (list, tuple)):
        return len(a) == len(b) and all(rows_equal(x, y) for x, y in zip(a, b))
    if isinstance(a, (list, tuple)) or isinstance(b, (list, tuple)):
        return False
    return a == b or (a != a and b != b)


def window(sel, n):
    if isinstance(sel, tuple):
        return sel[0], sel[1]
    return sel, sel


def opt_tag(sel, calls):
    """which constructor options a call used"""
    t = [x for x, on in (("events", sel is not None), ("filters", calls is not None)) if on]
    return "+".join(t) or "no-options"


def ref_ctor_filter(calls, selected):
    """constructor-filter semantics from the documented predicates: per event apply the filters in order; an event
    that was non-empty and became empty is dropped.  Returns None when a reference predicate is undefined."""
    kept = []
    for ev in selected:
        cur = [list(ev)]
        for name, args in calls:
            try:
                cur = pmodel.ref_filter(name, args, cur)
            except Exception:
                return None
        d = cur[0] if cur else []
        if len(d) != 0 or len(ev) == 0:
            kept.append(d)
    return kept


def real_filters_raise(calls, selected):
    """do the real filter functions (sparkx.Filter) raise on one of the selected events?"""
    import sparkx.Filter as F
    for ev in selected:
        cur = [list(ev)]
        for name, args in calls:
            try:
                cur = getattr(F, name)(cur, *args)
            except Exception:
                return True
    return False


# ---- observations of a built object (taken when it is built, and again after later constructions)
def observe_obj(obj):
    evs = obj.particle_objects_list()
    o = dict(ids=[[id(p) for p in ev] for ev in evs],
             data=[[np.array(p.data_, dtype=float, copy=True) for p in ev] for ev in evs],
             ne=obj.num_events())
    c = obj.num_output_per_event()
    o["counts"] = repr(c) if isinstance(c, list) else np.asarray(c).tolist()
    if hasattr(obj, "impact_parameters"):
        try:
            o["impact_parameters"] = [float(x) for x in obj.impact_parameters()]
        except Exception as e:
            o["impact_parameters"] = "raises " + type(e).__name__
    try:
        o["particle_list"] = copy.deepcopy(obj.particle_list())
    except Exception as e:
        o["particle_list"] = "raises " + type(e).__name__
    return o


def obs_diff(o1, o2):
    """name of the first observable that differs, or None"""
    if o1["ids"] != o2["ids"]:
        return "events"
    for e1, e2 in zip(o1["data"], o2["data"]):
        for d1, d2 in zip(e1, e2):
            if not np.array_equal(d1, d2, equal_nan=True):
                return "particle-data"
    for k in ("ne", "counts", "impact_parameters"):
        if o1.get(k) != o2.get(k):
            return {"ne": "num_events"}.get(k, k)
    if not rows_equal(o1["particle_list"], o2["particle_list"]) and o1["particle_list"] != o2["particle_list"]:
        return "particle_list"
    return None


def check_file(spec, full, obj, sel, calls):
    """None | "skip" | (key, what) — the property for one object `obj` = X(path, events=sel[, filters]) against the
    full load `full` of the same file (reference: slice it in Python; with filters the constructor-filter semantics)"""
    cls = "Jetscape" if spec.is_jetscape() else "Oscar"
    n = len(spec.events)
    a, b = window(sel, n)
    st = ("one" if not isinstance(sel, tuple) else "range") + ("+filters" if calls is not None else "")
    fev = full.particle_objects_list()
    fcounts = np.asarray(full.num_output_per_event())
    selected = fev[a:b + 1]
    if calls is None:
        exp_events, exp_counts = selected, [[int(r[0]), int(r[1])] for r in fcounts[a:b + 1]]
    else:
        kept = ref_ctor_filter(calls, selected)
        if kept is None:
            return "skip"
        exp_events = kept
        first = int(fcounts[a][0])
        exp_counts = [[first + i, len(e)] for i, e in enumerate(kept)]
    exp_ne = len(exp_events)
    if isinstance(obj, Exception):
        if calls is not None and isinstance(obj, (ValueError, TypeError)) and real_filters_raise(calls, selected):
            # the filter function itself rejects an argument / an attribute value on these particles (C03/C05's subject)
            return "skip"
        return (f"{cls}:constructor-raises:{st}", f"{cls}(events={sel}, filters={enc_calls(calls)}) raised {type(obj).__name__}: {obj}")
    got_events = obj.particle_objects_list()
    if exp_ne == 0:
        # nothing kept: the held list is the `[[]]` placeholder
        if [len(e) for e in got_events] != [0]:
            return (f"{cls}:events:{st}", f"nothing should be kept, got event sizes {[len(e) for e in got_events]}")
        try:
            obj.particle_list()
        except Exception as e:
            return (KF_NOKEPT, f"{cls}(events={sel}, filters=...) whose filters remove every selected event: particle_list() raises "
                    f"{type(e).__name__} ({e}); num_events()={obj.num_events()}, num_output_per_event()={np.asarray(obj.num_output_per_event()).tolist()}")
        return None
    if not same_events(got_events, exp_events):
        return (f"{cls}:events:{st}", f"events={sel}: particles differ from the slice of the full load: sizes "
                f"{[len(e) for e in got_events]} vs {[len(e) for e in exp_events]}")
    if obj.num_events() != exp_ne:
        return (f"{cls}:num_events:{st}", f"events={sel}: num_events()={obj.num_events()}, expected {exp_ne}")
    gc = np.asarray(obj.num_output_per_event())
    if gc.ndim != 2 or [[int(r[0]), int(r[1])] for r in gc] != exp_counts:
        return (f"{cls}:counts:{st}", f"events={sel}: num_output_per_event()={gc.tolist()}, expected {exp_counts}")
    if cls == "Oscar":
        # every held event keeps its own impact parameter, in event order
        kept_idx = list(range(a, b + 1))
        if calls is not None:
            kept_idx = [a + i for i, ev in enumerate(selected) if ref_ctor_filter(calls, [ev])]
        imp = [float(x) for x in obj.impact_parameters()]
        want = [float(full.impact_parameters()[i]) for i in kept_idx]
        file_imp = [float(x) for x in spec.impacts]
        if want != [file_imp[i] for i in kept_idx]:
            return ("Oscar:impact_parameters:full-load", f"full load: impact_parameters() at positions {kept_idx} = {want}, the file says "
                    f"{[file_imp[i] for i in kept_idx]}")
        if imp != want:
            key = "Oscar:impact_parameters:event-removed-by-ctor-filter" if len(kept_idx) < len(selected) \
                else f"Oscar:impact_parameters:{st}"
            return (key, f"{len(fev)} events, events={sel}, filters={enc_calls(calls)}: impact_parameters()={imp} but the "
                    f"held events (file positions {kept_idx}) have {want}")
    try:
        pl = obj.particle_list()
    except Exception as e:
        return (f"{cls}:particle_list-raises:{st}", f"events={sel}: particle_list() raises {type(e).__name__}: {e}")
    want_pl = [[full._particle_as_list(p) for p in ev] for ev in exp_events]
    if exp_ne == 1:
        want_pl = want_pl[0]
    if not rows_equal(pl, want_pl):
        return (f"{cls}:particle_list:{st}", f"events={sel}: particle_list() differs from the selected events' rows")
    return None


def op3(op):
    """(sel, calls) or (sel, calls, via) -> (sel, calls, via)"""
    return (op[0], op[1], op[2] if len(op) > 2 else None)


def enc_ops(ops):
    return [[enc_sel(o[0]), enc_calls(o[1]), op3(o)[2]] for o in ops]


def dec_ops(lst):
    return [(dec_sel(o[0]), dec_calls(o[1]), o[2] if len(o) > 2 else None) for o in lst]


def env_tag(env):
    return "+".join(k for k in ("npstate", "cwd") if env.get(k)) or "default"


def file_session(spec, ops, refpos=0, env=None):
    """One file on disk, used for every constructor call of the case: the calls `ops` = [(sel, calls, via), …] in the
    given order with the reference load X(path) inserted at position `refpos`.
    * the file is written in the spec's text variant (LF / CRLF / non-ASCII or trailing blanks in the free-text lines);
      if the plain full load does not read a non-plain variant the file is not an admissible input (counted, not judged);
    * `env`: the calls run inside a fresh working directory with a bare relative file name (`cwd`), and / or with
      np.seterr(all="warn"), unusual print options and advanced global random generators (`npstate`); cwd, np.geterr(),
      print options and both global generators must be left as found by every call;
    * `via`: the object returned by a call is replaced by its copy.copy / deepcopy / pickle round trip before it is looked at;
    * after EVERY call the file must be byte-identical; after ALL calls every object built earlier must still show what
      it showed when it was built; then each object is compared with the slice of the reference.
    Returns (failures [(key, what)], number of ops not judged)."""
    from sparkx.Oscar import Oscar
    from sparkx.Jetscape import Jetscape
    env = env or {}
    cls = "Jetscape" if spec.is_jetscape() else "Oscar"
    tv = getattr(spec, "text_variant", "lf") or "lf"
    ops = [op3(o) for o in ops]
    fails, skipped = [], 0
    data = spec_bytes(spec)
    with EnvGuard(on=bool(env.get("npstate")), cwd=bool(env.get("cwd")), seed=int(env.get("npstate") or 0)) as guard:
        if env.get("cwd"):
            path = "x" + spec.suffix()
        else:
            fd, path = tempfile.mkstemp(suffix=spec.suffix(), prefix="verif_", dir=_TMP)
            os.close(fd)
        with open(path, "wb") as f:
            f.write(data)
        try:
            seq = list(range(len(ops)))
            seq.insert(max(0, min(refpos, len(ops))), "ref")
            built = {}
            tainted = False
            for it in seq:
                sel, calls, via = (None, None, env.get("via_ref")) if it == "ref" else ops[it]
                kw = {}
                if sel is not None:
                    kw["events"] = sel
                if calls is not None:
                    kw["filters"] = rmodel.filters_dict(calls)
                if spec.kind == "jetscapeP":
                    kw["particletype"] = "parton"
                before = guard.snap()
                try:
                    if env.get("npstate"):
                        obj = Jetscape(path, **kw) if spec.is_jetscape() else Oscar(path, **kw)
                    else:
                        with np.errstate(all="ignore"):
                            obj = Jetscape(path, **kw) if spec.is_jetscape() else Oscar(path, **kw)
                except Exception as e:
                    obj = e
                ch = EnvGuard.changed(before, guard.snap())
                if ch:
                    fails.append((f"environment-changed:{cls}:{ch[0]}",
                                  f"{cls}(path, events={sel}, filters={enc_calls(calls)}) does not leave {ch[0]} as it found it: {ch[1]}"))
                    os.chdir(before[0])
                now = open(path, "rb").read()
                if now != data:
                    fails.append((f"input-modified:{cls}:{opt_tag(sel, calls)}:file-bytes",
                                  f"{cls}(path, events={sel}, filters={enc_calls(calls)}) changed the file on disk "
                                  f"({len(data)} -> {len(now)} bytes)"))
                    tainted = True
                    break          # everything after this call would be judged on a modified input
                if via and not isinstance(obj, Exception):
                    try:
                        obj = via_copy(obj, via)
                    except Exception as e:
                        fails.append((f"copy-raises:{cls}:{via}", f"{via} of {cls}(path, events={sel}, filters={enc_calls(calls)}) "
                                      f"raised {type(e).__name__}: {e}"))
                built[it] = (obj, None if isinstance(obj, Exception) else observe_obj(obj))
            for it in [x for x in seq if x in built]:
                obj, o = built[it]
                if o is not None:
                    d = obs_diff(o, observe_obj(obj))
                    if d:
                        sel, calls, via = (None, None, None) if it == "ref" else ops[it]
                        fails.append((f"earlier-object-changed:{cls}:{d}",
                                      f"{cls}(path, events={sel}, filters={enc_calls(calls)}) shows a different {d} after the later "
                                      f"constructor calls {[('ref' if x == 'ref' else ops[x][0]) for x in seq[seq.index(it) + 1:]]} on the same file"))
            if tainted:
                return fails, skipped
            full = built["ref"][0]
            if isinstance(full, Exception):
                if tv != "lf":
                    return fails, len(ops)        # the plain loader does not read this variant: not an admissible file
                fails.append((f"{cls}:full-load-raises", f"{cls}(path) raised {type(full).__name__}: {full}"))
                return fails, skipped
            for i, (sel, calls, via) in enumerate(ops):
                r = check_file(spec, full, built[i][0], sel, calls)
                if r == "skip":
                    skipped += 1
                elif r is not None:
                    extra = []
                    if tv != "lf":
                        extra.append(f"file written as `{tv}`")
                    if env_tag(env) != "default":
                        extra.append(f"environment {env_tag(env)}")
                    if via:
                        extra.append(f"object looked at through {via}")
                    fails.append((r[0], r[1] + (" [" + "; ".join(extra) + "]" if extra else "")))
        finally:
            try:
                os.unlink(path)
            except OSError:
                pass
    return fails, skipped


def oracle_file(spec, sel, calls):
    """None | "skip" | (key, what) for a single selection (reference load first)"""
    fails, skipped = file_session(spec, [(sel, calls, None)], 0)
    if fails:
        return fails[0]
    return "skip" if skipped else None


# ---- the particle-object storer: ONE nested list, re-used for every constructor call of the case
def list_snapshot(evs):
    return dict(n=len(evs), inner=[id(e) for e in evs], lens=[len(e) for e in evs], pids=[[id(p) for p in e] for e in evs],
                data=[[np.array(p.data_, dtype=float, copy=True) for p in e] for e in evs],
                keep=[list(e) for e in evs])          # pristine copies of the inner lists (same particle objects)


def list_diff(s0, evs):
    """what about the caller's nested list differs from the snapshot, or None"""
    if len(evs) != s0["n"]:
        return "outer-length", f"{s0['n']} -> {len(evs)} events"
    if [id(e) for e in evs] != s0["inner"]:
        return "event-list-replaced", "an inner event list is a different object"
    if [len(e) for e in evs] != s0["lens"]:
        return "event-length", f"event sizes {s0['lens']} -> {[len(e) for e in evs]}"
    if [[id(p) for p in e] for e in evs] != s0["pids"]:
        return "particle-replaced", "an event holds different particle objects"
    for e, de in zip(evs, s0["data"]):
        for p, d in zip(e, de):
            if not np.array_equal(np.asarray(p.data_, dtype=float), d, equal_nan=True):
                return "particle-data", "data_ of a particle changed"
    return None


def check_pos(pristine, obj, sel, calls, by_identity=True):
    """None | "skip" | (key, what): ParticleObjectStorer(list, events=sel[, filters]) against slicing the pristine list"""
    n = len(pristine)
    a, b = (0, n - 1) if sel is None else window(sel, n)
    selected = pristine[a:b + 1]
    if calls is None:
        exp = selected
    else:
        exp = []
        for ev in selected:
            cur = [list(ev)]
            for name, args in calls:
                try:
                    cur = pmodel.ref_filter(name, args, cur)
                except Exception:
                    return "skip"
            exp.append(cur[0] if cur else [])
    if isinstance(obj, Exception):
        if calls is not None and isinstance(obj, (ValueError, TypeError)):
            return "skip"
        return ("ParticleObjectStorer(events=):constructor-raises", f"events={sel}: {type(obj).__name__}: {obj}")
    got = obj.particle_objects_list()
    same = (lambda p, q: p is q) if by_identity else same_particle
    if len(got) != len(exp) or any(len(x) != len(y) or any(not same(p, q) for p, q in zip(x, y)) for x, y in zip(got, exp)):
        return ("ParticleObjectStorer(events=):events", f"events={sel}, filters={enc_calls(calls)}: held events {[len(e) for e in got]} "
                f"are not the selected (filtered) events {[len(e) for e in exp]} (compared by {'identity' if by_identity else 'data_'})")
    if obj.num_events() != len(exp):
        return ("ParticleObjectStorer(events=):num_events", f"{n} events, events={sel}: num_events()={obj.num_events()}, expected {len(exp)}")
    c = obj.num_output_per_event()
    want = [[a + i, len(e)] for i, e in enumerate(exp)]
    ok = False
    try:
        arr = np.asarray(c)
        ok = (arr.ndim == 2 and [[int(r[0]), int(r[1])] for r in arr] == want) or (len(want) == 0 and arr.size == 0)
    except Exception:
        ok = False
    if not ok:
        return ("ParticleObjectStorer(events=):counts", f"{n} events, events={sel}: num_output_per_event()={c!r}, expected {want}")
    try:
        pl = obj.particle_list()
    except Exception as e:
        return ("ParticleObjectStorer(events=):particle_list-raises", f"events={sel}: particle_list() raises {type(e).__name__}: {e}")
    want_pl = [[obj._particle_as_list(p) for p in ev] for ev in exp]
    if len(exp) == 1:
        want_pl = want_pl[0]
    if not rows_equal(pl, want_pl):
        return ("ParticleObjectStorer(events=):particle_list", f"events={sel}: particle_list() differs from the selected events' rows")
    return None


# how the nested list is handed over.  The documentation asks for "a list of lists of Particle objects": a non-list
# OUTER container (tuple, object array, generator, iterator) is rejected with TypeError; INNER events may be any sized
# sequence (tuple, object array) but not a one-shot iterator.  The reference load of a session decides (probe): if it
# accepts the container every call of the session is judged as usual, if it rejects it every call must reject it too.
CONTAINERS = ["list", "inner-tuple", "inner-ndarray", "outer-tuple", "outer-ndarray", "outer-generator", "outer-iter", "inner-iter"]


def as_container(evs, container):
    """-> (object handed to the constructor, the sized view the harness keeps for its snapshot)"""
    def arr(xs):
        a = np.empty(len(xs), dtype=object)
        for i, x in enumerate(xs):
            a[i] = x
        return a
    if container == "inner-tuple":
        v = [tuple(e) for e in evs]
        return v, v
    if container == "inner-ndarray":
        v = [arr(e) for e in evs]
        return v, v
    if container == "outer-tuple":
        return tuple(evs), evs
    if container == "outer-ndarray":
        return arr(evs), evs
    if container == "outer-generator":
        return (e for e in evs), evs
    if container == "outer-iter":
        return iter(evs), evs
    if container == "inner-iter":
        return [iter(e) for e in evs], evs
    return evs, evs


def pos_session(pseed, sizes, ops, refpos=0, env=None):
    """The same nested list object is handed to every constructor call (ops in order, the full reference load at
    `refpos`).  After every call the caller's list must be unmodified (list identities, lengths, particle identities,
    data_) and the process-global state as found; after all calls earlier objects are re-observed; every object is
    compared with the slice of the pristine list.  env: `input_via` (the list handed over is a copy / deepcopy / unpickled
    copy of the one built), `container` (see CONTAINERS), `npstate`, per-op `via` (see file_session)."""
    from sparkx.ParticleObjectStorer import ParticleObjectStorer
    env = env or {}
    ops = [op3(o) for o in ops]
    evs = via_copy(make_list(_random.Random(pseed), sizes), env.get("input_via"))
    container = env.get("container") or "list"
    handed, view = as_container(evs, container)
    one_shot = container in ("outer-generator", "outer-iter", "inner-iter")
    s0 = list_snapshot(view)
    pristine = s0["keep"]
    fails, skipped = [], 0
    seq = list(range(len(ops)))
    seq.insert(max(0, min(refpos, len(ops))), "ref")
    built = {}
    tainted = False
    with EnvGuard(on=bool(env.get("npstate")), seed=int(env.get("npstate") or 0)) as guard:
        for it in seq:
            sel, calls, via = (None, None, env.get("via_ref")) if it == "ref" else ops[it]
            kw = {}
            if sel is not None:
                kw["events"] = sel
            if calls is not None:
                kw["filters"] = rmodel.filters_dict(calls)
            if one_shot:
                handed, _ = as_container(evs, container)       # a fresh one-shot object per call
            before = guard.snap()
            try:
                if env.get("npstate"):
                    obj = ParticleObjectStorer(handed, **kw)
                else:
                    with np.errstate(all="ignore"):
                        obj = ParticleObjectStorer(handed, **kw)
            except Exception as e:
                obj = e
            ch = EnvGuard.changed(before, guard.snap())
            if ch:
                fails.append((f"environment-changed:ParticleObjectStorer:{ch[0]}",
                              f"ParticleObjectStorer(list, events={sel}, filters={enc_calls(calls)}) does not leave {ch[0]} as it found it: {ch[1]}"))
            d = list_diff(s0, view)
            if d:
                fails.append((f"input-modified:ParticleObjectStorer:{opt_tag(sel, calls)}:{d[0]}",
                              f"ParticleObjectStorer(list, events={sel}, filters={enc_calls(calls)}) modified the caller's list of event "
                              f"sizes {s0['lens']}: {d[1]}"))
                tainted = True
                break              # everything after this call would be judged on a modified input
            if via and not isinstance(obj, Exception):
                try:
                    obj = via_copy(obj, via)
                except Exception as e:
                    fails.append((f"copy-raises:ParticleObjectStorer:{via}", f"{via} of ParticleObjectStorer(list, events={sel}, "
                                  f"filters={enc_calls(calls)}) raised {type(e).__name__}: {e}"))
            built[it] = (obj, None if isinstance(obj, Exception) else observe_obj(obj), via)
    for it in [x for x in seq if x in built]:
        obj, o, _ = built[it]
        if o is not None:
            d = obs_diff(o, observe_obj(obj))
            if d:
                sel, calls, _ = (None, None, None) if it == "ref" else ops[it]
                later = [("ref" if x == "ref" else (ops[x][0], enc_calls(ops[x][1]))) for x in seq[seq.index(it) + 1:]]
                fails.append((f"earlier-object-changed:ParticleObjectStorer:{d}",
                              f"ParticleObjectStorer(list, events={sel}, filters={enc_calls(calls)}) built from a list of event sizes "
                              f"{s0['lens']} shows a different {d} after the later constructor calls {later} on the same list"))
    if tainted:
        return fails, skipped
    ref = built["ref"][0]
    if container != "list" and isinstance(ref, Exception):
        # the reference load rejects this container: every call of the session has to reject it the same way
        for i, (sel, calls, via) in enumerate(ops):
            o = built[i][0]
            if not isinstance(o, Exception) or type(o) is not type(ref):
                fails.append((f"container-acceptance-inconsistent:ParticleObjectStorer:{container}",
                              f"ParticleObjectStorer({container}) raises {type(ref).__name__} but with events={sel}, filters={enc_calls(calls)} "
                              f"it {'raises ' + type(o).__name__ if isinstance(o, Exception) else 'is accepted'}"))
        return fails, skipped
    for it in seq:
        sel, calls, _ = (None, None, None) if it == "ref" else ops[it]
        obj, _, via = built[it]
        r = check_pos(pristine, obj, sel, calls, by_identity=via not in ("deepcopy", "pickle"))
        if r == "skip":
            skipped += 1
        elif r is not None:
            extra = [x for x in ((f"list handed over as {container}" if container != "list" else ""),
                                 (f"input list through {env.get('input_via')}" if env.get("input_via") else ""),
                                 (f"object looked at through {via}" if via else ""),
                                 ("environment npstate" if env.get("npstate") else "")) if x]
            fails.append((r[0], r[1] + (" [" + "; ".join(extra) + "]" if extra else "")))
    return fails, skipped


POS_FILTERS = ["charged_particles", "uncharged_particles", "pT_cut", "participants", "spectators", "remove_photons", "keep_hadrons"]


def first_fail(fails, seen):
    """input-modified first, then earlier-object-changed, then the property clauses; only keys not yet reported"""
    def rank(k):
        return 0 if k.startswith("input-modified") else 1 if k.startswith("earlier-object-changed") else 2
    for f in sorted(fails, key=lambda f: rank(f[0])):
        if f[0] not in seen:
            return f
    return None


def shrink_ops(run, ops, refpos, key):
    """greedy: drop constructor calls while the same key is still reported; run(ops, refpos) -> failures"""
    def bad(o, r):
        try:
            return any(k == key for k, _ in run(o, r)[0])
        except Exception:
            return False
    if not bad(ops, refpos):
        return ops, refpos
    changed = True
    while changed and len(ops) > 1:
        changed = False
        for i in range(len(ops)):
            cand = ops[:i] + ops[i + 1:]
            for r in (min(refpos, len(cand)), 0, len(cand)):
                if bad(cand, r):
                    ops, refpos, changed = cand, r, True
                    break
            if changed:
                break
    return ops, refpos


def shrink_file(spec, sel, calls, key):
    """greedy: drop filter calls, particles, then events after the window"""
    def fails(s, se, c):
        try:
            r = oracle_file(s, se, c)
        except Exception:
            return False
        return isinstance(r, tuple) and r[0] == key
    cur_s, cur_c = copy.deepcopy(spec), list(calls) if calls is not None else None
    if not fails(cur_s, sel, cur_c):
        return spec, sel, calls
    changed = True
    while changed:
        changed = False
        if cur_c and len(cur_c) > 1:
            for i in range(len(cur_c)):
                cand = cur_c[:i] + cur_c[i + 1:]
                if fails(cur_s, sel, cand):
                    cur_c, changed = cand, True
                    break
        if changed:
            continue
        n = len(cur_s.events)
        _, b = window(sel, n)
        if n - 1 > b:
            cand = copy.deepcopy(cur_s)
            cand.events = cand.events[:b + 1]
            cand.labels = cand.labels[:b + 1]
            cand.impacts = cand.impacts[:b + 1]
            if fails(cand, sel, cur_c):
                cur_s, changed = cand, True
                continue
        budget = 60
        for i in range(len(cur_s.events)):
            for j in range(len(cur_s.events[i])):
                if len(cur_s.events[i]) <= 1 or budget <= 0:
                    continue
                budget -= 1
                cand = copy.deepcopy(cur_s)
                del cand.events[i][j]
                if fails(cand, sel, cur_c):
                    cur_s, changed = cand, True
                    break
            if changed:
                break
    return cur_s, sel, cur_c


def gen_ops_small(rng, kind, n):
    ops = []
    for _ in range(rng.choice([1, 1, 2, 3, 4])):
        r = rng.random()
        calls = None if r < 0.4 else ([("multiplicity_cut", ((50, None),))] if r < 0.47 else gen_calls(rng, kind))
        ops.append((rng.choice(valid_selectors(n)), calls, gen_via(rng, 0.25)))
    return ops


def gen_ops_big(rng, kind, n, k):
    ops = []
    for sel in big_selectors(rng, n, k):
        r = rng.random()
        calls = None if r < 0.6 else ([("charged_particles", ())] if r < 0.75 else gen_calls(rng, kind))
        ops.append((sel, calls, gen_via(rng, 0.15)))
    return ops


def gen_text_variant(rng, p=0.35):
    return rng.choice(TEXT_VARIANTS[1:]) if rng.random() < p else "lf"


def report(ctx, seen, fails, run, ops, refpos, env, mk_input, spec=None):
    """shrink and register every not yet reported key of `fails`"""
    while True:
        f = first_fail(fails, seen)
        if f is None:
            return
        key = f[0]
        seen.add(key)
        ops2, ref2 = shrink_ops(lambda o, r: run(o, r, env), ops, refpos, key)
        env2 = env
        # a plain environment / plain text if the failure does not need them
        for drop in ("npstate", "cwd", "via_ref", "input_via", "container"):
            if env2.get(drop):
                cand = {k: v for k, v in env2.items() if k != drop}
                try:
                    if any(k == key for k, _ in run(ops2, ref2, cand)[0]):
                        env2 = cand
                except Exception:
                    pass
        ops3 = [(o[0], o[1], None) for o in ops2]
        try:
            if any(k == key for k, _ in run(ops3, ref2, env2)[0]):
                ops2 = ops3
        except Exception:
            pass
        s2 = spec
        if spec is not None and getattr(spec, "text_variant", "lf") != "lf":
            cand = copy.deepcopy(spec)
            cand.text_variant = "lf"
            try:
                if any(k == key for k, _ in file_session(cand, ops2, ref2, env2)[0]):
                    s2 = cand
            except Exception:
                pass
        if spec is not None and len(ops2) == 1 and not env2 and ops2[0][2] is None \
                and not key.startswith(("input-modified", "earlier-object-changed", "environment-changed", "copy-raises")):
            s2, sel2, c2 = shrink_file(s2, ops2[0][0], ops2[0][1], key)
            ops2, ref2 = [(sel2, c2, None)], 0
        runner = (lambda o, r, e: file_session(s2, o, r, e)) if spec is not None else run
        f2 = [x for x in runner(ops2, ref2, env2)[0] if x[0] == key]
        ctx.violation(key, f2[0][1] if f2 else f[1],
                      dict(input=mk_input(s2, ops2, ref2, env2), how_to_replay="./check C02 --replay <this file>"))


def file_input(s2, ops2, ref2, env2):
    inp = dict(kind="file-session", spec=enc_spec(s2), ops=enc_ops(ops2), refpos=ref2, env=env2, n_events=len(s2.events),
               text_variant=getattr(s2, "text_variant", "lf"),
               text=spec_text(s2) if len(s2.events) <= 12 else "(see spec)")
    if len(ops2) == 1:
        inp.update(sel=enc_sel(ops2[0][0]), calls=enc_calls(ops2[0][1]))
    return inp


def search(ctx, budget_s):
    rng = ctx.rng
    t0 = time.time()
    nfile = nsess = npos = nskip = nbig = nvar = nenv = 0
    seen = set()
    pats = all_patterns(4)
    limit = (4000 if ctx.thorough else 260) * (4 if ctx.broken else 1)
    # corpus first, then one large file per size class, then random sessions (every 6th on a large file)
    todo = [(s, [(sel, c, None)], 0, {}) for s, sel, c, _ in corpus_cases()
            if sel is not None and "invalid" not in sel_tag(sel, len(s.events))]
    big_kinds = ["oscar2013", "extended", "ascii", rng.choice(["jetscape", "jetscapeP"])]
    rng.shuffle(big_kinds)
    for i, (lo, hi) in enumerate(BIG_CLASSES):
        kind = big_kinds[i % len(big_kinds)] if i < 3 else rng.choice(KINDS)
        n = rng.randint(lo, hi)
        spec = gen_big_file(rng, kind, n)
        spec.text_variant = gen_text_variant(rng, 0.25)
        ops = gen_ops_big(rng, kind, n, 10 if not ctx.thorough else 16)
        todo.append((spec, ops, rng.randint(0, len(ops)), gen_env(rng, 0.2)))
    # every text variant and every environment on a small Oscar-family and a small JETSCAPE file, early
    for tv in TEXT_VARIANTS[1:]:
        for kind in (rng.choice(KINDS[:3]), rng.choice(KINDS[3:])):
            pat = rng.choice([p for p in pats if len(p) >= 3])
            spec = gen_file(rng, kind, gen_sizes(rng, pat), full_cols=True)
            spec.text_variant = tv
            ops = [(sel, rng.choice([None, None, gen_calls(rng, kind)]), gen_via(rng, 0.2))
                   for sel in rng.sample(valid_selectors(len(pat)), 4)]
            todo.append((spec, ops, rng.randint(0, len(ops)), gen_env(rng, 0.3)))
    while (time.time() - t0 < budget_s and nfile < limit) or todo:
        if todo:
            spec, ops, refpos, env = todo.pop(0)
        elif nsess % 6 == 5:
            kind = rng.choice(KINDS[:3]) if rng.random() < 0.7 else rng.choice(KINDS)
            lo, hi = rng.choice(BIG_CLASSES + ([(129, 136)] if ctx.thorough else []))
            n = rng.randint(lo, hi)
            spec = gen_big_file(rng, kind, n)
            spec.text_variant = gen_text_variant(rng, 0.25)
            ops = gen_ops_big(rng, kind, n, rng.randint(6, 12))
            refpos, env = rng.randint(0, len(ops)), gen_env(rng, 0.2)
        else:
            kind = KINDS[nsess % len(KINDS)]
            pat = rng.choice(pats) if rng.random() < 0.85 else tuple(rng.random() < 0.25 for _ in range(rng.randint(5, 7)))
            spec = gen_file(rng, kind, gen_sizes(rng, pat), full_cols=True)
            spec.text_variant = gen_text_variant(rng)
            ops = gen_ops_small(rng, kind, len(pat))
            refpos, env = rng.randint(0, len(ops)), gen_env(rng)
            if rng.random() < 0.2:
                env["via_ref"] = gen_via(rng, 1.0)
        nsess += 1
        nfile += len(ops)
        nbig += len(ops) if len(spec.events) > 8 else 0
        nvar += len(ops) if getattr(spec, "text_variant", "lf") != "lf" else 0
        nenv += len(ops) if env.get("npstate") or env.get("cwd") else 0
        fails, sk = file_session(spec, ops, refpos, env)
        nskip += sk
        for o in ops:
            ctx.case(("oracle", spec.kind, tuple(len(e) for e in spec.events), o[0], repr(enc_calls(o[1])), nfile), True)
        ctx.count("oracle/events-in-file/" + ("<=4" if len(spec.events) <= 4 else "5-8" if len(spec.events) <= 8 else
                                              "9-16" if len(spec.events) <= 16 else "17-32" if len(spec.events) <= 32 else
                                              "33-64" if len(spec.events) <= 64 else "65+"), len(ops))
        ctx.count("oracle/text/" + getattr(spec, "text_variant", "lf"), len(ops))
        ctx.count("oracle/env/" + env_tag(env), len(ops))
        for o in ops:
            ctx.count("oracle/via/" + str(op3(o)[2]))
        report(ctx, seen, fails, lambda o, r, e, sp=spec: file_session(sp, o, r, e), ops, refpos, env, file_input, spec=spec)
    # particle-object storer: sessions on one list object
    limit_pos = 600 if ctx.thorough else 90
    t1 = time.time()
    first_containers = list(CONTAINERS[1:])
    while (npos < limit_pos and time.time() - t1 < max(5, budget_s / 3)) or first_containers:
        pat = rng.choice(pats) if rng.random() < 0.8 else tuple(rng.random() < 0.2 for _ in range(rng.randint(5, 12)))
        sizes = gen_sizes(rng, pat)
        n = len(pat)
        ops = []
        for _ in range(rng.choice([1, 2, 3, 3, 4, 5])):
            sel = rng.choice(valid_selectors(n) + [None])
            calls = None if rng.random() < 0.45 else [pmodel.gen_call(rng, [rng.choice(POS_FILTERS)])]
            ops.append((sel, calls, gen_via(rng, 0.25)))
        refpos = rng.randint(0, len(ops))
        pseed = rng.randrange(2 ** 31)
        env = {}
        if first_containers:
            env["container"] = first_containers.pop(0)
        elif rng.random() < 0.3:
            env["container"] = rng.choice(CONTAINERS[1:])
        if rng.random() < 0.2:
            env["input_via"] = gen_via(rng, 1.0)
        if rng.random() < 0.25:
            env["npstate"] = rng.randrange(1, 10 ** 6)
        if rng.random() < 0.15:
            env["via_ref"] = gen_via(rng, 1.0)
        npos += len(ops)
        fails, sk = pos_session(pseed, sizes, ops, refpos, env)
        for o in ops:
            ctx.case(("oracle-pos", tuple(sizes), o[0], repr(enc_calls(o[1])), npos), True)
        ctx.count("oracle/pos-container/" + (env.get("container") or "list"), len(ops))
        report(ctx, seen, fails, lambda o, r, e, ps=pseed, sz=sizes: pos_session(ps, sz, o, r, e), ops, refpos, env,
               lambda _s, o2, r2, e2, ps=pseed, sz=sizes: dict(kind="pos-session", sizes=sz, pseed=ps, refpos=r2, ops=enc_ops(o2), env=e2))
    ctx.cov["oracle_cases"] = dict(files=nfile, file_sessions=nsess, on_files_with_more_than_8_events=nbig,
                                   on_non_plain_text_variants=nvar, in_changed_environment=nenv, skipped=nskip,
                                   particle_object_storer=npos)
    ctx.count("oracle/file", nfile)
    ctx.count("oracle/pos", npos)
    cleanup_tmp()


# ----------------------------------------------------------------------------- replay
def report_replay(path, fails):
    kf = {f["key"] for f in common.known_findings().get("open", []) if f["property"] == "C02"}
    rc = 0
    for key, what in fails:
        if key in kf:
            print(f"KNOWN-FINDING: property=C02 [{key}] {what}")
        else:
            print(f"VIOLATION property=C02 replay={path}")
            print(f"[{key}] {what}")
            rc = 1
    if not fails:
        print("[C02] replay: property holds on this input now")
    return rc


def replay(ctx, path):
    d = json.loads(open(path).read())
    inp = d.get("input")
    if not inp:
        b = d.get("broken") or []
        case = next((x.get("case") for x in b if x.get("case")), None)
        if not case or case.get("kind") not in ("file", "pos-slice", "garith"):
            print(f"[C02] replay file names a broken obligation, not an input: {[x.get('what') for x in b][:3]}")
            return 1
        inp = case
    if inp["kind"] == "garith":
        rows, sel = [tuple(r) for r in inp["rows"]], dec_sel(inp["sel"])
        real = arith_view(real_arith(inp["loader"], rows, sel))
        out = arith_view(common.run_driver("C02", ["\t".join(["garith", inp["loader"], rmodel.sel_enc(sel), ",".join(f"{a}.{b}" for a, b in rows)])])[0])
        print(f"[C02] code : {real}\n[C02] generated: {out}")
        return 0 if real == out else 1
    if inp["kind"] == "pos-slice":
        import random
        n, sel = inp["n"], dec_sel(inp["sel"])
        real, _ = pos_slice_real(make_list(random.Random(0), [1] * n), sel)
        out = common.run_driver("C02", [f"slice\t{rmodel.sel_enc(sel)}\t{n}"])[0]
        print(f"[C02] code : {real}\n[C02] model: {out}")
        return 0 if real == out else 1
    if inp["kind"] in ("pos", "pos-session"):
        if inp["kind"] == "pos":
            ops, pseed, refpos = [(dec_sel(inp["sel"]), dec_calls(inp.get("calls")))], inp.get("seed", 0), 0
        else:
            ops = dec_ops(inp["ops"])
            pseed, refpos = inp["pseed"], inp.get("refpos", 0)
        fails, _ = pos_session(pseed, inp["sizes"], ops, refpos, inp.get("env") or {})
        return report_replay(path, fails)
    if inp["kind"] == "file-session":
        spec = dec_spec(inp["spec"])
        ops = dec_ops(inp["ops"])
        fails, _ = file_session(spec, ops, inp.get("refpos", 0), inp.get("env") or {})
        rc = report_replay(path, fails)
        if len(ops) == 1:
            sel, calls, _ = ops[0]
            real = real_obs(spec, sel, calls)
            model, wf, specside = split_obs(common.run_driver("C02", [obs_line(spec, sel, calls)])[0])
            print(f"[C02] code : {real}\n[C02] model: {model}\n[C02] spec : {specside}  (wf={wf})")
        cleanup_tmp()
        return rc
    spec, sel, calls = dec_spec(inp["spec"]), dec_sel(inp["sel"]), dec_calls(inp.get("calls"))
    real = real_obs(spec, sel, calls)
    ans = common.run_driver("C02", [obs_line(spec, sel, calls)])[0]
    model, wf, specside = split_obs(ans)
    print(f"[C02] code : {real}\n[C02] model: {model}\n[C02] spec : {specside}  (wf={wf})")
    rc = 0
    if real != model:
        print("[C02] correspondence: code and model differ")
        rc = 1
    if sel is not None and "invalid" not in sel_tag(sel, len(spec.events)):
        res = oracle_file(spec, sel, calls)
        if isinstance(res, tuple):
            kf = {f["key"] for f in common.known_findings().get("open", []) if f["property"] == "C02"}
            if res[0] in kf:
                print(f"KNOWN-FINDING: property=C02 [{res[0]}] {res[1]}")
            else:
                print(f"VIOLATION property=C02 replay={path}")
                print(res[1])
                rc = 1
        elif rc == 0:
            print("[C02] replay: property holds on this input now")
    cleanup_tmp()
    return rc
