"""C11 — Q-cumulant flow equals the defining multi-particle azimuthal correlators.

Tie T: harness/translate/qcumulant.py regenerates Gen/QCumulant.lean (correlators, cumulants, decision functions and
the differential bin function) from the current source; tie C: the hand-written model AND the generated functions
(`gcorr`, `gdflow`) are run by the driver at Float and compared with the real class."""
import itertools
import json
import math
import time
import warnings

import numpy as np

import common
from common import f2h, h2f, close

warnings.filterwarnings("ignore")
np.seterr(all="ignore")


# ------------------------------------------------------------------ translator (tie T): __calculate_corr
_LAYOUT = [None]  # meaning of full_event_quantities[i] for k = 2 / 4, as derived by the translator


def translate(ctx):
    from translate import qcumulant
    _LAYOUT[0] = None
    src = common.read_src("flow/QCumulantFlow.py")
    text, regions = qcumulant.render(src)
    _LAYOUT[0] = qcumulant.feq_layout(src)
    ctx.cov["full_event_quantities_layout"] = {str(k): ["/".join(map(str, d)) for d in v] for k, v in _LAYOUT[0].items()}
    common.write_if_changed(common.LEAN / "SparkxVerif/Gen/QCumulant.lean", text)
    golden = common.LEAN / "golden/Gen/QCumulant.lean"
    ctx.cov["gen_equals_golden"] = golden.exists() and golden.read_text() == text
    return regions

IMAG = ["zero", "negative", "nan"]
SELECTORS = ["pT", "rapidity", "pseudorapidity"]


# ------------------------------------------------------------------ real code
_OBJ = {}
_NEW = [0]
_VIA_RNG = __import__("random").Random(1101)
_BROKEN_SEEN = []
_FORCE_VIA = [None]   # replay: run the input with the estimator used as built, deep-copied, unpickled, shallow-copied


def qc(n, k, imag):
    """every second request is served by a long-lived estimator object (state leaking between calls must show)"""
    from sparkx.flow.QCumulantFlow import QCumulantFlow
    _NEW[0] += 1
    if _NEW[0] % 2 == 0:
        o = _OBJ.setdefault((n, k, imag), QCumulantFlow(n=n, k=k, imaginary=imag))
    else:
        o = QCumulantFlow(n=n, k=k, imaginary=imag)
    # an estimator that went through copy / deepcopy / pickle (e.g. shipped to a worker) must behave like the original
    via = {"plain": 1.0, "deepcopy": 0.0, "pickle": 0.1, "copy": 0.2}[_FORCE_VIA[0]] if _FORCE_VIA[0] else _VIA_RNG.random()
    if via < 0.08:
        import copy
        o = copy.deepcopy(o)
    elif via < 0.16:
        import pickle
        o = pickle.loads(pickle.dumps(o))
    elif via < 0.22:
        import copy
        o = copy.copy(o)
    return o


def real_fc(k, imag, c):
    return float(_private(qc(2, k, imag), "flow_from_cumulant")(c))


def real_dfc(k, imag, c, d):
    v = _private(qc(2, k, imag), "flow_from_cumulant_differential")(c, d)
    return float(np.real(v))


class NoPrivateAccess(Exception):
    pass


def _private(obj, name):
    f = getattr(obj, "_QCumulantFlow__" + name, None)
    if f is None:
        raise NoPrivateAccess(name)
    return f


def real_corr(phis, n, k):
    return float(_private(qc(n, 6, "zero"), "calculate_corr")(phis, k)[0])


def real_bin_private(pev, n, k, imag):
    """v'_n{k} of one bin through the private `__compute_differential_flow_bin` (no random rotation); the argument
    `full_event_quantities` is built following the layout the translator derived from `differential_flow`"""
    lay = (_LAYOUT[0] or {}).get(k)
    if lay is None:
        raise NoPrivateAccess("layout of full_event_quantities not derived")
    o = qc(n, k, imag)
    f = _private(o, "compute_differential_flow_bin")
    Qn, cc = _private(o, "Qn"), _private(o, "calculate_corr")
    phi_all = [[p for p, _ in e] for e in pev]
    phi_poi = [[p for p, fl in e if fl] for e in pev]
    corr, feq = {}, []
    for d in lay:
        if d[0] == "Q":
            feq.append(Qn(phi_all, d[1] * n))
        elif d[0] == "M":
            feq.append([len(e) for e in phi_all])
        elif d[0] == "corr":
            if d[1] not in corr:
                corr[d[1]] = cc(phi_all, d[1])
            feq.append(corr[d[1]][d[2]])
        else:
            raise NoPrivateAccess("opaque element of full_event_quantities")
    return float(np.real(f(feq, phi_poi, phi_poi)[0]))


def real_flow_private(phis, n, k, imag):
    """v_n{k} through the private entry point (no random rotation) when it exists, else through integrated_flow"""
    o = qc(n, k, imag)
    f = getattr(o, "_QCumulantFlow__cumulant_flow", None)
    if f is not None:
        return float(f(phis)[0])
    parts = [[mk_particle(1.0, p, 0.0, 211) for p in ev] for ev in phis]
    return float(o.integrated_flow(parts)[0])


def mk_particle(pt, phi, y, pdg):
    from sparkx.Particle import Particle
    p = Particle()
    p.px = pt * math.cos(phi)
    p.py = pt * math.sin(phi)
    m = 0.13957
    mt = math.sqrt(pt * pt + m * m)
    p.pz = mt * math.sinh(y)
    p.E = mt * math.cosh(y)
    p.pdg = pdg
    return p


def real_integrated(parts, n, k, imag):
    return float(qc(n, k, imag).integrated_flow(parts)[0])


def real_differential(parts, n, k, imag, bins, sel, poi):
    res = qc(n, k, imag).differential_flow(parts, bins, sel, poi)
    return [None if len(r) == 0 else float(r[0]) for r in res]


def selector_value(p, sel):
    return {"pT": p.pT_abs, "rapidity": p.rapidity, "pseudorapidity": p.pseudorapidity}[sel]()


# ------------------------------------------------------------------ encoding for the driver
def enc_events(phis, n):
    return "|".join("." if not ev else ";".join(f2h(math.cos(n * p)) + "," + f2h(math.sin(n * p)) for p in ev) for ev in phis)


def enc_pevents(evs, n):
    return "|".join("." if not ev else ";".join(f2h(math.cos(n * p)) + "," + f2h(math.sin(n * p)) + "," + ("1" if f else "0")
                                                 for p, f in ev) for ev in evs)


def parse_ok(out):
    if not out.startswith("ok "):
        return ("err", out)
    t = out[3:]
    return ("nan", None) if t == "nan" else ("val", h2f(t))


# ------------------------------------------------------------------ brute-force oracle (the definition)
def brute_corr(phis, n, k):
    num = 0.0
    den = 0
    h = k // 2
    for ph in phis:
        for t in itertools.permutations(range(len(ph)), k):
            num += math.cos(n * (sum(ph[i] for i in t[:h]) - sum(ph[i] for i in t[h:])))
            den += 1
    return num / den


def brute_flow(phis, n, k, imag):
    c2 = brute_corr(phis, n, 2)
    if k == 2:
        c, f = c2, 1.0
    elif k == 4:
        c, f = brute_corr(phis, n, 4) - 2 * c2 ** 2, -1.0
    else:
        c4 = brute_corr(phis, n, 4)
        c, f = brute_corr(phis, n, 6) - 9 * c2 * c4 + 12 * c2 ** 3, 0.25
    v = f * c
    if v >= 0:
        return v ** (1.0 / k), v
    if imag == "negative":
        return -((-v) ** (1.0 / k)), v
    if imag == "zero":
        return 0.0, v
    return float("nan"), v


def brute_differential(evs, n, k, imag):
    """evs: list of events, event = list of (phi, is_poi). Definition with the first particle restricted to POI."""
    phis = [[p for p, _ in e] for e in evs]
    if not any(len(ph) >= max(k, 2) for ph in phis):
        # no event holds a single k-tuple: the reference correlators of the whole sample are undefined
        return ("undefined" if any(f for e in evs for _, f in e) else None), 0.0
    c2 = brute_corr(phis, n, 2)
    num2 = den2 = 0.0
    num4 = den4 = 0.0
    for e in evs:
        ph = [p for p, _ in e]
        for i, (_, f) in enumerate(e):
            if not f:
                continue
            others = [x for x in range(len(e)) if x != i]
            for j in others:
                num2 += math.cos(n * (ph[i] - ph[j]))
                den2 += 1
            if k == 4:
                for t in itertools.permutations(others, 3):
                    num4 += math.cos(n * (ph[i] + ph[t[0]] - ph[t[1]] - ph[t[2]]))
                    den4 += 1
    if not any(f for e in evs for _, f in e):
        return None, 0.0
    if den2 == 0 or (k == 4 and den4 == 0):
        return "undefined", 0.0  # POI present, but no tuple of distinct particles starts with one: nothing is defined
    d2 = num2 / den2
    if k == 2:
        if c2 > 0:
            return d2 / math.sqrt(c2), c2
        if imag == "negative":
            return d2 / math.sqrt(-c2), c2
        return (0.0 if imag == "zero" else float("nan")), c2
    c4 = brute_corr(phis, n, 4) - 2 * c2 ** 2
    d4 = num4 / den4 - 2 * d2 * c2
    if c4 < 0:
        return -d4 / ((-c4) ** 0.75), c4
    if imag == "negative":
        return -d4 / (c4 ** 0.75), c4
    return (0.0 if imag == "zero" else float("nan")), c4


# ------------------------------------------------------------------ generators
def gen_phis(rng, k, nev_max=4, mmax=9, flowy=None, harm=2):
    nev = rng.randint(1, nev_max)
    same = rng.random() < 0.3
    m0 = rng.randint(k, mmax)
    out = []
    v = rng.choice([0.0, 0.15, 0.4]) if flowy is None else flowy
    mults = [m0 if same else rng.randint(k, mmax) for _ in range(nev)]
    if nev >= 3 and not same and rng.random() < 0.35:
        # unequal multiplicities whose mean equals the first one (a false "all equal" test would pass)
        d = rng.randint(1, max(1, (mmax - k) // 2))
        c = rng.randint(k + d, max(k + d, mmax - d))
        mults = [c, c - d, c + d] + [c] * (nev - 3)
    for m in mults:
        psi = rng.uniform(-math.pi, math.pi)
        ev = []
        while len(ev) < m:
            p = rng.uniform(-math.pi, math.pi)
            if rng.random() < (1 + 2 * v * math.cos(harm * (p - psi))) / (1 + 2 * v):
                ev.append(p)
                if len(ev) < m and rng.random() < 0.08:
                    ev.append(p)          # a second particle with the bit-identical azimuth (collinear / duplicated track)
        out.append(ev)
    return out


def gen_diff_case(rng, k):
    n = rng.randint(1, 3)
    phis = gen_phis(rng, max(k, 4), nev_max=3, mmax=8)
    if rng.random() < 0.3:
        # events too small to hold a single tuple (weight 0 although they may hold a POI: the guarded division)
        for _ in range(rng.randint(1, 2)):
            phis.insert(rng.randint(0, len(phis)), [rng.uniform(-math.pi, math.pi) for _ in range(rng.randint(1, 3))])
    sel = rng.choice(SELECTORS)
    # species lists: none, short, and long ones (tuple/ndarray/list, with repeats, codes spread over a wide range) next to
    # events holding several particles of one species that is NOT requested
    LONG = [211, -211, 321, -321, 2212, -2212, 3122, -3122, 3312, -3312, 3334, -3334, 11, -11, 13, -13, 1000010020, 411, -411, 431]
    species = [211, 211, 321, 2212]
    poi = rng.choice([None, None, [211], [211, 321], "long", "long"])
    if poi == "long":
        poi = rng.sample(LONG, rng.randint(12, 20))
        if rng.random() < 0.3:
            poi = poi + poi[:2]                      # repeats in the request
        species = [211, 321, 2212, 111, 111, 22, 22, 2112, 2112, -211, 3122]   # 111, 22, 2112 are never requested
    parts = []
    for ev in phis:
        pe = []
        prev = None
        for p in ev:
            pt = rng.choice([0.25, 0.5, 0.75, 1.0, 1.5, rng.uniform(0.1, 2.0)])
            y = rng.choice([-0.5, 0.0, 0.5, rng.uniform(-1, 1)])
            if prev is not None and prev[0] == p and rng.random() < 0.6:
                pt, y = prev[1], prev[2]      # the duplicated azimuth also shares pT and rapidity: same bin, bit-equal phi()
            prev = (p, pt, y)
            pe.append(mk_particle(pt, p, y, rng.choice(species)))
        parts.append(pe)
    r = rng.random()
    if r < 0.12 and parts:
        # resampled sample: the same event object (hence the same Particle objects) occurs at several positions
        parts = [parts[rng.randrange(len(parts))] for _ in range(len(parts) + rng.randint(1, 2))]
    elif r < 0.2 and len(parts) >= 2:
        # mixed events: a Particle object of one event also sits in another event
        src, dst = rng.sample(range(len(parts)), 2)
        if parts[src]:
            parts[dst] = list(parts[dst]) + [rng.choice(parts[src])]
    if sel == "pT":
        bins = sorted(rng.sample([0.0, 0.5, 1.0, 1.5, 2.5], rng.randint(2, 4)))
    else:
        bins = sorted(rng.sample([-1.5, -0.5, 0.0, 0.5, 1.5], rng.randint(2, 4)))
    return n, parts, bins, sel, poi


def has_tuples(pev, k):
    """is there at least one k-tuple of distinct particles of one event whose first particle is a POI"""
    return any(sum(1 for _, f in e if f) > 0 and len(e) >= k for e in pev)


def pevents_for_bin(parts, lo, hi, sel, poi):
    evs = []
    for ev in parts:
        pe = []
        for p in ev:
            v = selector_value(p, sel)
            f = (v >= lo and v < hi) and (poi is None or int(p.pdg) in poi)
            pe.append((p.phi(), f))
        evs.append(pe)
    return evs


# ------------------------------------------------------------------ correspondence
def correspond(ctx):
    rng = ctx.rng
    ctx.rule = ("random event samples (1-4 events, equal and different multiplicities k..9, harmonics 1-4, with and without "
                "elliptic modulation); ops corr k / flow k imaginary / differential k selector poi (hand model `dflow` and generated functions `gdflow`, the latter also against the private bin function); non-trivial = "
                ">= 2 events of different multiplicity, or a POI restriction that excludes in-bin particles, or an event "
                "without POI in the bin, or an event holding a POI but fewer than k particles (weight 0, guarded division); distinct by canonical input")
    N = ctx.n(70, 1500)
    lines, meta = [], []
    # the two decision functions alone: every k x imaginary mode x sign of the cumulant (and of d)
    for k in (2, 4, 6):
        for imag in IMAG:
            for c in (0.04, -0.04, 0.0, rng.uniform(0.001, 0.3), -rng.uniform(0.001, 0.3)):
                lines.append(f"fc\t{k}\t{imag}\t{f2h(c)}")
                meta.append(("fc", 2, k, imag, c))
                if k in (2, 4) and c != 0.0:
                    for d in (0.01, -0.02):
                        lines.append(f"dfc\t{k}\t{imag}\t{f2h(c)}\t{f2h(d)}")
                        meta.append(("dfc", 2, k, imag, (c, d)))
    for i in range(N):
        r = rng.random()
        if r < 0.35:
            k = rng.choice([2, 4, 6])
            n = rng.randint(1, 4)
            phis = gen_phis(rng, k)
            lines.append(f"corr\t{k}\t{enc_events(phis, n)}")
            meta.append(("corr", n, k, None, phis))
            lines.append(f"gcorr\t{k}\t{enc_events(phis, n)}")
            meta.append(("corr", n, k, "gen", phis))
        elif r < 0.7:
            k = rng.choice([2, 4, 6])
            n = rng.randint(1, 4)
            imag = rng.choice(IMAG)
            phis = gen_phis(rng, k)
            lines.append(f"flow\t{k}\t{imag}\t{enc_events(phis, n)}")
            meta.append(("flow", n, k, imag, phis))
        else:
            k = rng.choice([2, 4])
            imag = rng.choice(IMAG)
            n, parts, bins, sel, poi = gen_diff_case(rng, k)
            realv = real_differential(parts, n, k, imag, bins, sel, poi)
            for b in range(len(bins) - 1):
                pev = pevents_for_bin(parts, bins[b], bins[b + 1], sel, poi)
                lines.append(f"dflow\t{k}\t{imag}\t{enc_pevents(pev, n)}")
                meta.append(("dflow", n, k, imag, (pev, realv[b], sel, poi, bins[b:b + 2])))
                if any(f for e in pev for _, f in e):
                    # the same bin through the functions GENERATED from the current source
                    lines.append(f"gdflow\t{k}\t{imag}\t{enc_pevents(pev, n)}")
                    meta.append(("gdflow", n, k, imag, (pev, realv[b], sel, poi, bins[b:b + 2])))
    outs = common.run_driver("C11", lines)
    for (op, n, k, imag, data), out in zip(meta, outs):
        kind, val = parse_ok(out)
        if op in ("fc", "dfc"):
            try:
                rv = real_fc(k, imag, data) if op == "fc" else real_dfc(k, imag, *data)
            except NoPrivateAccess:
                ctx.count(f"{op}/skipped-no-private-access")
                continue
            ok = (kind == "nan" and rv != rv) or (kind == "val" and close(rv, val, rel=1e-12, abs_=1e-15))
            ctx.case((op, k, imag, data), True, sample=dict(op=op, k=k, imaginary=imag, args=data, code=rv, model=out))
            ctx.count(f"{op}/k={k}/{imag}")
            if not ok:
                ctx.brk("correspondence-broken", f"{op} k={k} imaginary={imag} args={data}: code {rv!r} vs model {out}",
                        case=dict(op=op, k=k, imaginary=imag, args=data))
            continue
        if op == "corr":
            try:
                rv = real_corr(data, n, k)
            except NoPrivateAccess:
                ctx.count("corr/skipped-no-private-access")
                continue
            ok = kind == "val" and close(rv, val, rel=1e-8, abs_=1e-10)
            nontriv = len({len(e) for e in data}) > 1
            ctx.case((op, n, k, tuple(map(tuple, data))), nontriv, sample=dict(op=op, n=n, k=k, phis=data, code=rv, model=out))
            ctx.count(f"corr/k={k}/events={len(data)}")
            if not ok:
                ctx.brk("correspondence-broken", f"<<{k}>> n={n}: code {rv!r} vs model {out}", case=dict(op=op, n=n, k=k, phis=data))
        elif op == "flow":
            rv = real_flow_private(data, n, k, imag)
            try:
                _, cval = brute_like_sign(data, n, k)
            except NoPrivateAccess:
                cval = brute_flow(data, n, k, imag)[1]
            if abs(cval) < 1e-7:
                ctx.count("flow/skipped-unstable-branch")
                continue
            ok = (kind == "nan" and rv != rv) or (kind == "val" and close(rv, val, rel=1e-7, abs_=1e-9))
            nontriv = len({len(e) for e in data}) > 1
            ctx.case((op, n, k, imag, tuple(map(tuple, data))), nontriv, sample=dict(op=op, n=n, k=k, imaginary=imag, phis=data, code=rv, model=out))
            ctx.count(f"flow/k={k}/{imag}/{'neg' if cval < 0 else 'pos'}")
            if not ok:
                ctx.brk("correspondence-broken", f"v_{n}{{{k}}} imaginary={imag}: code {rv!r} vs model {out}",
                        case=dict(op=op, n=n, k=k, imaginary=imag, phis=data))
                if len(_BROKEN_SEEN) < 8:   # where model and code part ways is the first place to look for a failing input
                    _BROKEN_SEEN.append(1)
                    r = check_integrated(data, n, k, imag)
                    if r:
                        ctx.violation(r[0], r[1], dict(input=dict(kind="integrated", n=n, k=k, imaginary=imag, phis=data), detail=r[2]))
        elif op == "gdflow":
            pev, rv, sel, poi, edges = data
            if not has_tuples(pev, k):
                ctx.count("gdflow/skipped-no-tuple-in-bin")
                continue
            some_empty = any(not any(f for _, f in e) for e in pev)
            small_poi = any(len(e) < k and any(f for _, f in e) for e in pev)
            case = dict(op=op, n=n, k=k, imaginary=imag, selector=sel, poi=poi, bin=edges, pevents=pev)
            ctx.case((op, n, k, imag, tuple(tuple(e) for e in pev)), some_empty or small_poi or poi is not None,
                     sample=dict(case, code=rv, generated=out))
            ctx.count(f"gdflow/k={k}/{'weight-0-event-with-poi' if small_poi else 'some-event-empty' if some_empty else 'all-events-populated'}")
            # (1) against the public differential_flow (random rotation of every event: looser tolerance)
            ok = rv is not None and ((kind == "nan" and rv != rv) or (kind == "val" and close(rv, val, rel=1e-6, abs_=1e-8)))
            if not ok:
                ctx.brk("correspondence-broken", f"v'_{n}{{{k}}} {sel} poi={poi} bin={edges} imaginary={imag}: code {rv!r} vs "
                        f"functions generated from the source {out}", case=case)
            # (2) against the private bin function itself (same angles as the driver: tight tolerance)
            try:
                pv = real_bin_private(pev, n, k, imag)
            except NoPrivateAccess:
                ctx.count("gdflow/skipped-no-private-access")
                continue
            except Exception as e:  # the private signature / layout is no longer what the translator derived
                ctx.count(f"gdflow/skipped-private-call-failed-{type(e).__name__}")
                continue
            ctx.count("gdflow/private-compared")
            ok = (kind == "nan" and pv != pv) or (kind == "val" and close(pv, val, rel=1e-9, abs_=1e-11))
            if not ok:
                ctx.brk("correspondence-broken", f"__compute_differential_flow_bin n={n} k={k} imaginary={imag}: code {pv!r} vs "
                        f"functions generated from the source {out}", case=case)
        else:
            pev, rv, sel, poi, edges = data
            npoi = sum(1 for e in pev for _, f in e if f)
            if npoi == 0:
                ok = rv is None  # the code returns [] for an empty bin; the model is not asked
                ctx.count("dflow/empty-bin")
                if not ok:
                    ctx.brk("correspondence-broken", f"differential: empty bin but code returned {rv!r}", case=dict(pevents=pev))
                continue
            if not has_tuples(pev, k):
                ctx.count("dflow/skipped-no-tuple-in-bin")  # 0/0 in code and model: nothing is defined
                continue
            ok = rv is not None and ((kind == "nan" and rv != rv) or (kind == "val" and close(rv, val, rel=1e-6, abs_=1e-8)))
            some_empty = any(not any(f for _, f in e) for e in pev)
            excl = poi is not None
            ctx.case((op, n, k, imag, tuple(tuple(e) for e in pev)), some_empty or excl,
                     sample=dict(op=op, n=n, k=k, imaginary=imag, selector=sel, poi=poi, bin=edges, pevents=pev, code=rv, model=out))
            ctx.count(f"dflow/k={k}/{sel}/{'poi' if poi else 'all'}/{'some-event-empty' if some_empty else 'all-events-populated'}")
            if not ok:
                ctx.brk("correspondence-broken", f"v'_{n}{{{k}}} {sel} poi={poi} bin={edges} imaginary={imag}: code {rv!r} vs model {out}",
                        case=dict(op=op, n=n, k=k, imaginary=imag, selector=sel, poi=poi, bin=edges, pevents=pev))


def brute_like_sign(phis, n, k):
    """sign-determining quantity factor*c computed from the real code's correlators (cheap)"""
    c2 = real_corr(phis, n, 2)
    if k == 2:
        return None, c2
    c4 = real_corr(phis, n, 4)
    if k == 4:
        return None, -(c4 - 2 * c2 ** 2)
    c6 = real_corr(phis, n, 6)
    return None, 0.25 * (c6 - 9 * c2 * c4 + 12 * c2 ** 3)


# ------------------------------------------------------------------ oracle search on the real code
# ------------------------------------------------------------------ large multiplicities: partition formula
def _set_partitions(items):
    if not items:
        yield []
        return
    first, rest = items[0], items[1:]
    for part in _set_partitions(rest):
        for i in range(len(part)):
            yield part[:i] + [[first] + part[i]] + part[i + 1:]
        yield [[first]] + part


_PARTS = {}


def partition_corr(phis, n, k):
    """the defining average of cos n(phi_1+..-..) over distinct k-tuples, through Moebius inversion on the partition
    lattice: sum_{distinct} prod_j z_{i_j}^{a_j} = sum_pi prod_{B in pi} (-1)^{|B|-1} (|B|-1)! P(sum_{j in B} a_j),
    P(m) = sum_i e^{i m n phi_i}.  Independent of the expanded polynomials in the code and of the recursion of the model;
    linear in the multiplicity, so usable where brute force is not (checked against brute force on small events by
    `selftest_partition`)."""
    h = k // 2
    a = [1] * h + [-1] * h
    if k not in _PARTS:
        _PARTS[k] = [pi for pi in _set_partitions(list(range(k)))]
    num = 0.0
    den = 0
    for ph in phis:
        M = len(ph)
        P = {m: complex(math.fsum(math.cos(m * n * x) for x in ph), math.fsum(math.sin(m * n * x) for x in ph)) for m in range(-h, h + 1)}
        tot = 0j
        for pi in _PARTS[k]:
            t = 1 + 0j
            for B in pi:
                t *= (-1) ** (len(B) - 1) * math.factorial(len(B) - 1) * P[sum(a[j] for j in B)]
            tot += t
        num += tot.real
        d = 1
        for j in range(k):
            d *= (M - j)
        den += d   # exact Python integer
    return num / den


def partition_flow(phis, n, k, imag):
    c2 = partition_corr(phis, n, 2)
    if k == 2:
        c, f = c2, 1.0
    elif k == 4:
        c, f = partition_corr(phis, n, 4) - 2 * c2 ** 2, -1.0
    else:
        c4 = partition_corr(phis, n, 4)
        c, f = partition_corr(phis, n, 6) - 9 * c2 * c4 + 12 * c2 ** 3, 0.25
    v = f * c
    if v >= 0:
        return v ** (1.0 / k), v
    if imag == "negative":
        return -((-v) ** (1.0 / k)), v
    if imag == "zero":
        return 0.0, v
    return float("nan"), v


def selftest_partition(rng):
    for k in (2, 4, 6):
        phis = gen_phis(rng, k, nev_max=2, mmax=7)
        a, b = partition_corr(phis, 2, k), brute_corr(phis, 2, k)
        if not close(a, b, rel=1e-9, abs_=1e-12):
            raise AssertionError(f"harness self-test: partition formula {a} != brute force {b} (k={k})")


def gen_big_phis(rng, k, harm=2):
    """few events of large multiplicity with a clear elliptic modulation (so that the cumulants are far from 0);
    sizes around the places where integer products M(M-1)...(M-k+1) leave 2^31, 2^53, 2^63"""
    sizes = rng.choice([[40, 75], [130, 90, 210], [700, 512], [1449, 1500], [1700, 1460, 2050], [3000, 2600]])
    v = rng.choice([0.25, 0.4])
    psi0 = rng.uniform(-math.pi, math.pi)
    out = []
    for m in sizes:
        ev = []
        while len(ev) < m:
            p = rng.uniform(-math.pi, math.pi)
            if rng.random() < (1 + 2 * v * math.cos(harm * (p - psi0))) / (1 + 2 * v):
                ev.append(p)
        out.append(ev)
    return out


def check_integrated_big(phis, n, k, imag):
    exp, v = partition_flow(phis, n, k, imag)
    if abs(v) < 1e-7:
        return None
    parts = [[mk_particle(1.0, p, 0.0, 211) for p in ev] for ev in phis]
    got = real_integrated(parts, n, k, imag)
    if (exp != exp and got != got) or close(got, exp, rel=1e-5, abs_=1e-8):
        return None
    return (f"integrated-k{k}-large-multiplicity", f"integrated_flow n={n} k={k} imaginary={imag}, multiplicities "
            f"{[len(e) for e in phis]}: code {got!r} != definition {exp!r} (partition formula)", dict(code=got, expected=exp))


# ------------------------------------------------------------------ sessions on one estimator object and one list object
def gen_session(rng):
    k = rng.choice([2, 4, 6])
    n = rng.randint(1, 3)
    imag = rng.choice(IMAG)
    nev = rng.randint(1, 3)
    steps = []
    for i in range(rng.randint(2, 4)):
        how = "new" if i == 0 else rng.choice(["assign", "assign", "setitem", "reverse", "new"])
        st = dict(how=how)
        if how in ("new", "assign"):
            keep = rng.random() < 0.7      # same number of events as before (a length-keyed memo survives)
            m = nev if keep else rng.randint(1, 3)
            st["phis"] = [gen_phis(rng, k, nev_max=1, mmax=7 if k == 6 else 8, flowy=rng.choice([0.0, 0.4]), harm=n)[0] for _ in range(m)]
            nev = m
        elif how == "setitem":
            st["index"] = rng.randrange(nev)
            st["event"] = gen_phis(rng, k, nev_max=1, mmax=7 if k == 6 else 8, flowy=0.4, harm=n)[0]
        steps.append(st)
    return dict(n=n, k=k, imaginary=imag, steps=steps)


def run_session(sess, fresh=False):
    """the caller keeps ONE list object and changes it in place between calls of ONE estimator object
    (fresh=True: a new estimator and a new list per call).  Returns None or (step, key, what, detail)."""
    from sparkx.flow.QCumulantFlow import QCumulantFlow
    n, k, imag = sess["n"], sess["k"], sess["imaginary"]
    o = QCumulantFlow(n=n, k=k, imaginary=imag)
    data, cur = [], []
    mkev = lambda ev: [mk_particle(1.0, p, 0.0, 211) for p in ev]
    for i, st in enumerate(sess["steps"]):
        how = st["how"]
        if how == "new":
            cur = [list(e) for e in st["phis"]]
            data = [mkev(e) for e in cur]
        elif how == "assign":
            cur = [list(e) for e in st["phis"]]
            data[:] = [mkev(e) for e in cur]
        elif how == "setitem":
            j = st["index"] % max(1, len(cur))
            cur[j] = list(st["event"])
            data[j] = mkev(cur[j])
        elif how == "reverse":
            cur.reverse()
            data.reverse()
        exp, v = brute_flow(cur, n, k, imag)
        if abs(v) < 1e-6:
            continue
        if fresh:
            got = float(QCumulantFlow(n=n, k=k, imaginary=imag).integrated_flow([list(e) for e in data])[0])
        else:
            got = float(o.integrated_flow(data)[0])
        if not ((exp != exp and got != got) or close(got, exp, rel=1e-6, abs_=1e-8)):
            return (i, f"integrated-k{k}", f"call {i + 1} of a session on one estimator and one list object ({how}): "
                    f"integrated_flow n={n} k={k} imaginary={imag}: code {got!r} != definition {exp!r}", dict(code=got, expected=exp, step=i))
    return None


def check_integrated(phis, n, k, imag):
    parts = [[mk_particle(1.0, p, 0.0, 211) for p in ev] for ev in phis]
    exp, v = brute_flow(phis, n, k, imag)
    if abs(v) < 1e-6:
        return None
    got = real_integrated(parts, n, k, imag)
    if (exp != exp and got != got) or close(got, exp, rel=1e-6, abs_=1e-8):
        return None
    return (f"integrated-k{k}", f"integrated_flow n={n} k={k} imaginary={imag}: code {got!r} != definition {exp!r}",
            dict(code=got, expected=exp))


def check_differential(n, k, imag, parts, bins, sel, poi):
    got = real_differential(parts, n, k, imag, bins, sel, poi)
    for b in range(len(bins) - 1):
        pev = pevents_for_bin(parts, bins[b], bins[b + 1], sel, poi)
        exp, c = brute_differential(pev, n, k, imag)
        if exp is None:
            if got[b] is not None:
                return (f"differential-k{k}-emptybin", f"bin {bins[b:b+2]} has no POI but code returned {got[b]!r}", dict(bin=b))
            continue
        if exp == "undefined" or abs(c) < 1e-6:
            continue
        g = got[b]
        if g is None or not ((exp != exp and g != g) or close(g, exp, rel=1e-6, abs_=1e-8)):
            tag = ("poi" if poi else "all") + ("-someempty" if any(not any(f for _, f in e) for e in pev) else "")
            return (f"differential-k{k}-{tag}", f"differential_flow n={n} k={k} {sel} poi={poi} bin {bins[b:b+2]} imaginary={imag}: "
                    f"code {g!r} != definition {exp!r}", dict(bin=b, code=g, expected=exp))
    return None


def search(ctx, budget_s):
    rng = ctx.rng
    t0 = time.time()
    n_cases = 0
    # documented selectors are accepted
    for sel in SELECTORS:
        try:
            parts = [[mk_particle(0.5 + 0.1 * i, 0.3 * i, 0.1 * i, 211) for i in range(6)]]
            real_differential(parts, 2, 2, "zero", [-10.0, 10.0], sel, None)
        except Exception as e:
            ctx.violation(f"selector-{sel}", f"differential_flow rejects the documented selector {sel!r}: {type(e).__name__}: {e}",
                          dict(input=dict(selector=sel)))
    # the decision functions themselves (when reachable), against the table written out independently here:
    # x = factor_k * c;  x >= 0 -> x^(1/k);  else negative -> -(-x)^(1/k), zero -> 0, nan -> NaN.  Includes the
    # boundary c = +-0.0 exactly and values next to it.
    fac = {2: 1.0, 4: -1.0, 6: 0.25}
    tiny = 5e-324
    try:
        for k in (2, 4, 6):
            for im in IMAG:
                for c in (0.0, -0.0, tiny, -tiny, 1e-300, -1e-300, 0.0625, -0.0625, 1.0, -1.0, 81.0, -81.0):
                    x = fac[k] * c
                    if x >= 0.0:
                        want = x ** (1.0 / k)
                    else:
                        want = {"negative": -((-x) ** (1.0 / k)), "zero": 0.0, "nan": float("nan")}[im]
                    got = real_fc(k, im, c)
                    ctx.case(("oracle-fc", k, im, repr(c)), True)
                    ctx.count(f"oracle-fc/k={k}/{im}")
                    if not ((want != want and got != got) or close(got, want, rel=1e-12, abs_=0.0)):
                        ctx.violation(f"flow-from-cumulant-k{k}-{im}-{'boundary' if abs(c) < 1e-200 else 'neg' if x < 0 else 'pos'}",
                                      f"__flow_from_cumulant(k={k}, imaginary={im!r}) of c_n{{{k}}} = {c!r}: {got!r}, the "
                                      f"decision table of the property gives {want!r}",
                                      dict(input=dict(kind="fc", k=k, imaginary=im, cnk=c), detail=dict(got=got, want=want)))
        for k in (2, 4):
            for im in IMAG:
                for c in (0.0, -0.0, tiny, -tiny, 0.0625, -0.0625, 4.0, -4.0):
                    for d in (0.25, -0.5):
                        phys = c > 0.0 if k == 2 else c < 0.0
                        e = 0.5 if k == 2 else 0.75
                        if phys:
                            want = (d if k == 2 else -d) / (fac[k] * c) ** e
                        elif im == "negative":
                            want = ((d if k == 2 else -d) / (-fac[k] * c) ** e) if c != 0.0 else None  # x/0: not pinned
                        else:
                            want = {"zero": 0.0, "nan": float("nan")}[im]
                        if want is None:
                            continue
                        try:
                            got = real_dfc(k, im, c, d)
                        except ZeroDivisionError:
                            continue
                        ctx.case(("oracle-dfc", k, im, repr(c), d), True)
                        ctx.count(f"oracle-dfc/k={k}/{im}")
                        if not ((want != want and got != got) or close(got, want, rel=1e-12, abs_=0.0)):
                            ctx.violation(f"differential-flow-from-cumulant-k{k}-{im}-{'boundary' if abs(c) < 1e-200 else 'phys' if phys else 'unphys'}",
                                          f"__flow_from_cumulant_differential(k={k}, imaginary={im!r}) of c = {c!r}, d = {d!r}: "
                                          f"{got!r}, the decision table gives {want!r}",
                                          dict(input=dict(kind="dfc", k=k, imaginary=im, cnk=c, dnk=d), detail=dict(got=got, want=want)))
    except NoPrivateAccess:
        ctx.count("oracle-fc/skipped-no-private-access")
    # sessions: one estimator object, one list object changed in place between calls
    n_sess = 200 if ctx.thorough else 12
    for _ in range(n_sess):
        if time.time() - t0 > budget_s:
            break
        sess = gen_session(rng)
        r = run_session(sess)
        ctx.case(("oracle-session", json.dumps(sess, sort_keys=True)), True)
        ctx.count(f"oracle-session/k={sess['k']}/steps={len(sess['steps'])}")
        n_cases += 1
        if r:
            sess["steps"] = sess["steps"][:r[0] + 1]
            if run_session(sess, fresh=True) is None:
                ctx.violation("instance-reuse-" + r[1], r[2] + " -- a fresh estimator on a fresh list answers correctly",
                              dict(input=dict(kind="session", **sess), detail=r[3]))
            else:
                ctx.violation(r[1], r[2], dict(input=dict(kind="session", **sess), detail=r[3]))
            break
    # large multiplicities (brute force impossible): the partition formula is the reference
    selftest_partition(rng)
    for i in range(12 if ctx.thorough else 3):
        if time.time() - t0 > budget_s:
            break
        k = (6, 4, 2)[i % 3] if i >= 1 else 6
        n = rng.randint(1, 3)
        imag = rng.choice(IMAG)
        phis = gen_big_phis(rng, k, harm=n)
        if i == 0:
            while max(len(e) for e in phis) < 1449:
                phis = gen_big_phis(rng, 6, harm=n)
        r = check_integrated_big(phis, n, k, imag)
        ctx.case(("oracle-big", n, k, imag, tuple(len(e) for e in phis), repr(phis[0][:3])), True)
        ctx.count(f"oracle-big/k={k}/maxM={max(len(e) for e in phis)}")
        n_cases += 1
        if r:
            ctx.violation(r[0], r[1], dict(input=dict(kind="integrated-big", n=n, k=k, imaginary=imag, phis=phis), detail=r[2]))
            break
    limit = 3000 if ctx.thorough else 60
    # stratified: every k x imaginary mode must be seen with both signs of the cumulant
    need = {(k, im, sg) for k in (2, 4, 6) for im in IMAG for sg in (-1, 1)}
    tries = 0
    while need and tries < 400 and time.time() - t0 < budget_s:
        tries += 1
        k, im, sg = sorted(need)[tries % len(need)]
        n = rng.randint(1, 3)
        phis = gen_phis(rng, k, nev_max=2, mmax=7 if k == 6 else 8, flowy=rng.choice([0.0, 0.4]), harm=n)
        try:
            _, v = brute_like_sign(phis, n, k)
        except NoPrivateAccess:
            v = brute_flow(phis, n, k, im)[1]
        if abs(v) < 1e-6 or (v > 0) != (sg > 0):
            continue
        need.discard((k, im, sg))
        n_cases += 1
        r = check_integrated(phis, n, k, im)
        ctx.case(("oracle-int-strat", n, k, im, tuple(map(tuple, phis))), True)
        ctx.count(f"oracle-int/k={k}/{im}/{'neg' if sg < 0 else 'pos'}")
        if r:
            ctx.violation(r[0] + f"-{im}-{'neg' if sg < 0 else 'pos'}", r[1],
                          dict(input=dict(kind="integrated", n=n, k=k, imaginary=im, phis=phis), detail=r[2]))
            need.clear()
            ctx.cov["oracle_cases"] = n_cases
            return
    ctx.cov["strata_not_reached"] = sorted(map(list, need))
    while time.time() - t0 < budget_s and n_cases < limit:
        n_cases += 1
        if rng.random() < 0.5:
            k = rng.choice([2, 4, 6])
            n = rng.randint(1, 3)
            imag = rng.choice(IMAG)
            phis = gen_phis(rng, k, nev_max=3, mmax=7 if k == 6 else 8, harm=n)
            r = check_integrated(phis, n, k, imag)
            ctx.case(("oracle-int", n, k, imag, tuple(map(tuple, phis))), True)
            if r:
                ctx.violation(r[0], r[1], dict(input=dict(kind="integrated", n=n, k=k, imaginary=imag, phis=phis), detail=r[2]))
                break
        else:
            k = rng.choice([2, 4])
            imag = rng.choice(IMAG)
            n, parts, bins, sel, poi = gen_diff_case(rng, k)
            r = check_differential(n, k, imag, parts, bins, sel, poi)
            ctx.case(("oracle-diff", n, k, imag, sel, tuple(poi or ()), tuple(bins), tuple(tuple((p.phi(), p.pT_abs(), int(p.pdg)) for p in e) for e in parts)), True)
            if r:
                ctx.violation(r[0], r[1], dict(input=dict(kind="differential", n=n, k=k, imaginary=imag, selector=sel, poi=poi, bins=bins,
                                                           particles=[[dict(px=float(p.px), py=float(p.py), pz=float(p.pz), E=float(p.E), pdg=int(p.pdg)) for p in e] for e in parts]),
                                               detail=r[2]))
                break
    ctx.cov["oracle_cases"] = n_cases
    ctx.count("oracle", n_cases)


def replay(ctx, path):
    rc = 0
    for via in ("plain", "deepcopy", "pickle", "copy"):
        _FORCE_VIA[0] = via
        _OBJ.clear()
        r = _replay_one(ctx, path, via)
        rc = max(rc, r)
        if r:
            break
    _FORCE_VIA[0] = None
    if rc == 0:
        print("[C11] replay: property holds on this input now (estimator as built / deep-copied / unpickled / copied)")
    return rc


def _replay_one(ctx, path, via):
    d = json.loads(open(path).read())
    inp = d.get("input")
    if not inp or "kind" not in inp:
        print(f"[C11] replay file names a broken obligation or a selector, not a sample: {d.get('broken') or inp}")
        return 1
    if inp["kind"] in ("fc", "dfc"):
        want = d["detail"]["want"]
        got = real_fc(inp["k"], inp["imaginary"], inp["cnk"]) if inp["kind"] == "fc" else \
            real_dfc(inp["k"], inp["imaginary"], inp["cnk"], inp["dnk"])
        ok = (want != want and got != got) or close(got, want, rel=1e-12, abs_=0.0)
        r = None if ok else ("fc", f"decision function returns {got!r}, the table of the property gives {want!r} on {inp}")
    elif inp["kind"] == "session":
        rr = run_session(inp)
        r = None if rr is None else (rr[1], rr[2])
    elif inp["kind"] == "integrated-big":
        r = check_integrated_big(inp["phis"], inp["n"], inp["k"], inp["imaginary"])
    elif inp["kind"] == "integrated":
        r = check_integrated(inp["phis"], inp["n"], inp["k"], inp["imaginary"])
    else:
        from sparkx.Particle import Particle
        parts = []
        for e in inp["particles"]:
            pe = []
            for q in e:
                p = Particle()
                p.px, p.py, p.pz, p.E, p.pdg = q["px"], q["py"], q["pz"], q["E"], q["pdg"]
                pe.append(p)
            parts.append(pe)
        r = check_differential(inp["n"], inp["k"], inp["imaginary"], parts, inp["bins"], inp["selector"], inp["poi"])
    if r:
        print(f"VIOLATION property=C11 replay={path}")
        print(f"(estimator object: {via}) " + r[1])
        return 1
    return 0
