"""Regenerate all Gen/*.lean from /repo and build all registered modules (used by setup.sh)."""
import importlib
import json
import sys
import time
from pathlib import Path

sys.path.insert(0, str(Path(__file__).resolve().parent))
import common  # noqa: E402


def main():
    ob = {f.stem: json.loads(f.read_text()) for f in sorted((common.LEAN / "obligations").glob("C*.json"))}
    targets = []
    for prop, o in sorted(ob.items()):
        try:
            mod = importlib.import_module(f"props.{prop}")
            if hasattr(mod, "translate"):
                mod.translate(common.Ctx(prop, "quick", 0))
        except Exception as e:  # a broken translator is reported by the check itself
            print(f"[setup] translate {prop}: {type(e).__name__}: {e}")
        targets += o["modules"] + o.get("driver_modules", [])
    t = time.time()
    ok, log = common.lake_build(sorted(set(targets)), timeout=7200)
    print(log[-3000:])
    print(f"[setup] lake build {'ok' if ok else 'FAILED'} in {time.time()-t:.0f}s")
    sys.exit(0 if ok else 1)


if __name__ == "__main__":
    main()
