"""Particles, filter calls and their encodings for the Lean drivers (shared by C03, C04, C05, C06).

A *spec particle* is a dict of the attributes we set on a real `sparkx.Particle.Particle`; everything not
set stays NaN ("unset").  `encode_particle` evaluates the real object's getters / kinematic methods / PDG
class methods and writes the line-protocol fields of Core/FilterProto.lean, so the model filters see exactly the
values the real filters see.  `ref_filter` is the independent reference (the documented predicate as a plain
Python comprehension) used by the oracle.
"""
import math
import warnings

import numpy as np

from common import f2h

warnings.filterwarnings("ignore")

VALID_PDGS = [211, -211, 111, 321, -321, 2212, -2212, 2112, 3122, 22, 11, -11, 13, 12, 1, -2, 3, 4, -5, 6, 21,
              421, 521, 4122, 5122, 3312, 221, 113, 333, 443, 1000010020]
# invalid codes include sign-flipped self-conjugate mesons: |code| is a valid particle, the code itself is not
# (anything that decides per |pdg|, e.g. a lookup cache shared by particle and antiparticle, must show)
INVALID_PDGS = [99999, 1234567, 77, -111, -221, -113, -333, -443, 300, 120, 220]

CLASS_METHODS = ["is_hadron", "is_lepton", "is_quark", "is_meson", "is_baryon", "has_up", "has_down", "has_strange",
                 "has_charm", "has_bottom", "has_top"]


def make_particle(spec):
    """spec keys are attribute names; two optional extras describe how the PDG code got there: `pdg_prev` (a code assigned
    first and then overwritten) and `pdg_werror` (the final assignment is made with warnings turned into errors and the
    error caught, as a caller running under -W error would do): the object must end up describing its CURRENT code"""
    import warnings
    from sparkx.Particle import Particle
    p = Particle()
    if "pdg_prev" in spec:
        with warnings.catch_warnings():
            warnings.simplefilter("ignore")
            p.pdg = spec["pdg_prev"]
    for k, v in spec.items():
        if k in ("pdg_prev", "pdg_werror", "via"):
            continue
        if k == "charge":
            p.data_[12] = float(v)  # the setter triples |q|<1; we set the stored value directly
        elif k == "pdg" and spec.get("pdg_werror"):
            with warnings.catch_warnings():
                warnings.simplefilter("error")
                try:
                    p.pdg = v
                except Warning:
                    pass
        else:
            setattr(p, k, v)
    via = spec.get("via")   # the object handed to the code is a copy / an unpickled copy of the one built here
    if via == "copy":
        import copy
        p = copy.copy(p)
    elif via == "deepcopy":
        import copy
        p = copy.deepcopy(p)
    elif via == "pickle":
        import pickle
        p = pickle.loads(pickle.dumps(p))
    return p


def gen_spec(rng, unset_prob=0.15, grid=None):
    """a particle spec with values on a small grid (so cut values can hit them exactly)"""
    g = grid or [-2.0, -1.0, -0.5, 0.0, 0.25, 0.5, 1.0, 1.5, 2.0, 3.0]
    s = {}

    def maybe(name, gen):
        if rng.random() >= unset_prob:
            s[name] = gen()
    maybe("t", lambda: rng.choice([0.5, 1.0, 2.0, 3.0, 5.0]))
    maybe("x", lambda: rng.choice(g))
    maybe("y", lambda: rng.choice(g))
    maybe("z", lambda: rng.choice(g))
    maybe("px", lambda: rng.choice(g))
    maybe("py", lambda: rng.choice(g))
    maybe("pz", lambda: rng.choice(g))
    # energies are mostly positive; a few negative ones (the formats can carry them) make partial sums non-monotone
    maybe("E", lambda: rng.choice([0.5, 1.0, 2.0, 3.0, 4.0, 6.0] * 3 + [-0.5, -2.0, -4.0, -6.0]))
    if rng.random() >= unset_prob / 2:
        s["pdg"] = rng.choice(VALID_PDGS) if rng.random() < 0.85 else rng.choice(INVALID_PDGS)
        if rng.random() < 0.12:  # the code was something else before (valid <-> invalid), possibly assigned under -W error
            s["pdg_prev"] = rng.choice(VALID_PDGS) if rng.random() < 0.7 else rng.choice(INVALID_PDGS)
            if rng.random() < 0.5:
                s["pdg_werror"] = True
    if rng.random() < 0.1:  # particle objects that went through copy / deepcopy / pickle must behave like the originals
        s["via"] = rng.choice(["copy", "deepcopy", "pickle"])
    maybe("charge", lambda: rng.choice([-2, -1, 0, 0, 1, 1, 2]))
    maybe("ncoll", lambda: rng.choice([0, 0, 1, 2, 5]))
    maybe("status", lambda: rng.choice([-1, 0, 1, 11, 27]))
    return s


def _xi(v):
    return "n" if (isinstance(v, float) and v != v) else str(int(v))


def _xf(v):
    v = float(v)
    return "n" if v != v else f2h(v)


def _tri(v):
    if isinstance(v, float) and v != v:
        return "n"
    return "1" if v else "0"


def kin(p, name):
    with np.errstate(all="ignore"):
        try:
            return float(getattr(p, name)())
        except ValueError:
            return float("nan")


def etas_field(p):
    """spacetime_rapidity(): value, NaN, or `r` when it raises the documented ValueError"""
    with np.errstate(all="ignore"):
        try:
            return _xf(float(p.spacetime_rapidity()))
        except ValueError:
            return "r"


def spacelike(p):
    t, z = float(p.t), float(p.z)
    return t == t and z == z and not (t > abs(z))


def encode_particle(p, pid, with_class=True):
    f = [str(pid), _xi(p.charge), _xi(p.pdg), _xi(p.ncoll), _xi(p.status),
         _xf(p.t), _xf(p.x), _xf(p.y), _xf(p.z), _xf(p.E),
         _xf(kin(p, "pT_abs")), _xf(kin(p, "mT")), _xf(kin(p, "rapidity")), _xf(kin(p, "pseudorapidity")),
         etas_field(p)]
    for m in CLASS_METHODS:
        if with_class and not (isinstance(p.pdg, float) and p.pdg != p.pdg):
            f.append(_tri(getattr(p, m)()))
        else:
            f.append("n")
    return ",".join(f)


def encode_events(evs, ids):
    """evs: nested list of real particles; ids: dict id(p) -> number"""
    if len(evs) == 0:
        return "-"
    return "|".join("." if not ev else ";".join(encode_particle(p, ids[id(p)]) for p in ev) for ev in evs)


def ids_of(evs, ids):
    if len(evs) == 0:
        return "-"
    return "|".join("." if not ev else ",".join(str(ids[id(p)]) for p in ev) for ev in evs)


# ----------------------------------------------------------------------------- filter calls
# a call = (name, pyargs, encoding) ; name = function name in sparkx.Filter / method name on storers

def _welem(v):
    return "N" if v is None else ("X" if not isinstance(v, (int, float)) else f2h(float(v)))


def enc_window(t):
    if not isinstance(t, tuple):
        return "nt"
    return "w:" + ",".join(_welem(v) for v in t)


def enc_rarg(a):
    if isinstance(a, tuple):
        return "t:" + ",".join(_welem(v) for v in a)
    if isinstance(a, (int, float)) and not isinstance(a, bool):
        return "s:" + f2h(float(a))
    return "o"


def enc_iarg(a):
    if isinstance(a, bool):
        return "o"
    if isinstance(a, (int, np.integer)):
        return f"s:{int(a)}"
    if isinstance(a, list):
        return "l:" + ",".join(str(int(v)) for v in a)
    if isinstance(a, tuple):
        return "t:" + ",".join(str(int(v)) for v in a)
    if isinstance(a, np.ndarray):
        return "a:" + ",".join(str(int(v)) for v in a)
    return "o"


NOARG = {"charged_particles": "charged", "uncharged_particles": "uncharged", "participants": "participants",
         "spectators": "spectators", "keep_hadrons": "keepHadrons", "keep_leptons": "keepLeptons",
         "keep_quarks": "keepQuarks", "keep_mesons": "keepMesons", "keep_baryons": "keepBaryons",
         "keep_up": "keepUp", "keep_down": "keepDown", "keep_strange": "keepStrange", "keep_charm": "keepCharm",
         "keep_bottom": "keepBottom", "keep_top": "keepTop", "remove_photons": "removePhotons"}
CLASS_FILTERS = {"keep_hadrons": "is_hadron", "keep_leptons": "is_lepton", "keep_quarks": "is_quark", "keep_mesons": "is_meson",
                 "keep_baryons": "is_baryon", "keep_up": "has_up", "keep_down": "has_down", "keep_strange": "has_strange",
                 "keep_charm": "has_charm", "keep_bottom": "has_bottom", "keep_top": "has_top"}
WINDOW = {"pT_cut": "pT", "mT_cut": "mT", "multiplicity_cut": "multiplicity"}
RAPLIKE = {"rapidity_cut": "rapidity", "pseudorapidity_cut": "pseudorapidity", "spacetime_rapidity_cut": "spacetimeRapidity"}
SPECIES = {"particle_species": "species", "remove_particle_species": "removeSpecies"}
ALL_FILTERS = list(NOARG) + list(WINDOW) + list(RAPLIKE) + list(SPECIES) + ["spacetime_cut", "particle_status", "lower_event_energy_cut"]
NEEDS_PDG = set(CLASS_FILTERS) | set(SPECIES) | {"remove_photons"}


def encode_call(name, args):
    if name in NOARG:
        return NOARG[name]
    if name in WINDOW:
        return WINDOW[name] + ":" + enc_window(args[0])
    if name in RAPLIKE:
        return RAPLIKE[name] + ":" + enc_rarg(args[0])
    if name in SPECIES:
        return SPECIES[name] + ":" + enc_iarg(args[0])
    if name == "particle_status":
        return "status:" + enc_iarg(args[0])
    if name == "spacetime_cut":
        d = args[0] if args[0] in ("t", "x", "y", "z") else "bad"
        return f"spacetime:{d}:" + enc_window(args[1])
    if name == "lower_event_energy_cut":
        return "energy:" + f2h(float(args[0]))
    raise KeyError(name)


def gen_int_container(rng, pool, shapes=("scalar", "list", "tuple", "ndarray")):
    shape = rng.choice(shapes)
    if shape == "scalar":
        return rng.choice(pool), shape
    k = rng.randint(1, 3)
    vals = [rng.choice(pool) for _ in range(k)]
    if shape == "list":
        return vals, shape
    if shape == "tuple":
        return tuple(vals), shape
    return np.array(vals), shape


def gen_window(rng, values, nonneg=False, allow_none=True):
    vs = [v for v in values if not nonneg or v >= 0] or [0.0, 1.0]
    a = rng.choice(vs)
    b = rng.choice(vs)
    r = rng.random()
    if allow_none and r < 0.2:
        return (None, b)
    if allow_none and r < 0.4:
        return (a, None)
    return (a, b)  # any order, possibly equal


def gen_call(rng, names=None, grid=None, admissible_only=True):
    """random (name, args) with boundary-biased arguments"""
    g = grid or [-2.0, -1.0, -0.5, 0.0, 0.25, 0.5, 1.0, 1.5, 2.0, 3.0]
    name = rng.choice(names or ALL_FILTERS)
    if name in NOARG:
        return name, ()
    if name in ("pT_cut", "mT_cut"):
        vals = [0.0, 0.25, 0.5, 1.0, math.sqrt(2.0), 1.5, 2.0, math.sqrt(5.0), 3.0, math.sqrt(0.5), math.sqrt(3.0)]
        return name, (gen_window(rng, vals, nonneg=True),)
    if name == "multiplicity_cut":
        return name, (gen_window(rng, [0, 1, 2, 3, 4, 5, 2.5], nonneg=True),)
    if name in RAPLIKE:
        vals = [-1.0, -0.5, 0.0, 0.5, 1.0, 0.5 * math.log(3.0), -0.5 * math.log(3.0), 2.0]
        if rng.random() < 0.5:
            return name, (gen_window(rng, vals, allow_none=False),)
        return name, (rng.choice([0.5, 1.0, -1.0, 0.5 * math.log(3.0), 2.0, 0]),)
    if name in SPECIES:
        a, _ = gen_int_container(rng, [211, -211, 2212, 22, 321, 111, 99999])
        return name, (a,)
    if name == "particle_status":
        a, _ = gen_int_container(rng, [-1, 0, 1, 11, 27])
        return name, (a,)
    if name == "spacetime_cut":
        d = rng.choice(["t", "x", "y", "z"])
        return name, (d, gen_window(rng, g if d != "t" else [0.5, 1.0, 2.0, 3.0, 5.0]))
    if name == "lower_event_energy_cut":
        return name, (rng.choice([0.5, 1.0, 2.0, 3.0, 4.0, 6.0, 7.5, 10.0, 3]),)
    raise KeyError(name)


# ----------------------------------------------------------------------------- reference semantics (oracle)
def _isnan(v):
    return isinstance(v, float) and v != v


def ref_pred(name, args):
    """documented predicate of a particle-level filter; returns p -> bool"""
    if name == "charged_particles":
        return lambda p: (not _isnan(p.charge)) and p.charge != 0
    if name == "uncharged_particles":
        return lambda p: (not _isnan(p.charge)) and p.charge == 0
    if name == "participants":
        return lambda p: (not _isnan(p.ncoll)) and p.ncoll != 0
    if name == "spectators":
        return lambda p: (not _isnan(p.ncoll)) and p.ncoll == 0
    if name in CLASS_FILTERS:
        m = CLASS_FILTERS[name]

        def pr(p):
            # independent of the Particle object's own bookkeeping: the class of the CURRENT code according to PDGID
            from particle import PDGID
            if _isnan(p.pdg):
                return False
            pid = PDGID(int(p.pdg))
            return bool(pid.is_valid) and bool(getattr(pid, m))
        return pr
    if name == "remove_photons":
        return lambda p: (not _isnan(p.pdg)) and p.pdg != 22
    if name in SPECIES or name == "particle_status":
        a = args[0]
        members = set(int(v) for v in (a if isinstance(a, (list, tuple, np.ndarray)) else [a]))
        if name == "particle_species":
            return lambda p: (not _isnan(p.pdg)) and p.pdg in members
        if name == "remove_particle_species":
            return lambda p: (not _isnan(p.pdg)) and p.pdg not in members
        return lambda p: (not _isnan(p.status)) and p.status in members

    def window(t):
        lo = -math.inf if t[0] is None else t[0]
        hi = math.inf if t[1] is None else t[1]
        return (min(lo, hi), max(lo, hi))
    if name in ("pT_cut", "mT_cut", "spacetime_cut") or name in RAPLIKE:
        if name == "spacetime_cut":
            get = lambda p, d=args[0]: float(getattr(p, d))
            lo, hi = window(args[1])
        else:
            meth = {"pT_cut": "pT_abs", "mT_cut": "mT", "rapidity_cut": "rapidity", "pseudorapidity_cut": "pseudorapidity",
                    "spacetime_rapidity_cut": "spacetime_rapidity"}[name]
            get = lambda p: kin(p, meth)
            a = args[0]
            lo, hi = window(a) if isinstance(a, tuple) else (-abs(a), abs(a))

        def pr(p):
            v = get(p)
            return (v == v) and lo <= v <= hi
        return pr
    raise KeyError(name)


def ref_filter(name, args, evs):
    """reference result on plain lists (new lists; particles are the same objects)"""
    if name == "multiplicity_cut":
        t = args[0]
        lo = -math.inf if t[0] is None else t[0]
        hi = math.inf if t[1] is None else t[1]
        lo, hi = min(lo, hi), max(lo, hi)
        out = [list(ev) for ev in evs if lo <= len(ev) < hi]
        return out if out else [[]]
    if name == "lower_event_energy_cut":
        thr = args[0]
        out = [list(ev) for ev in evs if math.fsum(float(p.E) for p in ev if float(p.E) == float(p.E)) >= thr]
        return out if out else [[]]
    pr = ref_pred(name, args)
    return [[p for p in ev if pr(p)] for ev in evs]
