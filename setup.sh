#!/bin/sh
# MANIFEST.setup_cmd: regenerate the translated models from /repo's working tree, then build every
# theorem and driver module offline. Safe to re-run; incremental.
set -e
DIR="$(cd "$(dirname "$0")" && pwd)"
cd "$DIR"
/venv/bin/python harness/setup_all.py
