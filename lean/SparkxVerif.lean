-- Root of the library: everything the checks build.
import SparkxVerif.Core.Proto
