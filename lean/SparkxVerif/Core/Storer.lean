/-
Storer bookkeeping (`src/sparkx/BaseStorer.py`, `Oscar.py`, `Jetscape.py`, `ParticleObjectStorer.py`): executable model.

A storer holds a nested particle list (`particle_list_`) and *derived* bookkeeping that every method keeps in step by
hand: `num_events_` and the numpy array `num_output_per_event_` of `(event label, number of particles)` rows.
The model keeps the bookkeeping in exactly the representations the loaders can leave behind, because the code
branches on them (`ndim == 1`, `ndim == 2`, a plain list has no `ndim`, indexing a 1-D array with two indices raises):

  `arr2d rows`  a `(n,2)` integer array (also `np.empty((0,2))`)        — Oscar, Jetscape, repaired ParticleObjectStorer
  `arr1d xs`    a 1-D array (`np.array([])` when the constructor filters removed every event — pinned by the test-suite;
                `[label,count]` as older loaders left for `Jetscape(events=k)`; `np.concatenate` of two plain lists)
  `pyList xs`   a plain Python list of ints (what `ParticleObjectLoader.load` returns)
  `none`        `None`

Functions mirror the code statement by statement:
  `particleList`   = `BaseStorer.particle_list`  (driven by `num_events_` and the counts, not by the held list)
  `updateAfterFilter` = `BaseStorer._update_num_output_per_event_after_filter`
  `filterStep`     = a filter *method* (`NotImplementedError` overrides, `Filter.py` function on the held list, recount)
  `add`            = `BaseStorer.__add__` + `_update_after_merge` of the three classes
  `initOscar / initJetscape / initPobj` = what the constructors leave for a whole file / one event / a range of events.
No Mathlib.  Generic over the float type of the filter model (`Core/FilterSkel.lean`).
-/
import SparkxVerif.Core.FilterSkel

namespace SparkxVerif.Storer
open SparkxVerif.Flt

inductive Cls | oscar | jetscape | pobj
deriving DecidableEq, Repr

/-- exception classes the property's observers can see -/
inductive SErr
  | value | type | index | attr | notimpl
  | flt (e : Flt.Err)      -- raised by the `Filter.py` function itself (C03's subject)
deriving DecidableEq, Repr

inductive Counts
  | none
  | arr2d (rows : List (Int × Int))
  | arr1d (xs : List Int)
  | pyList (xs : List Int)
deriving DecidableEq, Repr

structure State (α : Type) where
  cls : Cls
  events : Evs α
  numEvents : Option Int
  counts : Counts
  /-- Oscar: `event_end_lines_` (opaque footer ids) -/
  footers : List Nat
  /-- Jetscape: `particle_type_` / `particle_type_defining_string_` (opaque id) -/
  ptype : Nat

/-- what `particle_list()` returns: for `num_events_ == 1` a flat list of particles (documented "single event" shape),
otherwise one list per event.  A particle is represented by its identity. -/
inductive PL
  | flat (ids : List Nat)
  | nested (ids : List (List Nat))
deriving DecidableEq, Repr

def idsOf {α : Type} (ev : Ev α) : List Nat := ev.map (·.id)

/-- Python `range(0, n)` for a possibly negative numpy integer -/
def pyRange (n : Int) : Nat := n.toNat

/-- start index of the Python slice `x[n:]` on a sequence of length `len` -/
def sliceStart (n : Int) (len : Nat) : Nat :=
  if n < 0 then ((len : Int) + n).toNat else min n.toNat len

section
variable {α : Type}

/-- `[particle_list_[i_ev][i_part] for i_part in range(0, k)]`: `IndexError` when the event or the particle is missing
(only if the loop body runs at all) -/
def takeCounted (evs : Evs α) (iEv : Nat) (k : Int) : Except SErr (List Nat) :=
  if pyRange k = 0 then .ok []
  else match evs[iEv]? with
    | none => .error .index
    | some ev => if pyRange k ≤ ev.length then .ok (idsOf (ev.take (pyRange k))) else .error .index

/-- the `else` branch's loop `for i_ev in range(0, num_events)` reading `num_particles[i_ev]` -/
def nestedLoop (evs : Evs α) (col : List Int) : Nat → Nat → Except SErr (List (List Nat))
  | _, 0 => .ok []
  | i, n + 1 =>
    match col[i]? with
    | none => .error .index
    | some k => do
      let ev ← takeCounted evs i k
      let rest ← nestedLoop evs col (i + 1) n
      pure (ev :: rest)

/-- `BaseStorer.particle_list()` -/
def particleList (s : State α) : Except SErr PL :=
  match s.counts, s.numEvents with
  | .none, _ => .error .value
  | _, none => .error .value
  | c, some nev =>
    if nev = 1 then
      -- num_particles = self.num_output_per_event_[0][1]
      match c with
      | .arr2d rows =>
        match rows.head? with
        | none => .error .index
        | some r => (takeCounted s.events 0 r.2).map .flat
      | .arr1d _ => .error .index                                                            -- `[]`[0] / scalar[1]
      | .pyList xs => match xs.head? with | none => .error .index | some _ => .error .type   -- int[1]
      | .none => .error .value
    else if nev = 0 then
      -- no events are held: num_particles = np.array([]), the event loop does not run
      .ok (.nested [])
    else
      -- num_particles = self.num_output_per_event_[:, 1]
      match c with
      | .arr2d rows => (nestedLoop s.events (rows.map (·.2)) 0 (pyRange nev)).map .nested
      | .arr1d _ => .error .index
      | .pyList _ => .error .type
      | .none => .error .value

/-- rows `(first + i, len(event i))` -/
def mkRows (first : Int) : List Nat → List (Int × Int)
  | [] => []
  | n :: ns => (first, (n : Int)) :: mkRows (first + 1) ns

/-- `len(num_output_per_event_)` -/
def Counts.len : Counts → Nat
  | .none => 0 | .arr2d rows => rows.length | .arr1d xs => xs.length | .pyList xs => xs.length

/-- `if particle_list_ == []: particle_list_ = [[]]` — "no event" is held as one empty placeholder event -/
def normEvs (evs : Evs α) : Evs α := if evs.isEmpty then [[]] else evs

/-- `_update_num_output_per_event_after_filter`, the held list already replaced by the filter's result -/
def updateAfterFilter (s : State α) : Except SErr (State α) :=
  match s.counts with
  | .none => .error .value
  | c =>
    if c.len = 0 then
      -- no events are held (`[[]]` is only a placeholder): nothing to recount
      .ok { s with events := normEvs s.events }
    else match c with
    | .none => .error .value
    | .pyList _ => .error .attr                       -- `'list' object has no attribute 'ndim'`
    | .arr1d xs =>
      -- self.num_output_per_event_[1] = len(self.particle_list_[0])
      match s.events.head? with
      | none => .error .index
      | some ev =>
        if xs.length < 2 then .error .index
        else .ok { s with counts := .arr1d (xs.set 1 (ev.length : Int)) }
    | .arr2d rows =>
      let first : Int := match rows.head? with | some r => r.1 | none => 0
      .ok { s with events := normEvs s.events, counts := .arr2d (mkRows first (s.events.map List.length)),
                   numEvents := some (s.events.length : Int) }
end

section
variable {α : Type} [LE α] [LT α] [DecidableLE α] [DecidableLT α] [Neg α] [Zero α] [Add α]

/-- the `NotImplementedError` overrides of `Oscar` and `Jetscape` as found in the source (the harness re-extracts the
table on every run and hands it to the driver; the theorems hold for every table `impl`) -/
def implemented (c : Cls) : Call α → Bool
  | .status _ => c != .oscar
  | .keepQuarks => c != .oscar
  | .participants | .spectators => c != .jetscape
  | .spacetime _ _ => c != .jetscape
  | .spacetimeRapidity _ => c != .jetscape
  | _ => true

/-- a filter method: `self.particle_list_ = f(self.particle_list_, arg); self._update…(); return self`;
`impl cls c = false` when the class overrides the method by `raise NotImplementedError` -/
def filterStep (impl : Cls → Call α → Bool) (ofNat : Nat → α) (s : State α) (c : Call α) : Except SErr (State α) :=
  if !impl s.cls c then .error .notimpl
  else match applyCall ofNat c s.events with
    | .error e => .error (.flt e)
    | .ok evs => updateAfterFilter { s with events := evs }
end

/-- `rows[k:, 0] += d` -/
def shiftFrom (k : Nat) (d : Int) (rows : List (Int × Int)) : List (Int × Int) :=
  rows.take k ++ (rows.drop k).map (fun r => (r.1 + d, r.2))

/-- `np.concatenate((a, b))` followed by the relabelling of the rows that came from `b`
(`shift = a[-1,0] + 1 - b[0,0]` when both have rows; `combined[num_events_a:, 0] += shift`) -/
def addCounts (nA : Int) (ca cb : Counts) : Except SErr Counts :=
  match ca, cb with
  | .none, _ => .error .value                     -- (replaced by an empty 2-D array before)
  | _, .none => .error .value
  | .arr2d r1, .arr2d r2 =>
    let comb := r1 ++ r2
    match r1.getLast?, r2.head? with
    | some la, some hb => .ok (.arr2d (shiftFrom (sliceStart nA comb.length) (la.1 + 1 - hb.1) comb))
    | _, _ => .ok (.arr2d comb)
  | .arr2d _, _ => .error .value                  -- arrays of different dimension
  | _, .arr2d _ => .error .value
  | .arr1d x1, .arr1d x2 | .arr1d x1, .pyList x2 =>
    if x1.length > 0 && x2.length > 0 then .error .index else .ok (.arr1d (x1 ++ x2))    -- `a[-1, 0]` on 1-D
  | .pyList x1, .arr1d x2 | .pyList x1, .pyList x2 =>
    if x1.length > 0 && x2.length > 0 then .error .type else .ok (.arr1d (x1 ++ x2))     -- `list[-1, 0]`

section
variable {α : Type}

/-- the part of a storer that enters a sum: a storer without events (`num_events_ == 0`) contributes nothing -/
def addPart (s : State α) : Int × Evs α × Counts :=
  let n : Int := s.numEvents.getD 0
  let c := match s.counts with | .none => Counts.arr2d [] | c => c
  if n = 0 then (n, [], .arr2d []) else (n, s.events, c)

/-- `a + b` -/
def add (a b : State α) : Except SErr (State α) :=
  if a.cls ≠ b.cls then .error .type
  else do
    let (nA, ea, ca) := addPart a
    let (nB, eb, cb) := addPart b
    let counts ← addCounts nA ca cb
    -- `_update_after_merge`
    if a.cls = .jetscape ∧ a.ptype ≠ b.ptype then .error .type
    else
      pure { cls := a.cls, events := normEvs (ea ++ eb), numEvents := some (nA + nB), counts := counts,
             footers := if a.cls = .oscar then a.footers ++ b.footers else a.footers, ptype := a.ptype }

/-! ### constructors (no `filters=`): what the loaders leave behind -/

inductive Sel | all | one (k : Nat) | range (a b : Nat)
deriving DecidableEq, Repr

def Sel.first : Sel → Nat
  | .all => 0 | .one k => k | .range a _ => a

/-- the selected events.  `lenient` = Python list slicing of the nested-list loader (a range reaching past the end is
cut silently); the file readers raise when the selector does not fit the file (C02/C07's subject) -/
def Sel.slice {β : Type} (lenient : Bool) (sel : Sel) (l : List β) : Except SErr (List β) :=
  match sel with
  | .all => .ok l
  | .one k => match l[k]? with | some e => .ok [e] | none => .error .index
  | .range a b =>
    if b < a then .error .value
    else if lenient || b < l.length then .ok ((l.drop a).take (b + 1 - a))
    else .error .index

/-- a whole file / `events=k` / `events=(a,b)`; the file's event labels start at `base`
(`0` Oscar, `1` Jetscape, `0` a nested list); `footers` = one footer id per event of the whole file.
A data file without any event is outside the model (`value`). -/
def initState (cls : Cls) (base : Int) (file : Evs α) (sel : Sel) (footers : List Nat) (ptype : Nat) :
    Except SErr (State α) :=
  if cls ≠ .pobj ∧ file.isEmpty then .error .value
  else match sel.slice (cls = .pobj) file with
  | .error e => .error e
  | .ok evs =>
    .ok { cls := cls, events := evs,
          numEvents := some (evs.length : Int),
          counts := .arr2d (mkRows (base + sel.first) (evs.map List.length)),
          footers := footers, ptype := ptype }

def initOscar (file : Evs α) (sel : Sel) (footers : List Nat) : Except SErr (State α) :=
  initState .oscar 0 file sel footers 0
def initJetscape (file : Evs α) (sel : Sel) (ptype : Nat) : Except SErr (State α) :=
  initState .jetscape 1 file sel [] ptype
def initPobj (file : Evs α) (sel : Sel) : Except SErr (State α) :=
  initState .pobj 0 file sel [] 0
end

/-! ### histories: a storer is built from loaded objects by filter methods and `+` -/

inductive Hist (α : Type)
  | init (s : State α)
  | filter (h : Hist α) (c : Call α)
  | add (h₁ h₂ : Hist α)

section
variable {α : Type} [LE α] [LT α] [DecidableLE α] [DecidableLT α] [Neg α] [Zero α] [Add α]

def evalH (impl : Cls → Call α → Bool) (ofNat : Nat → α) : Hist α → Except SErr (State α)
  | .init s => .ok s
  | .filter h c => do let s ← evalH impl ofNat h; filterStep impl ofNat s c
  | .add h₁ h₂ => do let a ← evalH impl ofNat h₁; let b ← evalH impl ofNat h₂; add a b

/-- the events a storer holds: the placeholder `[[]]` of a storer with `num_events_ == 0` is not an event -/
def held (s : State α) : Evs α := if s.numEvents = some 0 then [] else s.events

/-- the same operations on plain Python lists: the `Filter.py` function itself and list concatenation
(an empty list of events stays empty) -/
def evalPlain (ofNat : Nat → α) : Hist α → Except Flt.Err (Evs α)
  | .init s => .ok (held s)
  | .filter h c => do
      let evs ← evalPlain ofNat h
      if evs.isEmpty then pure [] else applyCall ofNat c evs
  | .add h₁ h₂ => do let a ← evalPlain ofNat h₁; let b ← evalPlain ofNat h₂; pure (a ++ b)

/-- linear histories on one storer: filters and additions of other storers on either side -/
inductive Op (α : Type)
  | filter (c : Call α)
  | addRight (other : State α)     -- self + other
  | addLeft (other : State α)      -- other + self

def step (impl : Cls → Call α → Bool) (ofNat : Nat → α) (s : State α) : Op α → Except SErr (State α)
  | .filter c => filterStep impl ofNat s c
  | .addRight o => add s o
  | .addLeft o => add o s

def run (impl : Cls → Call α → Bool) (ofNat : Nat → α) (s : State α) : List (Op α) → Except SErr (State α)
  | [] => .ok s
  | op :: ops => do let s' ← step impl ofNat s op; run impl ofNat s' ops

/-- the same operation on a plain nested list -/
def stepPlain (ofNat : Nat → α) (evs : Evs α) : Op α → Except Flt.Err (Evs α)
  | .filter c => if evs.isEmpty then pure [] else applyCall ofNat c evs
  | .addRight o => pure (evs ++ held o)
  | .addLeft o => pure (held o ++ evs)

def runPlain (ofNat : Nat → α) (evs : Evs α) : List (Op α) → Except Flt.Err (Evs α)
  | [] => .ok evs
  | op :: ops => do let e ← stepPlain ofNat evs op; runPlain ofNat e ops
end

end SparkxVerif.Storer
