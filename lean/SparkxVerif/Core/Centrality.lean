/-
Executable model of `sparkx.CentralityClasses` (src/sparkx/CentralityClasses.py), the part property C19
talks about: edge cleaning in `__init__`, boundary extraction from the ranked sample at the end of
`__create_centrality_classes`, and the lookup `get_centrality_class`.  No Mathlib.

Multiplicities and percentile edges live in any ordered type (`LE`/`LT` with decidable relations); the
driver runs the model at `Int` (the harness maps multiplicities / edges to integers by a strictly
monotone map), the theorems are about the same definitions over an arbitrary `LinearOrder`.

The rank boundaries `R_j = int(number_events * centrality_bins_[j] / 100.0)` are *inputs* of the model
(a list of naturals, one per cleaned edge); the float expression is evaluated by Python.
-/
namespace SparkxVerif.Centrality

/-- exception classes the property can observe: `ValueError` / `IndexError` -/
inductive Err | value | index
  deriving DecidableEq, Repr

/-- A stored class minimum: a multiplicity, or `float("inf")` for a class above which no event ranks. -/
inductive Bnd (α : Type) | inf | fin (a : α)
  deriving DecidableEq, Repr

/-- Python `xs[i]` for an `int` index: a negative index counts from the end, out of range raises
`IndexError`. -/
def pyIdx {β : Type} (xs : List β) (i : Int) : Except Err β :=
  let j : Int := if i < 0 then i + (xs.length : Int) else i
  if j < 0 then .error .index
  else match xs[j.toNat]? with
    | some v => .ok v
    | none => .error .index

section order
variable {α : Type} [LE α] [LT α] [DecidableLE α] [DecidableLT α]

/-- Python `x >= b` for a stored minimum `b` (`x >= inf` is false for every multiplicity) -/
def Bnd.leVal (b : Bnd α) (x : α) : Bool :=
  match b with
  | .inf => false
  | .fin m => decide (m ≤ x)

/-- Python `x < b` for a stored minimum `b` -/
def Bnd.gtVal (b : Bnd α) (x : α) : Bool :=
  match b with
  | .inf => true
  | .fin m => decide (x < m)

/-! ### `sorted(events_multiplicity, reverse=True)` — insertion sort, descending -/

def insDesc (x : α) : List α → List α
  | [] => [x]
  | y :: ys => if y ≤ x then x :: y :: ys else y :: insDesc x ys

def sortDesc (l : List α) : List α := l.foldr insDesc []

/-! ### boundary extraction

```
MinRecord = R_0
for i in range(1, len(bins)):
    MaxRecord = R_i
    dNchdetaMax_.append(record[MinRecord])
    if MaxRecord > 0: dNchdetaMin_.append(record[MaxRecord - 1])     # (repaired code)
    else:             dNchdetaMin_.append(float("inf"))
    MinRecord = MaxRecord
```
Before the repair the minimum was `record[MaxRecord - 1]` unconditionally (`minAtWrap`): for
`MaxRecord = 0` Python's index `-1` wraps around to the *smallest* multiplicity. -/

/-- stored minimum of a class whose rank interval ends at `hi` — code after the repair -/
def minAt (srt : List α) (hi : Nat) : Except Err (Bnd α) :=
  if 0 < hi then
    match pyIdx srt ((hi : Int) - 1) with
    | .ok m => .ok (.fin m)
    | .error e => .error e
  else .ok .inf

/-- stored minimum of a class whose rank interval ends at `hi` — code before the repair -/
def minAtWrap (srt : List α) (hi : Nat) : Except Err (Bnd α) :=
  match pyIdx srt ((hi : Int) - 1) with
  | .ok m => .ok (.fin m)
  | .error e => .error e

/-- the loop over `range(1, len(bins))`; `lo` is `MinRecord`, the list holds the remaining `MaxRecord`s.
Returns `(dNchdetaMin_, dNchdetaMax_)`. -/
def extractWith (mn : List α → Nat → Except Err (Bnd α)) (srt : List α) :
    Nat → List Nat → Except Err (List (Bnd α) × List α)
  | _, [] => .ok ([], [])
  | lo, hi :: rest =>
    match pyIdx srt (lo : Int) with
    | .error e => .error e
    | .ok mx =>
      match mn srt hi with
      | .error e => .error e
      | .ok m =>
        match extractWith mn srt hi rest with
        | .error e => .error e
        | .ok (ms, xs) => .ok (m :: ms, mx :: xs)

structure Classes (α : Type) where
  mins : List (Bnd α)
  maxs : List α
  deriving Repr

/-- `__create_centrality_classes`, the part that fills `dNchdetaMin_` / `dNchdetaMax_`.
`zero` is the multiplicity `0` (negative multiplicities raise `ValueError`, fewer than 4 events too);
`R` are the rank boundaries of the cleaned edges (`centrality_bins_[0]` of an empty list raises `IndexError`). -/
def buildWith (mn : List α → Nat → Except Err (Bnd α)) (zero : α) (sample : List α) (R : List Nat) :
    Except Err (Classes α) :=
  if sample.length < 4 then .error .value
  else if sample.any (fun m => decide (m < zero)) then .error .value
  else match R with
    | [] => .error .index
    | r0 :: rest =>
      match extractWith mn (sortDesc sample) r0 rest with
      | .error e => .error e
      | .ok (ms, xs) => .ok ⟨ms, xs⟩

/-- the code after the repair (what `/repo` is expected to contain) -/
def build (zero : α) (sample : List α) (R : List Nat) : Except Err (Classes α) :=
  buildWith minAt zero sample R

/-- the code before the repair (negative index wrap) — kept for the witness theorem -/
def buildWrap (zero : α) (sample : List α) (R : List Nat) : Except Err (Classes α) :=
  buildWith minAtWrap zero sample R

/-! ### `get_centrality_class`

```
if x >= Min[0]: return 0
elif x < Min[len(Min) - 2]: return len(Min) - 1
else:
    for i in range(1, len(Min) - 1):
        if (x >= Min[i]) and (x < Min[i - 1]): return i
return -1
``` -/

def scan (mins : List (Bnd α)) (x : α) : List Nat → Except Err Int
  | [] => .ok (-1)
  | i :: is =>
    match pyIdx mins (i : Int) with
    | .error e => .error e
    | .ok a =>
      if a.leVal x then
        match pyIdx mins ((i : Int) - 1) with
        | .error e => .error e
        | .ok b => if b.gtVal x then .ok (i : Int) else scan mins x is
      else scan mins x is

def lookup (mins : List (Bnd α)) (x : α) : Except Err Int :=
  match pyIdx mins 0 with
  | .error e => .error e
  | .ok m0 =>
    if m0.leVal x then .ok 0
    else
      match pyIdx mins ((mins.length : Int) - 2) with
      | .error e => .error e
      | .ok mp =>
        if mp.gtVal x then .ok ((mins.length : Int) - 1)
        else scan mins x (List.range' 1 (mins.length - 2))

/-! ### edge cleaning in `__init__`

```
if not all(bins[i] <= bins[i+1] for i in range(len(bins)-1)): bins.sort()
unique_bins = []; seen = set()
for item in bins:
    if item not in seen: unique_bins.append(item); seen.add(item)
``` -/

def isSortedLE : List α → Bool
  | a :: b :: t => decide (a ≤ b) && isSortedLE (b :: t)
  | _ => true

def insAsc (x : α) : List α → List α
  | [] => [x]
  | y :: ys => if x ≤ y then x :: y :: ys else y :: insAsc x ys

def sortAsc (l : List α) : List α := l.foldr insAsc []

def dedupFrom [DecidableEq α] (seen : List α) : List α → List α
  | [] => []
  | x :: xs => if x ∈ seen then dedupFrom seen xs else x :: dedupFrom (x :: seen) xs

def cleanEdges [DecidableEq α] (edges : List α) : List α :=
  dedupFrom [] (if isSortedLE edges then edges else sortAsc edges)

/-- `any(value < 0.0 or value > 100.0 for value in centrality_bins)` raises `ValueError` -/
def edgesInRange (lo hi : α) (edges : List α) : Bool :=
  !(edges.any (fun v => decide (v < lo) || decide (hi < v)))

end order

/-- The whole constructor as far as C19 observes it: clean the edges, turn them into rank boundaries with
`rank` (Python: `c ↦ int(number_events * c / 100.0)`, supplied as a function), extract the boundaries. -/
def classesOf {α γ : Type} [LE α] [LT α] [DecidableLE α] [DecidableLT α]
    [LE γ] [LT γ] [DecidableLE γ] [DecidableLT γ] [DecidableEq γ]
    (rank : γ → Nat) (zero : α) (sample : List α) (edges : List γ) : Except Err (Classes α) :=
  build zero sample ((cleanEdges edges).map rank)

end SparkxVerif.Centrality

/-! ### primitives used by the generated model (`Gen/Centrality.lean`, tie T) — appended, nothing above changed -/
namespace SparkxVerif.Centrality

/-- Python `range(a, b)` as a list of `int`s (empty when `b ≤ a`) -/
def pyRange (a b : Int) : List Int := (List.range (b - a).toNat).map (fun (k : Nat) => a + (k : Int))

section order
variable {α : Type} [LE α] [LT α] [DecidableLE α] [DecidableLT α]

/-- Python `x > b` for a stored minimum `b` (`x > inf` is false for every multiplicity) -/
def Bnd.ltVal (b : Bnd α) (x : α) : Bool :=
  match b with
  | .inf => false
  | .fin m => decide (m < x)

/-- Python `x <= b` for a stored minimum `b` -/
def Bnd.geVal (b : Bnd α) (x : α) : Bool :=
  match b with
  | .inf => true
  | .fin m => decide (x ≤ m)

end order

/-- Python `int(x)` for a non-negative double below 2^64 (truncation); used by the driver only, the theorems
keep the conversion abstract -/
def floatToNat (x : Float) : Nat := x.toUInt64.toNat

end SparkxVerif.Centrality
