/-
Executable model of `MultiParticlePtCorrelations` (hand-written part; the polynomials are generated).
Mirrors: `_P_W_k` (power sums with the `nan -> 1` weight default), the per-event numerator /
denominator, `_compute_mean_pT_correlations` (ratio of event sums) and `_compute_mean_pT_cumulants`.
-/
import SparkxVerif.Core.Num
import SparkxVerif.Gen.PtCorr

namespace SparkxVerif.PtCorr

variable {α : Type} [Add α] [Sub α] [Mul α] [Neg α] [Div α] [NatCast α]

/-- a particle as the estimator sees it: weight (`none` = unset, i.e. NaN) and transverse momentum -/
abbrev Part (α : Type) := Option α × α

def weight (p : Part α) : α := p.1.getD ((1 : Nat) : α)

/-- `Pk[i] += (w * pT) ** (i+1)` over the particles of one event, accumulated left to right -/
def powerSumsL (xs : List α) (i : Nat) : α := sumL (xs.map (fun x => npow x (i + 1)))

def eventNum (k : Nat) (ev : List (Part α)) : Option α :=
  Gen.PtCorr.num k (powerSumsL (ev.map (fun p => weight p * p.2)))

def eventDen (k : Nat) (ev : List (Part α)) : Option α :=
  Gen.PtCorr.den k (powerSumsL (ev.map weight))

/-- `mean_pT_correlations(...)[k-1]` -/
def corr (k : Nat) (evs : List (List (Part α))) : Option α := do
  let ns ← evs.mapM (eventNum k)
  let ds ← evs.mapM (eventDen k)
  pure (sumL ns / sumL ds)

/-- `mean_pT_cumulants(...)[k-1]` -/
def cumulant (k : Nat) (evs : List (List (Part α))) : Option α := do
  let C ← (List.range k).mapM (fun i => corr (i + 1) evs)
  Gen.PtCorr.kappa k (fun i => C.getD i ((0 : Nat) : α))

end SparkxVerif.PtCorr
