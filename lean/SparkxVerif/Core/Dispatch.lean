/-
C05 — constructor `filters={…}` versus the filter methods: the executable model.

* the dispatch of a filter dictionary by `__apply_kwargs_filters` (three hand-copied if/elif chains) and of a
  method call by `BaseStorer` and its subclasses, both driven by the tables that the translator regenerates
  from the source on every run (`Gen/Dispatch.lean`);
* `ctorFilter` — what the loaders do with one event while reading (`__apply_kwargs_filters([data], d)[0]`),
  plugged into the shared reader model (`Rd.readOscar`, `Rd.readJetscape`) as its `EvFilter`;
* `methods` — the storer-method path: every call on the whole held list, each followed by
  `_update_num_output_per_event_after_filter`;
* the observation the property talks about: the events that still contain particles and their counts.

No Mathlib.
-/
import SparkxVerif.Core.Reader
import SparkxVerif.Gen.Dispatch

namespace SparkxVerif.Dsp
open SparkxVerif.Flt SparkxVerif.Rd SparkxVerif.Gen.Dispatch

inductive Cls | oscar | jetscape | obj
deriving DecidableEq, Repr

def ctorTable : Cls → CtorTable
  | .oscar => oscarCtor | .jetscape => jetscapeCtor | .obj => objCtor

def notImpl : Cls → List String
  | .oscar => oscarNotImpl | .jetscape => jetscapeNotImpl | .obj => objNotImpl

def overrides : Cls → List MethodEntry
  | .oscar => oscarOverrides | .jetscape => jetscapeOverrides | .obj => objOverrides

/-- method resolution: the subclass's own definition first, then `BaseStorer`'s -/
def methodTable (c : Cls) : List MethodEntry := overrides c ++ baseMethods

inductive DErr
  | flt (e : Flt.Err)     -- raised by the Filter function (TypeError / ValueError / NameError)
  | notImpl               -- NotImplementedError of an overriding method
  | attr                  -- no such method
  | key                   -- the branch consults a dictionary entry that is not there
  | model                 -- the value is of a kind the model does not cover (the driver answers `bad-op`)
deriving DecidableEq, Repr

/-- a Python value as far as the argument handling of the filters distinguishes it -/
inductive DVal (α : Type)
  | flag (b : Bool)                            -- used as a switch: only its truth value matters
  | ints (a : IArg)                            -- pdg / status argument
  | window (a : WArg α)                        -- `cut_value_tuple`
  | rap (a : RArg α)                           -- `cut_value` of the rapidity-like cuts
  | num (x : α)                                -- energy threshold
  | dim (d : Dim)                              -- `dim` of `spacetime_cut`
  | seq (isList : Bool) (d : Dim) (a : WArg α) -- `[dim, cut_value_tuple]` (list) or `(dim, cut_value_tuple)` (tuple)
  | other                                      -- int / float / None / bool where a sequence is expected
deriving Repr

section
variable {α : Type}

/-- Filter function name and the arguments after the particle list -> the call of the filter model -/
def callOf (fn : String) (args : List (DVal α)) : Option (Call α) :=
  match fn, args with
  | "charged_particles", [] => some .charged
  | "uncharged_particles", [] => some .uncharged
  | "particle_species", [.ints a] => some (.species a)
  | "remove_particle_species", [.ints a] => some (.removeSpecies a)
  | "participants", [] => some .participants
  | "spectators", [] => some .spectators
  | "lower_event_energy_cut", [.num x] => some (.energyCut x)
  | "spacetime_cut", [.dim d, .window a] => some (.spacetime d a)
  | "pT_cut", [.window a] => some (.pT a)
  | "mT_cut", [.window a] => some (.mT a)
  | "rapidity_cut", [.rap a] => some (.rapidity a)
  | "pseudorapidity_cut", [.rap a] => some (.pseudorapidity a)
  | "spacetime_rapidity_cut", [.rap a] => some (.spacetimeRapidity a)
  | "multiplicity_cut", [.window a] => some (.multiplicity a)
  | "particle_status", [.ints a] => some (.status a)
  | "keep_hadrons", [] => some .keepHadrons
  | "keep_leptons", [] => some .keepLeptons
  | "keep_quarks", [] => some .keepQuarks
  | "keep_mesons", [] => some .keepMesons
  | "keep_baryons", [] => some .keepBaryons
  | "keep_up", [] => some .keepUp
  | "keep_down", [] => some .keepDown
  | "keep_strange", [] => some .keepStrange
  | "keep_charm", [] => some .keepCharm
  | "keep_bottom", [] => some .keepBottom
  | "keep_top", [] => some .keepTop
  | "remove_photons", [] => some .removePhotons
  | _, _ => none

def callOfE (fn : String) (args : List (DVal α)) : Except DErr (Call α) :=
  match callOf fn args with
  | some c => .ok c
  | none => .error .model

abbrev Dict (α : Type) := List (String × DVal α)

/-- the constructor branch for an entry, given the value `filters_dict[valKey]` it consults:
the calls it makes (none when a switch is off) -/
def ctorBranch (e : CtorEntry) (v : DVal α) : Except DErr (List (Call α)) :=
  match e.mode with
  | .switch =>
    match v with
    | .flag true => do let c ← callOfE e.fn []; pure [c]
    | .flag false => pure []
    | _ => throw .model
  | .value => do let c ← callOfE e.fn [v]; pure [c]
  | .unpack checksList =>
    match v with
    | .seq isList d a =>
      if checksList && !isList then throw (.flt .value)      -- "requires a list of two values"
      else do let c ← callOfE e.fn [.dim d, .window a]; pure [c]
    | .other => if checksList then throw (.flt .value) else throw (.flt .type)   -- not subscriptable
    | _ => throw .model

/-- one turn of `for i in filters_dict.keys()` -/
def ctorStep (c : Cls) (dict : Dict α) (key : String) : Except DErr (List (Call α)) :=
  match (ctorTable c).entries.find? (fun e => e.key == key) with
  | none => if (ctorTable c).elseRaises.isSome then throw (.flt .value) else pure []
  | some e =>
    match dict.lookup e.valKey with
    | none => throw .key
    | some v => ctorBranch e v

/-- the whole dictionary, in insertion order: the filter calls the constructor makes on each event -/
def ctorDispatch (c : Cls) (dict : Dict α) : Except DErr (List (Call α)) := do
  let css ← (dict.map (·.1)).mapM (ctorStep c dict)
  pure css.flatten

/-- a method call `storer.<name>(*args)` -/
def methodCall (c : Cls) (name : String) (args : List (DVal α)) : Except DErr (Call α) :=
  if (notImpl c).contains name then throw .notImpl
  else
    match (methodTable c).find? (fun m => m.name == name) with
    | none => throw .attr
    | some m =>
      if args.length != m.params.length then throw (.flt .type)
      else
        match m.passed.mapM (fun p => (m.params.zip args).lookup p) with
        | none => throw (.flt .name)
        | some vs => callOfE m.fn vs

/-- "calling the same filter methods with the same arguments": how a dictionary entry is turned into a method
call — decided by the *method's* parameters only: no parameter = a switch (called iff the value is true),
one parameter = the value, two parameters = the two items of the value -/
def methodOfEntry (c : Cls) (key : String) (v : DVal α) : Except DErr (List (Call α)) :=
  match (methodTable c).find? (fun m => m.name == key) with
  | none => throw .attr
  | some m =>
    match m.params.length with
    | 0 =>
      match v with
      | .flag true => do let k ← methodCall c key []; pure [k]
      | .flag false => pure []                      -- switched off: the method is not called at all
      | _ => throw .model
    | 1 => do let k ← methodCall c key [v]; pure [k]
    | 2 =>
      match v with
      | .seq _ d a => do let k ← methodCall c key [.dim d, .window a]; pure [k]
      | .other => throw (.flt .type)                -- `v[0]` before the method is even called
      | _ => throw .model
    | _ => throw .model

def methodsOfDict (c : Cls) (dict : Dict α) : Except DErr (List (Call α)) := do
  let css ← dict.mapM (fun kv => methodOfEntry c kv.1 kv.2)
  pure css.flatten

end

/-! ### applying the calls -/

section
variable {α : Type} [LE α] [LT α] [DecidableLE α] [DecidableLT α] [Neg α] [Zero α] [Add α]
variable (ofNat : Nat → α)

def applyRd (c : Call α) (evs : Evs α) : Except Rd.Err (Evs α) :=
  match applyCall ofNat c evs with
  | .ok r => .ok r
  | .error e => .error (ofFlt e)

/-- the calls one after the other on a nested list (`event = f(event, …)` / successive methods) -/
def chain (calls : List (Call α)) (evs : Evs α) : Except Rd.Err (Evs α) :=
  calls.foldlM (fun evs c => applyRd ofNat c evs) evs

/-- the constructor filters on one event while reading: `__apply_kwargs_filters([data], d)[0]`.
`view` gives the particle built from a line (its identity is the line number); survivors are mapped back to
their lines. -/
def ctorFilter (view : PLine → Part α) (calls : List (Call α)) : EvFilter := fun data => do
  let res ← chain ofNat calls [data.map view]
  let ev := res.headD []
  pure (ev.filterMap (fun p => data.find? (fun pl => pl.lineNo == p.id)))

def rdErr : DErr → Rd.Err
  | .flt e => ofFlt e
  | .notImpl => .type | .attr => .type | .key => .index | .model => .type

/-- the same with the dictionary dispatched inside the event, key by key, exactly as the loop does it
(an exception of an earlier filter comes before the `ValueError` of a later unknown key) -/
def ctorKeyStep (c : Cls) (dict : Dict α) (evs : Evs α) (key : String) : Except Rd.Err (Evs α) :=
  match ctorStep c dict key with
  | .error e => .error (rdErr e)
  | .ok calls => chain ofNat calls evs

def ctorApplyDict (c : Cls) (dict : Dict α) (evs : Evs α) : Except Rd.Err (Evs α) :=
  if dict.isEmpty && (ctorTable c).emptyReturns then .ok evs
  else (dict.map (·.1)).foldlM (ctorKeyStep ofNat c dict) evs

def ctorFilterDict (c : Cls) (view : PLine → Part α) (dict : Dict α) : EvFilter := fun data => do
  let res ← ctorApplyDict ofNat c dict [data.map view]
  let ev := res.headD []
  pure (ev.filterMap (fun p => data.find? (fun pl => pl.lineNo == p.id)))

/-- `ParticleObjectLoader.set_particle_list` with `filters=` (no reading involved):
`[self.__apply_kwargs_filters([event], d)[0] for event in particle_list]` -/
def objCtor (calls : List (Call α)) (evs : Evs α) : Except Rd.Err (Evs α) :=
  evs.mapM (fun e => do let r ← chain ofNat calls [e]; pure (r.headD []))

/-! ### the storer-method path -/

structure Held (α : Type) where
  events : Evs α
  counts : Counts

/-- `_update_num_output_per_event_after_filter` (the counts part): a 2-D array is rebuilt as
`(index + first label, len(event))`, a 1-D pair gets the length of the first event -/
def recount (c : Counts) (evs : Evs α) : Except Rd.Err Counts :=
  match c with
  | .arr2d rows =>
    match rows with
    | [] => .error .index                                  -- `num_output_per_event_[0][0]`
    | r :: _ => .ok (.arr2d (evs.zipIdx.map (fun ei => ((ei.2 : Int) + r.1, (ei.1.length : Int)))))
  | .arr1d r =>
    match evs with
    | e :: _ => .ok (.arr1d (r.1, e.length))
    | [] => .error .index
  | .empty => .error .index                                -- `[1] = …` on an array of length 0

/-- one filter method: the Filter function on the whole held list, the recount, the `[] -> [[]]` convention -/
def methodStep (c : Call α) (h : Held α) : Except Rd.Err (Held α) := do
  let r ← applyRd ofNat c h.events
  let counts ← recount h.counts r
  pure { events := if r.isEmpty then [[]] else r, counts := counts }

def methods (calls : List (Call α)) (h : Held α) : Except Rd.Err (Held α) :=
  calls.foldlM (fun h c => methodStep ofNat c h) h

end

/-! ### what the property observes -/

/-- delete the events without particles -/
def nonempty {β : Type} (evs : List (List β)) : List (List β) := evs.filter (fun e => !e.isEmpty)

def rowsOf : Counts → List (Int × Int)
  | .arr2d rows => rows
  | .arr1d r => [r]
  | .empty => []

/-- the per-event counts of the events that still contain particles -/
def nonzeroCounts (c : Counts) : List Int := ((rowsOf c).map (·.2)).filter (fun n => n != 0)

/-- identity of the loaded particles: the file line each one came from -/
def lineIds (evs : List (List PLine)) : List (List Nat) := evs.map (·.map (·.lineNo))
def partIds {α : Type} (evs : Evs α) : List (List Nat) := evs.map (·.map (·.id))

def heldOf {α : Type} (view : PLine → Part α) (l : Loaded) : Held α :=
  { events := l.events.map (·.map view), counts := l.counts }

end SparkxVerif.Dsp
