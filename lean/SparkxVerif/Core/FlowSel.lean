/-
Vocabulary of the generated selector / default tables of the six flow estimators
(`Gen/FlowSelectors.lean`, written by `harness/translate/flowsel.py`).  No Mathlib.

* `Attr`   — what a branch of a `== "<selector>"` dispatch chain assigns (which kinematic quantity);
* `PyVal`  — a Python literal (default value of a keyword parameter);
* `Cond`   — the small fragment of Python conditions that guard a `raise` in the argument validation;
* `Param`  — a keyword parameter: its default and, for every `raise` that mentions it, the path
             condition (conjunction of `Cond`s) under which that `raise` is reached;
* `Site`   — one selector site: the list a string is validated against and the dispatch chain
             that later interprets it.
-/
namespace SparkxVerif.FlowSel

/-- right-hand side of a dispatch branch -/
inductive Attr where
  | pT                    -- `particle.pT_abs()`
  | pTpow (k : Nat)       -- `particle.pT_abs() ** k.0`
  | pTpowN                -- `particle.pT_abs() ** self.n_`
  | y                     -- `particle.rapidity()`
  | eta                   -- `particle.pseudorapidity()`
  deriving DecidableEq, Repr

inductive PyVal where
  | int (i : Int)
  | float (num : Int) (den : Nat)   -- exact value num/den of the literal
  | str (s : String)
  | bool (b : Bool)
  | none
  deriving DecidableEq, Repr

namespace PyVal

/-- `isinstance(v, T)` for the builtin type names that occur (`bool` is a subclass of `int`) -/
def isInstance (v : PyVal) (ty : String) : Bool :=
  match v with
  | .int _ => ty == "int"
  | .float _ _ => ty == "float"
  | .str _ => ty == "str"
  | .bool _ => ty == "bool" || ty == "int"
  | .none => false

/-- numeric value as a fraction (Python compares `int`, `bool` and `float` numerically) -/
def num? : PyVal → Option (Int × Nat)
  | .int i => some (i, 1)
  | .float n d => some (n, d)
  | .bool b => some (if b then 1 else 0, 1)
  | _ => Option.none

/-- Python `==` on the literals that occur -/
def pyEq (a b : PyVal) : Bool :=
  match a.num?, b.num? with
  | some (n₁, d₁), some (n₂, d₂) => n₁ * d₂ == n₂ * d₁
  | _, _ => decide (a = b)

/-- `a op b` for `op ∈ {<, <=, >, >=, ==, !=}`; `none` = Python would raise `TypeError` -/
def cmp (op : String) (a b : PyVal) : Option Bool :=
  if op == "==" then some (pyEq a b)
  else if op == "!=" then some (!pyEq a b)
  else match a.num?, b.num? with
    | some (n₁, d₁), some (n₂, d₂) =>
      let l := n₁ * d₂
      let r := n₂ * d₁
      if op == "<" then some (decide (l < r))
      else if op == "<=" then some (decide (l ≤ r))
      else if op == ">" then some (decide (l > r))
      else if op == ">=" then some (decide (l ≥ r))
      else Option.none
    | _, _ => Option.none

end PyVal

/-- a condition on one parameter `x` -/
inductive Cond where
  | isInstance (tys : List String)          -- `isinstance(x, (T₁, …))`
  | cmp (op : String) (c : PyVal)           -- `x op c`
  | isIn (l : List PyVal)                   -- `x in [ … ]`
  | isNone                                  -- `x is None`
  | not (c : Cond)
  deriving Repr

/-- value of the condition on `v`; `none` = evaluating it raises -/
def Cond.eval (v : PyVal) : Cond → Option Bool
  | .isInstance tys => some (tys.any v.isInstance)
  | .cmp op c => PyVal.cmp op v c
  | .isIn l => some (l.any (PyVal.pyEq v))
  | .isNone => some (decide (v = .none))
  | .not c => (c.eval v).map (!·)

/-- a path (conjunction, evaluated left to right with short-circuit) reaches its `raise` on `v`;
an evaluation error on the way counts as "raises" as well -/
def pathRaises (v : PyVal) : List Cond → Bool
  | [] => true
  | c :: cs =>
    match c.eval v with
    | Option.none => true
    | some true => pathRaises v cs
    | some false => false

structure Param where
  func : String               -- `__init__`, `integrated_flow`, `differential_flow`
  name : String
  default : PyVal
  raises : List (List Cond)   -- one path per `raise` whose guard mentions this parameter
  deriving Repr

/-- the default value passes the function's own validation -/
def Param.defaultOk (p : Param) : Bool := p.raises.all (fun path => !pathRaises p.default path)

structure Site where
  cls : String
  what : String                         -- "flow_as_function_of" or "weight"
  accepted : List String                -- the list in `… not in [ … ]: raise`
  chain : List (String × Attr)          -- the `== "<s>"` dispatch chain, in source order
  deriving Repr

def Site.handled (s : Site) (x : String) : Bool := (s.chain.map (·.1)).contains x

/-- documented selectors are accepted, and everything accepted is interpreted by the chain -/
def Site.ok (documented : List String) (s : Site) : Bool :=
  documented.all s.accepted.contains && s.accepted.all s.handled

/-- the documented names mean what they say -/
def Site.means (s : Site) (x : String) (a : Attr) : Bool := s.chain.lookup x == some a

end SparkxVerif.FlowSel
