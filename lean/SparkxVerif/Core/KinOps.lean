/-
C08 — operations interface of the kinematics model (no Mathlib).

The eleven kinematic methods of `Particle.py` are generated (`Gen/Kinematics.lean`) ONCE, over any
carrier `α` with the operations below.  Two instances exist:
  * `Float`  (this file)  — IEEE doubles / C libm, what the driver runs and what is compared with the
    real code;  "unset" is NaN exactly as in `Particle.data_`;
  * `XReal := Option ℝ` (`Lemmas/Kinematics.lean`) — the reals extended by one element `none` standing
    for every non-finite float (NaN, ±inf): `log x` for `x ≤ 0`, `sqrt`/`arccos` outside their
    domain and `x / 0` are `none`, every comparison with `none` is false.  The theorems are about
    the generated definitions at this instance.
-/
namespace SparkxVerif.Kin

/-- arithmetic, elementary functions, NaN and comparisons as the Python code uses them -/
class KOps (α : Type) extends Add α, Sub α, Mul α, Div α, Neg α, OfScientific α where
  /-- `abs` / `np.abs` -/
  abs : α → α
  /-- `np.sqrt` -/
  sqrt : α → α
  /-- `np.log` -/
  log : α → α
  /-- `np.arccos` -/
  acos : α → α
  /-- `math.atan2(y, x)` -/
  atan2 : α → α → α
  /-- `x ** 2.0` -/
  sq : α → α
  /-- `np.nan` — also the value of an unset attribute -/
  nan : α
  /-- `np.isnan` -/
  isnan : α → Bool
  /-- `a < b` (false when either side is NaN) -/
  lt : α → α → Bool
  /-- `a <= b` -/
  le : α → α → Bool
  /-- `a == b` -/
  eq : α → α → Bool

/-- the float-valued attributes the kinematic methods read (`Particle.data_[0..8]` without mass) -/
inductive Attr | t | x | y | z | E | px | py | pz
  deriving DecidableEq, Repr

/-- what the methods see of a particle: eight float slots (NaN = unset) and the PDG code
(`none` = unset; the getter then returns NaN, which is `in` no list of integers) -/
structure Attrs (α : Type) where
  t : α
  x : α
  y : α
  z : α
  E : α
  px : α
  py : α
  pz : α
  pdg : Option Int

def Attrs.get {α : Type} (a : Attrs α) : Attr → α
  | .t => a.t | .x => a.x | .y => a.y | .z => a.z
  | .E => a.E | .px => a.px | .py => a.py | .pz => a.pz

/-- outcome of a method call: a float (possibly NaN), a 3-vector (`np.cross`), or an exception -/
inductive Res (α : Type) where
  | val (v : α)
  | vec (a b c : α)
  | raise
  deriving Repr

/-- value of a nested scalar method call `self.m()` used inside an expression
(the translator only emits it for callees without `raise`) -/
def Res.toVal {α : Type} [KOps α] : Res α → α
  | .val v => v
  | _ => KOps.nan

/-- `self.pdg in [k₁, k₂, …]` : an unset PDG code (NaN) is in no list -/
def pdgIn (p : Option Int) (l : List Int) : Bool :=
  match p with
  | some k => l.contains k
  | none => false

/-- `np.cross([a0,a1,a2],[b0,b1,b2])` as numpy computes it (`cp0 = a1*b2; cp0 -= a2*b1`, …) -/
def cross3 {α : Type} [KOps α] (a0 a1 a2 b0 b1 b2 : α) : Res α :=
  .vec (a1 * b2 - a2 * b1) (a2 * b0 - a0 * b2) (a0 * b1 - a1 * b0)

instance : KOps Float where
  abs := Float.abs
  sqrt := Float.sqrt
  log := Float.log
  acos := Float.acos
  atan2 := Float.atan2
  sq x := Float.pow x 2.0
  nan := 0.0 / 0.0
  isnan := Float.isNaN
  lt a b := a < b
  le a b := a ≤ b
  eq a b := a == b

end SparkxVerif.Kin
