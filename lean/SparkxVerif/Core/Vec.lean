/-
numpy-style per-event vectors for generated code: a "vector" is a `List` with one entry per event, real
(`List α`) or complex (`List (Cx α)`).  Only the operations that the translated estimators use; element-wise
binary operations are `zipWith` (numpy would raise on a length mismatch; the generated code only combines
vectors that are maps over the same event list).  No Mathlib.
-/
import SparkxVerif.Core.Cx

namespace SparkxVerif.Vec
open SparkxVerif

variable {α : Type} [Add α] [Sub α] [Mul α] [Div α] [Neg α] [NatCast α]

def vadd (a b : List α) : List α := List.zipWith (· + ·) a b
def vsub (a b : List α) : List α := List.zipWith (· - ·) a b
def vmul (a b : List α) : List α := List.zipWith (· * ·) a b
def vdiv (a b : List α) : List α := List.zipWith (· / ·) a b
/-- scalar ∘ vector broadcasting -/
def sadd (s : α) (v : List α) : List α := v.map (s + ·)
def vadds (v : List α) (s : α) : List α := v.map (· + s)
def ssub (s : α) (v : List α) : List α := v.map (s - ·)
def vsubs (v : List α) (s : α) : List α := v.map (· - s)
def smul (s : α) (v : List α) : List α := v.map (s * ·)
def vmuls (v : List α) (s : α) : List α := v.map (· * s)
def vdivs (v : List α) (s : α) : List α := v.map (· / s)
def sdiv (s : α) (v : List α) : List α := v.map (s / ·)
def vneg (v : List α) : List α := v.map (- ·)
def vsquare (v : List α) : List α := v.map (fun x => x * x)
def vpow (v : List α) (k : Nat) : List α := v.map (fun x => npow x k)
/-- `np.sum`, `np.inner` on real vectors -/
def vsum (v : List α) : α := sumL v
def inner (a b : List α) : α := sumL (vmul a b)

/-! complex vectors -/
def cadd (a b : List (Cx α)) : List (Cx α) := List.zipWith (· + ·) a b
def csub (a b : List (Cx α)) : List (Cx α) := List.zipWith (· - ·) a b
def cmul (a b : List (Cx α)) : List (Cx α) := List.zipWith (· * ·) a b
def cconj (v : List (Cx α)) : List (Cx α) := v.map Cx.conj
def cre (v : List (Cx α)) : List α := v.map (·.re)
def cim (v : List (Cx α)) : List α := v.map (·.im)
def csquare (v : List (Cx α)) : List (Cx α) := v.map (fun x => x * x)
def cpowv (v : List (Cx α)) (k : Nat) : List (Cx α) := v.map (fun x => Cx.cpow x k)
/-- real vector times complex vector, element-wise -/
def rcmul (r : List α) (c : List (Cx α)) : List (Cx α) := List.zipWith (fun x z => Cx.smul x z) r c
def scmul (s : α) (c : List (Cx α)) : List (Cx α) := c.map (Cx.smul s)
def csum (v : List (Cx α)) : Cx α := Cx.sum v
/-- `np.inner(a, b)` on complex vectors: no conjugation -/
def cinner (a b : List (Cx α)) : Cx α := Cx.sum (cmul a b)
/-- `np.vdot(a, b)`: conjugates its FIRST argument -/
def cvdot (a b : List (Cx α)) : Cx α := Cx.sum (cmul (cconj a) b)

/-! additions for the differential bin function `__compute_differential_flow_bin` (C11, tie T) -/
/-- complex vector ± real vector, element-wise (numpy promotes the real operand to `x + 0j`) -/
def cradd (c : List (Cx α)) (r : List α) : List (Cx α) := List.zipWith (fun z x => z + Cx.ofReal x) c r
def crsub (c : List (Cx α)) (r : List α) : List (Cx α) := List.zipWith (fun z x => z - Cx.ofReal x) c r
/-- complex scalar divided by a real scalar -/
def cdivs (z : Cx α) (s : α) : Cx α := ⟨z.re / s, z.im / s⟩
/-- `np.divide(num, w, out=np.zeros_like(num), where=(w != 0))` for complex `num`, real `w`: entries with
`w = 0` stay 0.  `w != 0` is tested as `w < 0 ∨ 0 < w` (the same for every non-NaN float; over ℝ it is `w ≠ 0`) -/
def cdivGuard [LT α] [DecidableLT α] (num : List (Cx α)) (w : List α) : List (Cx α) :=
  List.zipWith (fun z x => if x < ((0 : Nat) : α) ∨ ((0 : Nat) : α) < x then cdivs z x else Cx.ofReal ((0 : Nat) : α)) num w
/-- `np.vdot(w, c)` with a REAL first argument (conjugation is the identity) and a complex second one -/
def rcvdot (w : List α) (c : List (Cx α)) : Cx α := Cx.sum (rcmul w c)

end SparkxVerif.Vec
