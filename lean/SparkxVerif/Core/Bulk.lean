/-
Executable model of `BulkObservables` (src/sparkx/BulkObservables.py) together with the few
`Histogram` operations it uses (self-contained: bin counting over increasing edges, one histogram
per event, unit-weight average, per-bin scaling).  No Mathlib.

Everything is written once over a type carrying the core arithmetic classes and `≤`;
the driver runs it at `Float`, the theorems (`Props/C14.lean`) instantiate it at a linearly
ordered field.  A quantity that is NaN in Python (unset attribute) is `none`.

What is mirrored, step by step:

* `Histogram.__init__`            : one row of zeros, `number_of_bins_ = len(edges) - 1`
                                    (the edges themselves — `np.linspace` for a tuple binning —
                                    are an input, see DESIGN §2.3)
* `Histogram.bin_width`           : `edges[1:] - edges[:-1]`
* `Histogram.add_value(v)`        : NaN → `ValueError`; `k = np.digitize(v, edges)` = number of
                                    edges `≤ v`; `k = 0` or `k > nbins` → ignored, else
                                    `row[k-1] += 1`
* `_differential_yield`           : fill the current row with the event's particles, then
                                    `add_histogram()` unless it was the last event; `average()`
                                    (= `np.average(rows, axis=0, weights=ones)`:
                                    `Σ_h row_h·1 / Σ_h 1`), `scale_histogram(1 / bin_width)`
* `mid_rapidity_yield`            : validation of `y_width`, `0` for no events, one counter over
                                    all events, `counter / num_events`
* `mid_rapidity_mean_pT/mT`       : per event a sum and a counter over the particles inside the
                                    window; events with an empty window are skipped; mean of the
                                    per-event means over the contributing events (`0` if none)
                                    — this is the REPAIRED code (proposed_fixes/C14-1…);
  `meanOld`                       : the loop as it was before the repair (kept for the witness
                                    theorem, not used by any gating theorem).
-/
import SparkxVerif.Core.Num

namespace SparkxVerif.Bulk

inductive Err where
  | value   -- Python ValueError
  | index   -- Python IndexError
  | zerodiv -- Python ZeroDivisionError
  deriving Repr, DecidableEq

section model
variable {α : Type} [Add α] [Sub α] [Mul α] [Div α] [Neg α] [NatCast α] [LE α] [DecidableLE α]

/-! ### Histogram operations -/

/-- `np.digitize(v, edges)` for increasing `edges` (`right=False`): the number of edges `≤ v` -/
def digitize (edges : List α) (v : α) : Nat := edges.countP (fun e => decide (e ≤ v))

/-- `number_of_bins_` -/
def nbins (edges : List α) : Nat := edges.length - 1

/-- a fresh histogram row -/
def zeros (n : Nat) : List α := List.replicate n ((0 : Nat) : α)

/-- `bin_width()`: `edges[1:] - edges[:-1]` -/
def widths (edges : List α) : List α := List.zipWith (fun lo hi => hi - lo) edges edges.tail

/-- `add_value(v)` for a number `v` (not NaN) on the current row -/
def addValue (edges : List α) (row : List α) (v : α) : List α :=
  let k := digitize edges v
  if k = 0 ∨ k > nbins edges then row else row.modify (k - 1) (fun c => c + ((1 : Nat) : α))

/-- the particle loop of one event; a NaN quantity makes `add_value` raise `ValueError` -/
def fillEvent (edges : List α) (row : List α) : List (Option α) → Except Err (List α)
  | [] => .ok row
  | none :: _ => .error .value
  | some v :: vs => fillEvent edges (addValue edges row v) vs

/-- the event loop: fill the current (last) row, `add_histogram()` unless this was the last event.
Returns all rows (`histograms_`).  With no event at all the single initial row is returned. -/
def fillRows (edges : List α) (row : List α) : List (List (Option α)) → Except Err (List (List α))
  | [] => .ok [row]
  | ev :: evs => do
      let r ← fillEvent edges row ev
      if evs.isEmpty then pure [r]
      else do
        let rest ← fillRows edges (zeros (nbins edges)) evs
        pure (r :: rest)

/-- column sums `Σ_h rows[h][i] * w_h`, accumulated row after row (`np.multiply(a, wgt).sum(axis=0)`) -/
def weightedColSum (n : Nat) (rows : List (List α)) (ws : List α) : List α :=
  (List.zipWith (fun r w => r.map (fun x => x * w)) rows ws).foldl
    (fun acc r => List.zipWith (fun a b => a + b) acc r) (zeros n)

/-- `average()`: `np.average(histograms_, axis=0, weights=np.ones(H))` -/
def average (n : Nat) (rows : List (List α)) : List α :=
  let ws : List α := rows.map (fun _ => ((1 : Nat) : α))
  (weightedColSum n rows ws).map (fun s => s / sumL ws)

/-- `scale_histogram(value)` with one factor per bin: `histograms_[-1] *= value` -/
def scale (row : List α) (factors : List α) : List α := List.zipWith (fun x f => x * f) row factors

/-- `_differential_yield(quantity, bins).histogram()[0]`; `evs` are the quantity values per event -/
def differentialYield (edges : List α) (evs : List (List (Option α))) : Except Err (List α) := do
  let inverseBinWidth := (widths edges).map (fun w => ((1 : Nat) : α) / w)
  let rows ← fillRows edges (zeros (nbins edges)) evs
  pure (scale (average (nbins edges) rows) inverseBinWidth)

/-! ### Mid-rapidity functions.  A particle is `(y, x)`: the rapidity-like quantity (`none` = NaN) and
the value that is averaged (`pT_abs()` or `mT()`). -/

/-- `-y_width / 2 <= y <= y_width / 2` (false for NaN) -/
def inWindow (w : α) : Option α → Bool
  | none => false
  | some y => decide (-w / ((2 : Nat) : α) ≤ y) && decide (y ≤ w / ((2 : Nat) : α))

/-- `mid_rapidity_yield(y_width)` -/
def midYield (w : α) (evs : List (List (Option α × α))) : Except Err α :=
  if w ≤ ((0 : Nat) : α) then .error .value
  else if evs.length = 0 then .ok ((0 : Nat) : α)
  else
    let counter : Nat := evs.foldl (fun c ev => ev.foldl (fun c p => if inWindow w p.1 then c + 1 else c) c) 0
    .ok ((counter : α) / (evs.length : α))

/-- the particle loop of `mid_rapidity_mean_pT/mT` (repaired): sum and count inside the window -/
def eventSumCount (w : α) (ev : List (Option α × α)) : α × Nat :=
  ev.foldl (fun sc p => if inWindow w p.1 then (sc.1 + p.2, sc.2 + 1) else sc) (((0 : Nat) : α), 0)

/-- `mid_rapidity_mean_pT/mT(y_width)` (repaired code) -/
def midMean (w : α) (evs : List (List (Option α × α))) : Except Err α :=
  if w ≤ ((0 : Nat) : α) then .error .value
  else if evs.length = 0 then .ok ((0 : Nat) : α)
  else
    let acc : α × Nat := evs.foldl (fun mc ev =>
      let sc := eventSumCount w ev
      if sc.2 > 0 then (mc.1 + sc.1 / (sc.2 : α), mc.2 + 1) else mc) (((0 : Nat) : α), 0)
    if acc.2 = 0 then .ok ((0 : Nat) : α) else .ok (acc.1 / (acc.2 : α))

/-- the loop of `mid_rapidity_mean_pT/mT` BEFORE the repair: the counter counts every particle of the
event, the running sum is divided in place and carried into the next event; an empty first event
is indexed (`particle_objects[0][0]`), an empty event divides by zero. -/
def meanOld (w : α) (evs : List (List (Option α × α))) : Except Err α :=
  if w ≤ ((0 : Nat) : α) then .error .value
  else match evs with
  | [] => .ok ((0 : Nat) : α)
  | [] :: _ => .error .index
  | _ =>
    (evs.foldl (fun (acc : Except Err α) ev => do
        let s ← acc
        let s' := ev.foldl (fun s p => if inWindow w p.1 then s + p.2 else s) s
        if ev.length = 0 then .error .zerodiv else pure (s' / (ev.length : α)))
      (.ok ((0 : Nat) : α))).map (fun s => s / (evs.length : α))

end model

/-! ### Executable specification (what the property says), also printed by the driver -/

section spec
variable {α : Type} [Add α] [Sub α] [Mul α] [Div α] [Neg α] [NatCast α]
  [LE α] [DecidableLE α] [LT α] [DecidableLT α]

/-- consecutive edge pairs `(edge_i, edge_{i+1})`, one per bin -/
def binsOf (edges : List α) : List (α × α) := edges.zip edges.tail

/-- number of values of one event inside `[lo, hi)` -/
def countIn (lo hi : α) (ev : List α) : Nat := ev.countP (fun v => decide (lo ≤ v) && decide (v < hi))

/-- `dN/dx` by definition: per bin, (number of particles over all events inside the bin)
/ number of events / bin width -/
def dNdxSpec (edges : List α) (evs : List (List α)) : List α :=
  (binsOf edges).map (fun b =>
    (((evs.map (countIn b.1 b.2)).sum : Nat) : α) / (evs.length : α) / (b.2 - b.1))

/-- the averaged values (`pT` or `mT`) of the particles of one event inside the window -/
def insideVals (w : α) (ev : List (Option α × α)) : List α :=
  (ev.filter (fun p => inWindow w p.1)).map (fun p => p.2)

/-- per-event mean count inside the window -/
def midYieldSpec (w : α) (evs : List (List (Option α × α))) : α :=
  (((evs.map (fun ev => (insideVals w ev).length)).sum : Nat) : α) / (evs.length : α)

/-- mean over the events that have a particle inside the window of (sum inside / number inside) -/
def midMeanSpec (w : α) (evs : List (List (Option α × α))) : α :=
  let contributing := (evs.map (insideVals w)).filter (fun vs => decide (0 < vs.length))
  sumL (contributing.map (fun vs => sumL vs / (vs.length : α))) / (contributing.length : α)

end spec

/-! ### The `Histogram` object as `BulkObservables` uses it, and the few other primitives the GENERATED
code (`Gen/Bulk.lean`, written by `harness/translate/bulk.py` from the current source) is expressed in.
A `Histogram` is its edges together with `histograms_` (the current histogram is the last row); each
method is the corresponding operation above applied to that state.  (Appended for tie T; nothing above
was changed.) -/

structure HObj (α : Type) where
  edges : List α
  rows : List (List α)

/-- apply `f` to the last element (`histograms_[-1]`) -/
def modifyLast {β : Type} (f : β → β) : List β → List β
  | [] => []
  | [x] => [f x]
  | x :: y :: r => x :: modifyLast f (y :: r)

/-- `self.particle_objects[i]` (`ReadOnlyList.__getitem__` = list indexing; `IndexError` outside) -/
def getEv {β : Type} (evs : List (List β)) (i : Nat) : Except Err (List β) :=
  match evs[i]? with
  | some e => .ok e
  | none => .error .index

section hobj
variable {α : Type} [Add α] [Sub α] [Mul α] [Div α] [Neg α] [NatCast α] [LE α] [DecidableLE α]

/-- `Histogram(bin_properties)`; `edges` = the edges the constructor derives from `bin_properties` -/
def HObj.new (edges : List α) : HObj α := ⟨edges, [zeros (nbins edges)]⟩

/-- `hist.bin_width()` -/
def HObj.binWidth (h : HObj α) : List α := widths h.edges

/-- `hist.add_value(v)`; `none` = NaN → `ValueError` -/
def HObj.addValue (h : HObj α) : Option α → Except Err (HObj α)
  | none => .error .value
  | some v => .ok { h with rows := modifyLast (fun r => Bulk.addValue h.edges r v) h.rows }

/-- `hist.add_histogram()` -/
def HObj.addHistogram (h : HObj α) : HObj α := { h with rows := h.rows ++ [zeros (nbins h.edges)] }

/-- `hist.average()` -/
def HObj.average (h : HObj α) : HObj α := { h with rows := [Bulk.average (nbins h.edges) h.rows] }

/-- `hist.scale_histogram(array)` -/
def HObj.scaleHistogram (h : HObj α) (factors : List α) : HObj α :=
  { h with rows := modifyLast (fun r => scale r factors) h.rows }

/-- numpy `scalar / array` -/
def sdivV (s : α) (v : List α) : List α := v.map (fun x => s / x)

/-- a test made of order comparisons with a quantity that may be NaN: false for NaN -/
def onNum (p : α → Bool) : Option α → Bool
  | none => false
  | some y => p y

end hobj

end SparkxVerif.Bulk
