/-
Tie T for the first-pass scanners of the readers (`OscarLoader.set_num_output_per_event_and_event_footers`,
`JetscapeLoader.set_num_output_per_event`) — what the GENERATED scanner bodies (`Gen/ReaderScan.lean`, written by
`harness/translate/readerloop.py`) are built from.  Hand-written, no Mathlib.

* `scanLoop step` : `while True: line = f.readline(); if not line: break; <step>`;
* `ScanSt` : `event_output` (rows of two cells, a cell being the token string or an `int(...)` of it, as the source stores
  them) and `event_end_lines_`;
* `pyTok` (`tokens[i]`: `IndexError`), `pyIntStr` (`int(s)`: `ValueError`);
* `npIntRows` : `np.array(event_output, dtype=np.int32[, ndmin=2])` — every cell that is still a string is converted now
  (`ValueError` for the first that is not an integer literal); 32-bit overflow is not modelled (as in the shared model);
* `readOscarPartsS` / `readJetscapePartsS` : the readers with the scanner as one more parameter.
-/
import SparkxVerif.Core.ReaderLoopG

namespace SparkxVerif.RdLoop
open SparkxVerif.Rd SparkxVerif.RdSel

/-- an entry of `event_output` as the source stores it -/
inductive Cell
  | str (s : String)
  | int (n : Int)
deriving DecidableEq, Repr

structure ScanSt where
  rows : List (Cell × Cell)
  foot : List String
deriving Repr

/-- `tokens[i]` -/
def pyTok (toks : List String) (i : Nat) : Except Err String :=
  match toks[i]? with
  | none => .error .index
  | some t => .ok t

/-- `int(s)` -/
def pyIntStr (s : String) : Except Err Int :=
  match pyInt? s with
  | none => .error .value
  | some n => .ok n

/-- the scanner skeleton: every line of the file, in order -/
def scanLoop (step : LineF → ScanSt → Except Err ScanSt) : List LineF → ScanSt → Except Err ScanSt
  | [], sc => .ok sc
  | l :: ls, sc => eBind (step l sc) (fun sc' => scanLoop step ls sc')

def npIntCell : Cell → Except Err Int
  | .int n => .ok n
  | .str s => pyIntStr s

def npIntRow (r : Cell × Cell) : Except Err (Int × Int) :=
  eBind (npIntCell r.1) (fun a => eBind (npIntCell r.2) (fun b => .ok (a, b)))

/-- `np.array(event_output, dtype=np.int32)` -/
def npIntRows : List (Cell × Cell) → Except Err (List (Int × Int))
  | [] => .ok []
  | r :: rs => eBind (npIntRow r) (fun x => eBind (npIntRows rs) (fun xs => .ok (x :: xs)))

/-- `readOscarParts` with the first-pass scanner as a parameter as well -/
def readOscarPartsS (scan : List LineF → Except Err (List (Int × Int) × List String)) (P : SelArith) (Q : OscarParts)
    (f : FileF) (sel : Sel) (filt : Option EvFilter) : Except Err Loaded := do
  P.valid sel
  let first ← match f.lines.head? with | some l => pure l | none => throw Err.type
  let (fmt, attrs) ← oscarFormat first
  if fmt == .extendedIC || fmt == .extendedPhotons then throw Err.type
  let numEvents ← Q.numEvents f
  let (rows, footers) ← scan f.lines
  let skip ← P.skip rows sel
  let nread ← P.nread rows sel
  if nread < 0 || skip < 0 then throw Err.index
  let body := f.lines.drop skip.toNat
  let (rowsSel, neSel, firstLabel) ← P.prelude rows numEvents sel
  let st ← Q.loop fmt attrs filt firstLabel nread.toNat skip.toNat true body (Q.init rowsSel)
  let (plist, ne, counts) ← Q.fin st neSel sel
  pure { events := plist, numEvents := ne, counts := counts, fmt := some fmt, customAttrs := attrs, footers := footers }

/-- `readJetscapeParts` with the first-pass scanner as a parameter as well -/
def readJetscapePartsS (scan : Bool → List LineF → Except Err (List (Int × Int))) (P : SelArith) (Q : JetscapeParts)
    (f : FileF) (sel : Sel) (partons : Bool) (filt : Option EvFilter) : Except Err Loaded := do
  jetscapeInitOk f
  P.valid sel
  let rows ← scan partons f.lines
  let numEvents : Int := rows.length
  let skip ← P.skip rows sel
  let nread ← P.nread rows sel
  if nread < 0 || skip < 0 then throw Err.index
  let firstHeader ← P.firstHeader sel
  let body := f.lines.drop skip.toNat
  let (rowsSel, neSel, firstLabel) ← P.prelude rows numEvents sel
  let st ← Q.loop filt firstLabel firstHeader nread.toNat skip.toNat true body (Q.init rowsSel)
  let (plist, ne, counts) ← Q.fin st neSel sel
  pure { events := plist, numEvents := ne, counts := counts, fmt := none, customAttrs := [], footers := [] }

end SparkxVerif.RdLoop
