/-
Line protocol shared by all per-property drivers (no Mathlib).
One case per input line, fields separated by TAB; one answer line per case.
Floats travel as 16-hex-digit IEEE-754 bit patterns, lists are `;`-separated,
free text is hex-encoded.  Anything that cannot be parsed is answered `bad-op`
(never a default value).
-/
namespace SparkxVerif.Proto

def hexDigit? (c : Char) : Option Nat :=
  if '0' ≤ c ∧ c ≤ '9' then some (c.toNat - '0'.toNat)
  else if 'a' ≤ c ∧ c ≤ 'f' then some (c.toNat - 'a'.toNat + 10)
  else if 'A' ≤ c ∧ c ≤ 'F' then some (c.toNat - 'A'.toNat + 10)
  else none

def hexNat? (s : String) : Option Nat :=
  if s.isEmpty then none else
  s.toList.foldl (fun acc c => do
    let a ← acc
    let d ← hexDigit? c
    pure (a * 16 + d)) (some 0)

def floatOfHex? (s : String) : Option Float :=
  if s.length != 16 then none else
  (hexNat? s).map (fun n => Float.ofBits n.toUInt64)

def hexOfNat (n : Nat) (width : Nat) : String :=
  let ds := (Nat.toDigits 16 n)
  String.ofList (List.replicate (width - ds.length) '0' ++ ds)

def floatToHex (f : Float) : String := hexOfNat f.toBits.toNat 16

def splitList (s : String) (sep : Char := ';') : List String :=
  if s.isEmpty then [] else s.splitOn (String.singleton sep)

def floatList? (s : String) : Option (List Float) :=
  (splitList s).mapM floatOfHex?

def natList? (s : String) : Option (List Nat) :=
  (splitList s).mapM String.toNat?

def intList? (s : String) : Option (List Int) :=
  (splitList s).mapM String.toInt?

def showFloats (xs : List Float) : String :=
  ";".intercalate (xs.map floatToHex)

def showInts (xs : List Int) : String :=
  ";".intercalate (xs.map toString)

def showNats (xs : List Nat) : String :=
  ";".intercalate (xs.map toString)

/-- decode a hex-encoded byte string (ASCII/UTF-8 bytes) -/
def unhex? (s : String) : Option String :=
  let rec go : List Char → List UInt8 → Option (List UInt8)
    | [], acc => some acc.reverse
    | [_], _ => none
    | a :: b :: rest, acc => do
        let x ← hexDigit? a
        let y ← hexDigit? b
        go rest ((x * 16 + y).toUInt8 :: acc)
  (go s.toList []).bind (fun bs => String.fromUTF8? ⟨bs.toArray⟩)

def hexOfString (s : String) : String :=
  String.join (s.toUTF8.toList.map (fun b => hexOfNat b.toNat 2))

partial def loop (h : IO.FS.Stream) (out : IO.FS.Stream) (handle : List String → String) : IO Unit := do
  let line ← h.getLine
  if line.isEmpty then return ()
  let l := if line.endsWith "\n" then (line.dropEnd 1).toString else line
  out.putStrLn (handle (l.splitOn "\t"))
  loop h out handle

def run (handle : List String → String) : IO Unit := do
  let i ← IO.getStdin
  let o ← IO.getStdout
  loop i o handle
  o.flush

end SparkxVerif.Proto
