/-
C07 — damaged input.  Executable definitions used by the theorems (`Lemmas/ReaderDamage.lean`,
`Props/C07.lean`) and by the driver (`Drv/C07.lean`).  No Mathlib.

* the constructor layer on top of the shared loaders (`Oscar.__init__` parses the impact parameters of the
  footers, `Jetscape.__init__` parses `sigmaGen`): these add errors, never results;
* the grammar of well-formed files *as observed* (layer 2 of model R: lists of `LineF`): which observations
  (`analyse`) a header / `out` / particle / `end` line (Oscar) resp. header / event-header / particle / trailer
  line (JETSCAPE) must have, as `Bool` functions so that the driver can check them on the real bytes of every
  generated file;
* a parser from `List LineF` back to the structured file (driver only: it re-groups the lines of a real file);
* the hypotheses on the observations of a *partial last line* needed by the byte-level truncation theorem
  (`prefixHyp`), again as a `Bool` function checked by the driver on every prefix of every generated file.
-/
import SparkxVerif.Core.ReaderProto

namespace SparkxVerif.Rd.Dmg
open SparkxVerif.Rd

/-! ### constructor layer -/

/-- `line.split(" ")`, `filter(None, …)`, `float(line_split[-3])` on one footer (`nl`: the line still carries
its newline character, as every line returned by `readline()` except an unterminated last one) -/
def impactTok (l : LineF) (nl : Bool) : Except Err Unit :=
  let ts := ((l.raw ++ (if nl then "\n" else "")).splitOn " ").filter (fun t => t != "")
  if ts.length < 3 then .error .index
  else if isPyFloat (ts.getD (ts.length - 3) "") then .ok () else .error .value

/-- the footers with their newline flag -/
def footersNL : List LineF → Bool → List (LineF × Bool)
  | [], _ => []
  | [l], nl => if l.hasHash && l.hasEndSp then [(l, nl)] else []
  | l :: l' :: ls, nl => (if l.hasHash && l.hasEndSp then [(l, true)] else []) ++ footersNL (l' :: ls) nl

/-- `OscarLoader.impact_parameter` : every footer is parsed, then `impact_parameters[label]` for every row -/
def impactOk (f : FileF) (L : Loaded) : Except Err Unit := do
  let fs := footersNL f.lines f.trailingNL
  fs.forM (fun p => impactTok p.1 p.2)
  match L.counts with
  | .empty => pure ()
  | .arr1d _ => throw Err.index
  | .arr2d rows =>
    if rows.isEmpty then throw Err.index      -- shape (1,0): `[:, 0]` raises
    else rows.forM (fun r =>
      let n : Int := fs.length
      let j := if r.1 < 0 then r.1 + n else r.1
      if j < 0 || j ≥ n then throw Err.index else pure ())

/-- `Oscar(path)` : `OscarLoader.load()` followed by `impact_parameter()` -/
def oscarCtor (f : FileF) : Except Err Loaded := do
  let L ← readOscar f .all none
  impactOk f L
  pure L

/-- a constructor filter that keeps everything: `filters={}` or only `False` switches such as
`{'charged_particles': False}` (`__apply_kwargs_filters` returns the event unchanged) -/
def idFilter : EvFilter := fun d => .ok d

/-- `Oscar(path, filters={})` / `Oscar(path, filters={'charged_particles': False})` -/
def oscarCtorF (f : FileF) : Except Err Loaded := do
  let L ← readOscar f .all (some idFilter)
  impactOk f L
  pure L

/-- `JetscapeLoader.get_sigmaGen` : the first two words of the stripped last line that `float()` accepts -/
def sigmaOk (f : FileF) : Except Err Unit := do
  let l ← lastLine f
  let ws := l.toksTab.filter (fun t => t != "")
  if (ws.filter isPyFloat).length < 2 then throw Err.index else pure ()

/-- `Jetscape(path, particletype=…)` -/
def jetscapeCtor (f : FileF) (partons : Bool) : Except Err Loaded := do
  let L ← readJetscape f .all partons none
  sigmaOk f
  pure L

/-- `Jetscape(path, filters={})` -/
def jetscapeCtorF (f : FileF) (partons : Bool) : Except Err Loaded := do
  let L ← readJetscape f .all partons (some idFilter)
  sigmaOk f
  pure L

/-! ### observations of the line kinds (Oscar) -/

def tokInt (ts : List String) (i : Nat) : Option Int := (ts[i]?).bind pyInt?

/-- the loop's `"event" in line and ("out" in line or "in " in line or " start" in line)` -/
def evSkip (l : LineF) : Bool := l.hasEvent && (l.hasOut || l.hasInSp || l.hasStart)

/-- `set_num_events` accepts the line -/
def lastLineOk (l : LineF) : Bool := l.toks.getD 0 "" == "#" && l.toks.contains "event"

/-- the scan of `set_num_output_per_event_and_event_footers` does not react to the line -/
def scanSilent (l : LineF) : Bool := !(l.hasHash && l.hasEndSp) && !(l.hasHash && l.hasOutSp)

/-- one of the three header lines: invisible to the scan, rejected as a last line -/
def isHdr (l : LineF) : Bool := scanSilent l && !lastLineOk l

/-- `# event e out n` -/
def isOut (l : LineF) (e n : Int) : Bool :=
  l.hasHash && !l.hasEndSp && l.hasOutSp && l.hasEvent && l.hasOut &&
  tokInt l.toks 2 == some e && tokInt l.toks 4 == some n

/-- a particle line of the format -/
def isPart (fmt : Fmt) (attrs : List String) (l : LineF) : Bool :=
  !l.hasHash && !evSkip l && colsOk fmt l.toks.length && fieldsOk (colKinds fmt attrs l.toks.length) l.toks

/-- `# event e end 0 impact b …` -/
def isEnd (l : LineF) (e : Int) : Bool :=
  l.hasHash && l.hasEndSp && l.hasEnd && !evSkip l && lastLineOk l && tokInt l.toks 2 == some e

/-- one event of an Oscar file as text lines; `announced` is the count written on the `out` line -/
structure Block where
  label : Int
  announced : Int
  out : LineF
  parts : List LineF
  endl : LineF

def Block.lines (b : Block) : List LineF := b.out :: (b.parts ++ [b.endl])

def Block.obs (fmt : Fmt) (attrs : List String) (b : Block) : Bool :=
  isOut b.out b.label b.announced && b.parts.all (isPart fmt attrs) && isEnd b.endl b.label

def blocksLines (bs : List Block) : List LineF := bs.flatMap Block.lines

/-- labels `n, n+1, …` -/
def labelsFrom : Int → List Block → Bool
  | _, [] => true
  | n, b :: bs => b.label == n && labelsFrom (n + 1) bs

structure OFile where
  h1 : LineF
  h2 : LineF
  h3 : LineF
  evs : List Block

def OFile.lines (F : OFile) : List LineF := F.h1 :: F.h2 :: F.h3 :: blocksLines F.evs

def fmtModelled (fmt : Fmt) : Bool := fmt == .oscar2013 || fmt == .extended || fmt == .ascii

/-- every line has the observations of its kind (counts on the `out` lines not yet related to the content) -/
def OFile.obs (F : OFile) (fmt : Fmt) (attrs : List String) : Bool :=
  (match oscarFormat F.h1 with | .ok (f, a) => f == fmt && a == attrs | .error _ => false) &&
  fmtModelled fmt && isHdr F.h1 && isHdr F.h2 && isHdr F.h3 &&
  F.evs.all (Block.obs fmt attrs) && labelsFrom 0 F.evs

/-- the announced counts are the numbers of particle lines -/
def consistent (bs : List Block) : Bool := bs.all (fun b => b.announced == (b.parts.length : Int))

/-- a well-formed Oscar file, as observed -/
def OFile.wf (F : OFile) (fmt : Fmt) (attrs : List String) : Bool :=
  F.obs fmt attrs && consistent F.evs && !F.evs.isEmpty

/-- particle lines as loaded, numbered from file line `n` -/
def plinesFrom : Nat → List LineF → List PLine
  | _, [] => []
  | n, l :: ls => ⟨n, l.toks⟩ :: plinesFrom (n + 1) ls

/-- the events of consecutive blocks starting at file line `n` -/
def eventsFrom : Nat → List Block → List (List PLine)
  | _, [] => []
  | n, b :: bs => plinesFrom (n + 1) b.parts :: eventsFrom (n + b.parts.length + 2) bs

def rowsOf (bs : List Block) : List (Int × Int) := bs.map (fun b => (b.label, b.announced))

/-- number of file lines up to and including the `end` line of block `m-1` -/
def OFile.endPos (F : OFile) (m : Nat) : Nat := 3 + (blocksLines (F.evs.take m)).length

/-- file line number of particle `p` of event `k` -/
def OFile.partPos (F : OFile) (k p : Nat) : Nat := F.endPos k + 1 + p

/-- what the property observes on a successful load: the first `m` events, in order, with their own lines;
`num_events = m`; one `(label, count)` row per returned event, the count being the length of its list -/
def OFile.agrees (F : OFile) (m : Nat) (L : Loaded) : Prop :=
  L.events = eventsFrom 3 (F.evs.take m) ∧ L.numEvents = m ∧
  L.counts = .arr2d ((F.evs.take m).map (fun b => (b.label, (b.parts.length : Int))))

/-- the line at 0-based position `j` is the `end` line of some event -/
def OFile.isEndPos (F : OFile) (j : Nat) : Bool :=
  (List.range F.evs.length).any (fun m => j + 1 == F.endPos (m + 1))

/-- Hypotheses of the byte-level theorem on the observations of the partial last line `P` that replaces line `j`:
 * if the scan takes `P` for an `out` line, the count it reads is not negative (a prefix of a decimal count);
 * a cut header line (2 or 3) is still rejected by `set_num_events`;
 * a cut first `out` line does not announce event `-1`;
 * a cut `end` line still contains its `#` and has not acquired `out` / `in ` / ` start`. -/
def prefixHyp (F : OFile) (j : Nat) (P : LineF) : Bool :=
  (!(P.hasHash && P.hasOutSp && !P.hasEndSp) || (match tokInt P.toks 4 with | some n => decide (0 ≤ n) | none => true)) &&
  (!decide (j < 3) || !lastLineOk P) &&
  (!decide (j = 3) || tokInt P.toks 2 != some (-1)) &&
  (!F.isEndPos j || (P.hasHash && !evSkip P))

/-! ### observations of the line kinds (JETSCAPE) -/

def jKey (partons : Bool) (l : LineF) : Bool := if partons then l.hasNPartons else l.hasNHadrons

/-- first line -/
def isJHdr (pt : Bool) (l : LineF) : Bool := !(l.hasHash && jKey pt l) && !l.hasSigma

/-- `# Event e weight … N_hadrons n` -/
def isJHead (pt : Bool) (l : LineF) (e n : Int) : Bool :=
  l.hasHash && jKey pt l && !l.hasSigma && l.hasEventCap && l.hasWeight &&
  tokInt l.toksTab 2 == some e && tokInt l.toksTab 8 == some n

def isJPart (l : LineF) : Bool :=
  !l.hasHash && !l.hasSigma && !(l.hasEventCap && l.hasWeight) && l.toksTab.length == 7 &&
  fieldsOk [false, false, false, true, true, true, true] l.toksTab

/-- `# sigmaGen … sigmaErr …` -/
def isJTrail (pt : Bool) (l : LineF) : Bool := l.hasHash && l.hasSigma && !jKey pt l

structure JBlock where
  label : Int
  announced : Int
  head : LineF
  parts : List LineF

def JBlock.lines (b : JBlock) : List LineF := b.head :: b.parts

def JBlock.obs (pt : Bool) (b : JBlock) : Bool :=
  isJHead pt b.head b.label b.announced && b.parts.all isJPart

def jblocksLines (bs : List JBlock) : List LineF := bs.flatMap JBlock.lines

def jlabelsFrom : Int → List JBlock → Bool
  | _, [] => true
  | n, b :: bs => b.label == n && jlabelsFrom (n + 1) bs

structure JFile where
  h1 : LineF
  evs : List JBlock
  trailer : LineF

def JFile.lines (F : JFile) : List LineF := F.h1 :: (jblocksLines F.evs ++ [F.trailer])

def JFile.obs (F : JFile) (pt : Bool) : Bool :=
  isJHdr pt F.h1 && F.evs.all (JBlock.obs pt) && jlabelsFrom 1 F.evs && isJTrail pt F.trailer

def jconsistent (bs : List JBlock) : Bool := bs.all (fun b => b.announced == (b.parts.length : Int))

def JFile.wf (F : JFile) (pt : Bool) : Bool := F.obs pt && jconsistent F.evs && !F.evs.isEmpty

/-- JETSCAPE particle lines as loaded (tabs count as blanks), numbered from file line `n` -/
def plinesFromTab : Nat → List LineF → List PLine
  | _, [] => []
  | n, l :: ls => ⟨n, l.toksTab⟩ :: plinesFromTab (n + 1) ls

def jeventsFrom : Nat → List JBlock → List (List PLine)
  | _, [] => []
  | n, b :: bs => plinesFromTab (n + 1) b.parts :: jeventsFrom (n + b.parts.length + 1) bs

def jrowsOf (bs : List JBlock) : List (Int × Int) := bs.map (fun b => (b.label, b.announced))

/-- file line number of the header of event `k` -/
def JFile.headPos (F : JFile) (k : Nat) : Nat := 1 + (jblocksLines (F.evs.take k)).length

def JFile.partPos (F : JFile) (k p : Nat) : Nat := F.headPos k + 1 + p

def JFile.agrees (F : JFile) (L : Loaded) : Prop :=
  L.events = jeventsFrom 1 F.evs ∧ L.numEvents = F.evs.length ∧
  L.counts = .arr2d (F.evs.map (fun b => (b.label, (b.parts.length : Int))))

/-- Hypotheses on the partial last line `P` that replaces line `j` of a JETSCAPE file:
 * a cut line other than the trailer does not contain `sigmaGen`;
 * if the scan takes `P` for an event header, the count it reads is not negative. -/
def jprefixHyp (F : JFile) (pt : Bool) (j : Nat) (P : LineF) : Bool :=
  (!decide (j + 1 < F.lines.length) || !P.hasSigma) &&
  (!(P.hasHash && jKey pt P) || (match tokInt P.toksTab 8 with | some n => decide (0 ≤ n) | none => true))

/-! ### line damage -/

/-- the line at position `i` is lost -/
def deleteLine (ls : List LineF) (i : Nat) : List LineF := ls.eraseIdx i

/-- the line at position `i` appears twice -/
def dupLine (ls : List LineF) (i : Nat) : List LineF := ls.take (i + 1) ++ ls.drop i

/-! ### re-grouping the lines of a real file (driver) -/

def takeParts : List LineF → List LineF × List LineF
  | [] => ([], [])
  | l :: ls => if l.hasHash then ([], l :: ls) else
      let (a, b) := takeParts ls
      (l :: a, b)

def parseBlocks : Nat → List LineF → Option (List Block)
  | _, [] => some []
  | 0, _ => none
  | fuel + 1, o :: ls =>
    match tokInt o.toks 2, tokInt o.toks 4 with
    | some e, some n =>
      let (ps, rest) := takeParts ls
      match rest with
      | [] => none
      | en :: rest' => (parseBlocks fuel rest').map (fun bs => ⟨e, n, o, ps, en⟩ :: bs)
    | _, _ => none

def parseOscar : List LineF → Option OFile
  | h1 :: h2 :: h3 :: body => (parseBlocks body.length body).map (fun bs => ⟨h1, h2, h3, bs⟩)
  | _ => none

def parseJBlocks : Nat → List LineF → Option (List JBlock)
  | _, [] => some []
  | 0, _ => none
  | fuel + 1, h :: ls =>
    match tokInt h.toksTab 2, tokInt h.toksTab 8 with
    | some e, some n =>
      let (ps, rest) := takeParts ls
      (parseJBlocks fuel rest).map (fun bs => ⟨e, n, h, ps⟩ :: bs)
    | _, _ => none

def parseJetscape (ls : List LineF) : Option JFile :=
  match ls with
  | h1 :: rest =>
    match rest.getLast? with
    | none => none
    | some t => (parseJBlocks rest.length rest.dropLast).map (fun bs => ⟨h1, bs, t⟩)
  | [] => none

/-! ### the grammar of well-formed files as TEXT (for the full byte-level statement; mirrors `FileSpec.lines` of
harness/rmodel.py — the driver's `render` op lets the harness compare the two renderings on every generated file) -/

/-- characters of numeric tokens -/
def numTok (t : String) : Bool :=
  !t.isEmpty && t.toList.all (fun c => c.isDigit || c == '+' || c == '-' || c == '.' || c == 'e' || c == 'E')

structure OSpec where
  kind : Fmt                           -- `.oscar2013` | `.extended` | `.ascii`
  cols : List String                   -- column names of the header line
  events : List (List (List String))   -- events → particle rows → tokens
  impacts : List String                -- one impact-parameter token per event

def extNames : List String :=
  ["t", "x", "y", "z", "mass", "p0", "px", "py", "pz", "pdg", "ID", "charge", "ncoll", "form_time", "xsecfac",
   "proc_id_origin", "proc_type_origin", "time_last_coll", "pdg_mother1", "pdg_mother2", "baryon_number", "strangeness"]

def unitsOscar2013 : String := "# Units: fm fm fm fm GeV GeV GeV GeV GeV none none e"
def unitsExtended : String :=
  "# Units: fm fm fm fm GeV GeV GeV GeV GeV none none e none fm none none none fm none none none none"

def OSpec.header (S : OSpec) : List String :=
  match S.kind with
  | .oscar2013 => ["#!OSCAR2013 particle_lists " ++ " ".intercalate S.cols, unitsOscar2013, "# SMASH-3.1"]
  | .ascii => ["#!ASCII particle_lists " ++ " ".intercalate S.cols,
               "# Units: " ++ " ".intercalate (S.cols.map (fun _ => "none")), "# SMASH-3.1"]
  -- the Extended header always names all 22 columns; `cols` (20 or 22 names) is what the particle lines carry
  | _ => ["#!OSCAR2013Extended particle_lists " ++ " ".intercalate extNames, unitsExtended, "# SMASH-3.1"]

def OSpec.eventLines (i : Nat) (ev : List (List String)) (b : String) : List String :=
  s!"# event {i} out {ev.length}" :: (ev.map (fun row => " ".intercalate row) ++
    [s!"# event {i} end 0 impact   {b} scattering_projectile_target yes"])

def OSpec.body : Nat → List (List (List String)) → List String → List String
  | i, ev :: evs, b :: bs => OSpec.eventLines i ev b ++ OSpec.body (i + 1) evs bs
  | _, _, _ => []

def OSpec.lines (S : OSpec) : List String := S.header ++ OSpec.body 0 S.events S.impacts

def OSpec.text (S : OSpec) (nl : Bool) : String := "\n".intercalate S.lines ++ (if nl then "\n" else "")

/-- the spec is one of the grammar: a modelled format with its header columns, at least one event, one impact token per
event, rows of numeric tokens that have the format's column count and convert -/
def OSpec.ok (S : OSpec) : Bool :=
  fmtModelled S.kind && !S.events.isEmpty && S.impacts.length == S.events.length && S.impacts.all numTok &&
  (match S.kind with
   | .oscar2013 => S.cols == extNames.take 12
   | .ascii => S.cols.all (fun c => extNames.contains c) && S.cols.eraseDups == S.cols && !S.cols.isEmpty
   | _ => S.cols == extNames.take 20 || S.cols == extNames) &&
  S.events.all (fun ev => ev.all (fun row =>
    row.all numTok && row.length == S.cols.length &&
    fieldsOk (colKinds S.kind (customAttrList S.cols) row.length) row))

structure JSpec where
  partons : Bool
  tabs : Bool                          -- event headers and trailer separated by tabs (else by blanks)
  events : List (List (List String))
  sigma : String
  sigmaErr : String

def JSpec.sep (S : JSpec) : String := if S.tabs then "\t" else " "

def JSpec.body : Nat → JSpec → List (List (List String)) → List String
  | _, _, [] => []
  | i, S, ev :: evs =>
    (S.sep.intercalate ["#", "Event", toString i, "weight", "1", "EPangle", "0",
        (if S.partons then "N_partons" else "N_hadrons"), toString ev.length]) ::
      (ev.map (fun row => " ".intercalate row) ++ JSpec.body (i + 1) S evs)

def JSpec.lines (S : JSpec) : List String :=
  "#\tJETSCAPE_FINAL_STATE\tv2\t|\tN\tpid\tstatus\tE\tPx\tPy\tPz" ::
    (JSpec.body 1 S S.events ++ [S.sep.intercalate ["#", "sigmaGen", S.sigma, "sigmaErr", S.sigmaErr]])

def JSpec.text (S : JSpec) (nl : Bool) : String := "\n".intercalate S.lines ++ (if nl then "\n" else "")

def JSpec.ok (S : JSpec) : Bool :=
  !S.events.isEmpty && numTok S.sigma && numTok S.sigmaErr &&
  S.events.all (fun ev => ev.all (fun row =>
    row.all numTok && row.length == 7 && fieldsOk [false, false, false, true, true, true, true] row))

/-- the first `n` bytes (all characters of the grammar are ASCII) -/
def takeBytes (t : String) (n : Nat) : String := String.ofList (t.toList.take n)

/-- byte offset at which line `j` starts -/
def lineStart (ls : List String) (j : Nat) : Nat := ((ls.take j).map (fun l => l.length + 1)).sum

end SparkxVerif.Rd.Dmg
