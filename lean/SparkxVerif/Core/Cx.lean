/-
Complex numbers as pairs over any scalar type, so that models using complex arithmetic are written
once: the driver runs them at `Cx Float`, the theorems are about the same definitions at `Cx ℝ`
(related to Mathlib's `ℂ` by `Lemmas/Cx.lean`).  No Mathlib here.
-/
import SparkxVerif.Core.Num

namespace SparkxVerif

structure Cx (α : Type) where
  re : α
  im : α
deriving Repr, Inhabited

namespace Cx
variable {α : Type} [Add α] [Sub α] [Mul α] [Neg α] [NatCast α]

def ofReal (x : α) : Cx α := ⟨x, ((0 : Nat) : α)⟩
def add (a b : Cx α) : Cx α := ⟨a.re + b.re, a.im + b.im⟩
def sub (a b : Cx α) : Cx α := ⟨a.re - b.re, a.im - b.im⟩
def mul (a b : Cx α) : Cx α := ⟨a.re * b.re - a.im * b.im, a.re * b.im + a.im * b.re⟩
def conj (a : Cx α) : Cx α := ⟨a.re, -a.im⟩
def smul (x : α) (a : Cx α) : Cx α := ⟨x * a.re, x * a.im⟩

instance : Add (Cx α) := ⟨add⟩
instance : Sub (Cx α) := ⟨sub⟩
instance : Mul (Cx α) := ⟨mul⟩
instance : NatCast (Cx α) := ⟨fun n => ofReal ((n : Nat) : α)⟩

/-- `|a|^2` as a scalar -/
def normSq (a : Cx α) : α := a.re * a.re + a.im * a.im

/-- natural power by repeated multiplication -/
def cpow (a : Cx α) : Nat → Cx α
  | 0 => ofReal ((1 : Nat) : α)
  | n + 1 => cpow a n * a

/-- left-to-right sum -/
def sum (xs : List (Cx α)) : Cx α := xs.foldl (· + ·) (ofReal ((0 : Nat) : α))

end Cx
end SparkxVerif
