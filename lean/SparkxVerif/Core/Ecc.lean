/-
Executable model of `EventCharacteristics.eccentricity` / `eccentricity_from_particles` /
`eccentricity_from_lattice` (src/sparkx/EventCharacteristics.py, lines 128-307).

The model is written ONCE, generically over a number type `α` carrying the core arithmetic classes
and over an abstract record `Ops α` of the library calls the code makes
(`np.arctan2`, `np.cos`, `np.sin`, float `**`, "is this divisor zero").
* the driver runs it at `Float` with `floatOps` (C libm: `atan2`, `cos`, `sin`, `pow`),
* the theorems (`Props/C18.lean`) are about the very same functions at `ℝ` with `realOps`
  (`Complex.arg`, `Real.cos`, `Real.sin`, `Real.rpow`).

It mirrors what the code DOES, statement by statement:
  argument checks (`harmonic_n < 1`, `harmonic_m < 1` -> ValueError), the weight-quantity `if/elif`
  chain evaluated inside the particle loop (so an unknown name only raises when there is a particle),
  the radial factor `(x**2 + y**2) ** (k / 2.0)` with `k = 3` for `n = 1`, `k = n` otherwise, `k = m`
  when `m` is given, `phi = arctan2(y, x)`, the three accumulators `real_eps`, `imag_eps`, `norm`
  updated left to right, and the final `-(real_eps / norm + (imag_eps / norm) * 1j)`.
  No centre-of-mass shift is applied by the code, and none by the model: positions are taken
  relative to the coordinate origin.
  A zero `norm` (empty list: `ZeroDivisionError`; otherwise numpy yields nan/inf) is the error
  `zerodiv`: the quotient the property talks about does not exist there.
No Mathlib here.
-/
import SparkxVerif.Core.Num

namespace SparkxVerif.Ecc

/-- the external calls of the code, as parameters -/
structure Ops (α : Type) where
  /-- `np.arctan2(y, x)` -/
  atan2 : α → α → α
  /-- `np.cos` -/
  cos : α → α
  /-- `np.sin` -/
  sin : α → α
  /-- float power `a ** b` -/
  pow : α → α → α
  /-- `true` iff dividing by this number is undefined (it is zero) -/
  isZero : α → Bool

/-- the executable instance: IEEE doubles and the C library -/
def floatOps : Ops Float := ⟨Float.atan2, Float.cos, Float.sin, Float.pow, fun x => x == 0⟩

inductive Err where
  | value    -- ValueError
  | zerodiv  -- ZeroDivisionError / non-finite quotient (norm = 0)
  deriving DecidableEq, Repr

/-- the weight quantities the `if/elif` chain knows -/
inductive WQ where
  | energy | number | charge | baryon | strangeness
  deriving DecidableEq, Repr

/-- the string comparison chain `weight_quantity == "energy"` … ; `none` = the final `else` (ValueError) -/
def WQ.parse (s : String) : Option WQ :=
  if s == "energy" then some .energy
  else if s == "number" then some .number
  else if s == "charge" then some .charge
  else if s == "baryon" then some .baryon
  else if s == "strangeness" then some .strangeness
  else none

/-- what the loop reads from a particle: the values returned by the getters
`E`, `charge`, `baryon_number`, `strangeness`, `x`, `y` -/
structure Part (α : Type) where
  E : α
  charge : α
  baryon : α
  strangeness : α
  x : α
  y : α

variable {α : Type} [Add α] [Mul α] [Div α] [Neg α] [NatCast α]

/-- `weight = particle.E | 1.0 | particle.charge | particle.baryon_number | particle.strangeness` -/
def weight (q : WQ) (p : Part α) : α :=
  match q with
  | .energy => p.E
  | .number => ((1 : Nat) : α)
  | .charge => p.charge
  | .baryon => p.baryon
  | .strangeness => p.strangeness

/-- the three running sums `real_eps`, `imag_eps`, `norm` -/
structure Acc (α : Type) where
  re : α
  im : α
  norm : α

def Acc.zero : Acc α := ⟨((0 : Nat) : α), ((0 : Nat) : α), ((0 : Nat) : α)⟩

/-- one pass of the loop body for a point `(weight, x, y)`; `n` = harmonic, `k` = radial power -/
def step (ops : Ops α) (n k : Nat) (a : Acc α) (p : α × α × α) : Acc α :=
  let w := p.1
  let x := p.2.1
  let y := p.2.2
  let rn := ops.pow (x * x + y * y) ((k : α) / ((2 : Nat) : α))
  let phi := ops.atan2 y x
  { re := a.re + rn * ops.cos ((n : α) * phi) * w
    im := a.im + rn * ops.sin ((n : α) * phi) * w
    norm := a.norm + rn * w }

/-- `-(real_eps / norm + (imag_eps / norm) * 1j)` as the pair (real part, imaginary part) -/
def finish (ops : Ops α) (a : Acc α) : Except Err (α × α) :=
  if ops.isZero a.norm then .error .zerodiv
  else .ok (-(a.re / a.norm), -(a.im / a.norm))

/-- loop + final quotient over weighted points `(w, x, y)` -/
def eccCore (ops : Ops α) (n k : Nat) (pts : List (α × α × α)) : Except Err (α × α) :=
  finish ops (pts.foldl (step ops n k) Acc.zero)

/-- the radial power actually used: `3` for `n = 1`, `n` otherwise, `m` when given -/
def radialPower (n : Nat) : Option Nat → Nat
  | none => if n = 1 then 3 else n
  | some m => m

/-- the two argument checks at the top of both functions; returns (harmonic, radial power) -/
def validate (n : Int) (m : Option Int) : Except Err (Nat × Nat) :=
  if n < 1 then .error .value
  else match m with
    | some m' => if m' < 1 then .error .value else .ok (n.toNat, radialPower n.toNat (some m'.toNat))
    | none => .ok (n.toNat, radialPower n.toNat none)

/-- the point `(weight, x, y)` the loop uses for a particle -/
def point (q : WQ) (p : Part α) : α × α × α := (weight q p, p.x, p.y)

/-- `EventCharacteristics(particles).eccentricity(n, m, weight_quantity)`
(= `eccentricity_from_particles`; `wq = none` is an unknown weight name) -/
def eccParticles (ops : Ops α) (n : Int) (m : Option Int) (wq : Option WQ) (ps : List (Part α)) :
    Except Err (α × α) :=
  match validate n m with
  | .error e => .error e
  | .ok (n', k) =>
    match wq with
    | none => if ps.isEmpty then .error .zerodiv else .error .value
    | some q => eccCore ops n' k (ps.map (point q))

/-- a lattice as the code sees it: node coordinates per axis and `grid_[i][j][k]` -/
structure Lattice (α : Type) where
  xs : List α
  ys : List α
  nz : Nat
  grid : List (List (List α))

/-- `grid_.shape == (len(x_values_), len(y_values_), num_points_z)` (otherwise `get_coordinates`
raises ValueError / the lookup returns `None`) -/
def Lattice.wf (L : Lattice α) : Bool :=
  L.grid.length == L.xs.length &&
  L.grid.all (fun plane => plane.length == L.ys.length && plane.all (fun row => row.length == L.nz))

def Lattice.density (L : Lattice α) (i j k : Nat) : α :=
  ((L.grid.getD i []).getD j []).getD k ((0 : Nat) : α)

/-- `for i, j, k in np.ndindex(grid_.shape)`: `(get_value_by_index(i,j,k), x_i, y_j)` in C order;
every `z` layer contributes -/
def Lattice.nodes (L : Lattice α) : List (α × α × α) :=
  (List.range L.xs.length).flatMap fun i =>
    (List.range L.ys.length).flatMap fun j =>
      (List.range L.nz).map fun k =>
        (L.density i j k, L.xs.getD i ((0 : Nat) : α), L.ys.getD j ((0 : Nat) : α))

/-- `EventCharacteristics(lattice).eccentricity(n, m)` (= `eccentricity_from_lattice`) -/
def eccLattice (ops : Ops α) (n : Int) (m : Option Int) (L : Lattice α) : Except Err (α × α) :=
  match validate n m with
  | .error e => .error e
  | .ok (n', k) => if L.wf then eccCore ops n' k L.nodes else .error .value

end SparkxVerif.Ecc
