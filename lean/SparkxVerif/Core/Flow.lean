/-
Executable model of the reaction-plane, scalar-product and event-plane flow estimators
(`src/sparkx/flow/{ReactionPlaneFlow,ScalarProductFlow,EventPlaneFlow}.py`).  No Mathlib.

Written once over a scalar type `α` and a "complex" type `κ` that carry the core arithmetic
classes, plus a record `Ops α κ` of the remaining primitives.  The driver runs the functions at
`α := Float`, `κ := CF` (pairs of floats); the theorems are about the very same definitions at
`α := ℝ`, `κ := ℂ`.

What a particle is to these estimators: the unit vector `u = exp(i n φ)` (taken as the *input*:
a rotation of the event by `a` is multiplication of every `u` by `exp(i n a)`, and `2π` wraps of `φ`
are invisible — the harness ties `φ ↦ u` on the real particles), `pT`, rapidity, pseudorapidity and
the optional particle weight (`nan` = unset, read as `1`).

External numerics enter only through `Ops`: `sqrt`, `abs`, and the event-plane resolution
correction `res` (scipy `brentq` + Bessel functions) are opaque functions.

`cos(n (φ_j − Ψ))` with `Ψ = arctan2(Im Q, Re Q)/n` is rendered as `Re(conj u_j · dir Q)` where
`dir Q = Q/|Q|`, and `dir 0 = 1` (`arctan2(0, 0) = 0`); likewise `cos(n (Ψ_A − Ψ_B))`.
-/
import SparkxVerif.Core.Num
import SparkxVerif.Core.FlowSel

namespace SparkxVerif.Flow
open SparkxVerif.FlowSel

/-- primitives that are not ring operations -/
structure Ops (α κ : Type) where
  ofReal : α → κ
  re : κ → α
  conj : κ → κ
  /-- `|z|` -/
  cabs : κ → α
  /-- `z == 0` -/
  czero : κ → Bool
  sqrt : α → α
  abs : α → α
  /-- event-plane resolution correction `R(√2 · χ(Rn))` (opaque) -/
  res : α → α
  /-- `x == 0.0` -/
  isZero : α → Bool
  /-- `a <= b` -/
  le : α → α → Bool
  /-- `a < b` -/
  lt : α → α → Bool

structure Part (α κ : Type) where
  u : κ
  pt : α
  y : α
  eta : α
  w : Option α

/-- one event: the particles whose flow is computed and the particles that define the reference
(`particle_data[e]`, `particle_data_event_plane[e]`) -/
structure Ev (α κ : Type) where
  flow : List (Part α κ)
  ref : List (Part α κ)

variable {α κ : Type} [Add α] [Sub α] [Mul α] [Div α] [Neg α] [NatCast α]
  [Add κ] [Sub κ] [Mul κ] [Div κ]

/-- `1.0 if np.isnan(p.weight) else p.weight` -/
def Part.pw (p : Part α κ) : α := p.w.getD ((1 : Nat) : α)

/-- the quantity a dispatch branch assigns -/
def attrVal (n : Nat) (a : Attr) (p : Part α κ) : α :=
  match a with
  | .pT => p.pt
  | .pTpow k => npow p.pt k
  | .pTpowN => npow p.pt n
  | .y => p.y
  | .eta => p.eta

/-- `x = 0.0; if s == k₁: x = … elif s == k₂: x = …` -/
def chainVal (chain : List (String × Attr)) (n : Nat) (s : String) (p : Part α κ) : α :=
  match chain.lookup s with
  | some a => attrVal n a p
  | none => ((0 : Nat) : α)

/-- `val >= bins[b] and val < bins[b+1]` -/
def inBin (O : Ops α κ) (val : Part α κ → α) (lo hi : α) (p : Part α κ) : Bool :=
  O.le lo (val p) && O.lt (val p) hi

/-- consecutive pairs of bin edges -/
def binPairs (edges : List α) : List (α × α) := edges.zip edges.tail

/-- `Σ_j w_j u_j`, accumulated left to right from `0.0 + 0.0j` -/
def qSum (O : Ops α κ) (wq : Part α κ → α) (ev : List (Part α κ)) : κ :=
  ev.foldl (fun acc p => acc + O.ofReal (wq p) * p.u) (O.ofReal ((0 : Nat) : α))

/-! ### Reaction plane -/

/-- one pass of the event loop of `ReactionPlaneFlow.integrated_flow`:
state = (`flow_event_average`, `number_particles`) -/
def rpStep (O : Ops α κ) (st : κ × α) (ev : List (Part α κ)) : κ × α :=
  let fe := qSum O Part.pw ev
  let np := ev.foldl (fun acc p => acc + p.pw) st.2
  if O.isZero np then (O.ofReal ((0 : Nat) : α), np) else (st.1 + fe, np)

/-- `ReactionPlaneFlow.integrated_flow`; `none` = division by a zero particle count
(`ZeroDivisionError` / `nan`) -/
def rpIntegrated (O : Ops α κ) (evs : List (List (Part α κ))) : Option κ :=
  let st := evs.foldl (rpStep O) (O.ofReal ((0 : Nat) : α), ((0 : Nat) : α))
  if O.isZero st.2 then none else some (st.1 / O.ofReal st.2)

/-- one bin of `__differential_flow_calculation` -/
def rpBin (O : Ops α κ) (evs : List (List (Part α κ))) : κ :=
  let st := evs.foldl (fun (st : κ × α) ev =>
      (st.1 + qSum O Part.pw ev, ev.foldl (fun acc p => acc + p.pw) st.2))
    (O.ofReal ((0 : Nat) : α), ((0 : Nat) : α))
  if O.isZero st.2 then O.ofReal ((0 : Nat) : α) else st.1 / O.ofReal st.2

/-- `ReactionPlaneFlow.differential_flow`; `none` = selector rejected (`ValueError`) -/
def rpDifferential (O : Ops α κ) (site : Site) (sel : String) (edges : List α)
    (evs : List (List (Part α κ))) : Option (List κ) :=
  if !site.accepted.contains sel then none else
  some ((binPairs edges).map fun b =>
    rpBin O (evs.map fun ev => ev.filter (inBin O (chainVal site.chain 0 sel) b.1 b.2)))

/-! ### Event averaging shared by the scalar-product and event-plane estimators -/

/-- `__calculate_flow_event_average` on the (flow value, particle weight) pairs in loop order:
returns (`vn_integrated`, `sigma`) -/
def eventAverage (O : Ops α κ) (xs : List (α × α)) : α × α :=
  let N := sumL (xs.map (·.2))
  let F := sumL (xs.map fun x => x.1 * x.2)
  let F2 := sumL (xs.map fun x => npow x.1 2 * npow x.2 2)
  if O.isZero N then (((0 : Nat) : α), ((0 : Nat) : α)) else
    let vn := F / N
    let vn2 := F2 / npow N 2
    (vn, O.sqrt (npow vn 2 - vn2) / O.sqrt N)

/-- sub-event A: `eta >= +gap` -/
def inA (O : Ops α κ) (gap : α) (p : Part α κ) : Bool := O.le gap p.eta
/-- sub-event B: `eta < -gap` -/
def inB (O : Ops α κ) (gap : α) (p : Part α κ) : Bool := O.lt p.eta (-gap)

/-- `Q_vector_particle`: the reference vector, minus the particle's own term when `self_corr` -/
def qMinusSelf (O : Ops α κ) (wq : Part α κ → α) (selfCorr : Bool) (Q : κ) (p : Part α κ) : κ :=
  if selfCorr then Q - O.ofReal (O.abs (wq p)) * p.u else Q

/-- restrict the flow sample of every event to one bin (the reference sample is untouched) -/
def restrict (O : Ops α κ) (val : Part α κ → α) (b : α × α) (evs : List (Ev α κ)) : List (Ev α κ) :=
  evs.map fun e => { e with flow := e.flow.filter (inBin O val b.1 b.2) }

/-! ### Scalar product -/

/-- `(conj(Q_A) · Q_B).real` of one reference event -/
def spResTerm (O : Ops α κ) (wq : Part α κ → α) (gap : α) (ref : List (Part α κ)) : α :=
  O.re (O.conj (qSum O wq (ref.filter (inA O gap))) * qSum O wq (ref.filter (inB O gap)))

/-- `2 sqrt(mean_e Re(conj Q_A Q_B))` -/
def spResolution (O : Ops α κ) (wq : Part α κ → α) (gap : α) (evs : List (Ev α κ)) : α :=
  ((2 : Nat) : α) * O.sqrt (sumL (evs.map fun e => spResTerm O wq gap e.ref) / ((evs.length : Nat) : α))

/-- per-particle `(u_j^* · (Q − [self] |w_j| u_j)).real / R`, paired with the particle weight -/
def spFlows (O : Ops α κ) (wq : Part α κ → α) (selfCorr : Bool) (R : α) (e : Ev α κ) : List (α × α) :=
  let Q := qSum O wq e.ref
  e.flow.map fun p => (O.re (O.conj p.u * qMinusSelf O wq selfCorr Q p) / R, p.pw)

/-- the averaging part, for a resolution that has already been computed -/
def spWith (O : Ops α κ) (wq : Part α κ → α) (selfCorr : Bool) (R : α) (evs : List (Ev α κ)) : α × α :=
  eventAverage O (evs.flatMap (spFlows O wq selfCorr R))

/-- `ScalarProductFlow.integrated_flow` → (`vn`, `sigma`) -/
def spIntegrated (O : Ops α κ) (wq : Part α κ → α) (gap : α) (selfCorr : Bool) (evs : List (Ev α κ)) : α × α :=
  spWith O wq selfCorr (spResolution O wq gap evs) evs

/-- `ScalarProductFlow.differential_flow` (reference computed once from the unbinned reference sample) -/
def spDifferential (O : Ops α κ) (wq : Part α κ → α) (gap : α) (selfCorr : Bool) (site : Site)
    (sel : String) (edges : List α) (evs : List (Ev α κ)) : Option (List (α × α)) :=
  if !site.accepted.contains sel then none else
  let R := spResolution O wq gap evs
  some ((binPairs edges).map fun b => spWith O wq selfCorr R (restrict O (chainVal site.chain 0 sel) b evs))

/-! ### Event plane -/

/-- direction of a vector; `arctan2(0, 0) = 0` makes the direction of `0` equal to `1` -/
def dir (O : Ops α κ) (z : κ) : κ :=
  if O.czero z then O.ofReal ((1 : Nat) : α) else z / O.ofReal (O.cabs z)

/-- sub-event vector normalised by `sqrt(Σ w²)` (`0.0` when the weights vanish) -/
def epSubQ (O : Ops α κ) (wq : Part α κ → α) (sub : List (Part α κ)) : κ :=
  let s := sumL (sub.map fun p => npow (wq p) 2)
  if O.isZero s then O.ofReal ((0 : Nat) : α) else qSum O wq sub / O.ofReal (O.sqrt s)

/-- `cos(n (Ψ_A − Ψ_B))` of one reference event -/
def epResTerm (O : Ops α κ) (wq : Part α κ → α) (gap : α) (ref : List (Part α κ)) : α :=
  O.re (O.conj (dir O (epSubQ O wq (ref.filter (inA O gap)))) * dir O (epSubQ O wq (ref.filter (inB O gap))))

/-- `Rn = sqrt(Σ_e cos(n(Ψ_A − Ψ_B)) / N_events)` -/
def epRn (O : Ops α κ) (wq : Part α κ → α) (gap : α) (evs : List (Ev α κ)) : α :=
  O.sqrt (sumL (evs.map fun e => epResTerm O wq gap e.ref) / ((evs.length : Nat) : α))

/-- the resolution the flow values are divided by -/
def epResolution (O : Ops α κ) (wq : Part α κ → α) (gap : α) (evs : List (Ev α κ)) : α :=
  O.res (epRn O wq gap evs)

/-- per-particle `cos(n (φ_j − Ψ_n)) / R` with `Ψ_n` from `Q − [self] |w_j| u_j` -/
def epFlows (O : Ops α κ) (wq : Part α κ → α) (selfCorr : Bool) (R : α) (e : Ev α κ) : List (α × α) :=
  let Q := qSum O wq e.ref
  e.flow.map fun p => (O.re (O.conj p.u * dir O (qMinusSelf O wq selfCorr Q p)) / R, p.pw)

def epWith (O : Ops α κ) (wq : Part α κ → α) (selfCorr : Bool) (R : α) (evs : List (Ev α κ)) : α × α :=
  eventAverage O (evs.flatMap (epFlows O wq selfCorr R))

/-- `EventPlaneFlow.integrated_flow` → first two components (`vn`, `sigma`) -/
def epIntegrated (O : Ops α κ) (wq : Part α κ → α) (gap : α) (selfCorr : Bool) (evs : List (Ev α κ)) : α × α :=
  epWith O wq selfCorr (epResolution O wq gap evs) evs

/-- `EventPlaneFlow.differential_flow` → first two components per bin -/
def epDifferential (O : Ops α κ) (wq : Part α κ → α) (gap : α) (selfCorr : Bool) (site : Site)
    (sel : String) (edges : List α) (evs : List (Ev α κ)) : Option (List (α × α)) :=
  if !site.accepted.contains sel then none else
  let R := epResolution O wq gap evs
  some ((binPairs edges).map fun b => epWith O wq selfCorr R (restrict O (chainVal site.chain 0 sel) b evs))

/-! ### Rotation of an event (used by the theorems and by the driver's self-check op) -/

def Part.rot (c : κ) (p : Part α κ) : Part α κ := { p with u := c * p.u }
def Ev.rot (c : κ) (e : Ev α κ) : Ev α κ := { flow := e.flow.map (Part.rot c), ref := e.ref.map (Part.rot c) }

/-! ### Float instance -/

/-- complex double as a pair -/
structure CF where
  re : Float
  im : Float

instance : Add CF := ⟨fun a b => ⟨a.re + b.re, a.im + b.im⟩⟩
instance : Sub CF := ⟨fun a b => ⟨a.re - b.re, a.im - b.im⟩⟩
instance : Mul CF := ⟨fun a b => ⟨a.re * b.re - a.im * b.im, a.re * b.im + a.im * b.re⟩⟩
instance : Div CF := ⟨fun a b =>
  if b.im == 0 then ⟨a.re / b.re, a.im / b.re⟩ else
  let d := b.re * b.re + b.im * b.im
  ⟨(a.re * b.re + a.im * b.im) / d, (a.im * b.re - a.re * b.im) / d⟩⟩

/-- the executable primitives; `res` is supplied per case by the harness (scipy) -/
def floatOps (res : Float → Float) : Ops Float CF where
  ofReal x := ⟨x, 0⟩
  re z := z.re
  conj z := ⟨z.re, -z.im⟩
  cabs z := Float.sqrt (z.re * z.re + z.im * z.im)
  czero z := z.re == 0 && z.im == 0
  sqrt := Float.sqrt
  abs := Float.abs
  res := res
  isZero x := x == 0
  le a b := decide (a ≤ b)
  lt a b := decide (a < b)

end SparkxVerif.Flow
