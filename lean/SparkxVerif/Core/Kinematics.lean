/-
C08 — executable model of the kinematic methods of `Particle` (hand-written part).
The method bodies are generated from the source (`Gen/Kinematics.lean`); here they are collected
under one enumeration so that statements can quantify over "every method".
-/
import SparkxVerif.Core.KinOps
import SparkxVerif.Gen.Kinematics

namespace SparkxVerif.Kin

inductive Method
  | angular_momentum | rapidity | p_abs | pT_abs | phi | theta | pseudorapidity
  | spacetime_rapidity | proper_time | mass_from_energy_momentum | mT
  deriving DecidableEq, Repr

def Method.all : List Method :=
  [.angular_momentum, .rapidity, .p_abs, .pT_abs, .phi, .theta, .pseudorapidity,
   .spacetime_rapidity, .proper_time, .mass_from_energy_momentum, .mT]

/-- call method `m` on a particle -/
def run {α : Type} [KOps α] : Method → Attrs α → Res α
  | .angular_momentum => Gen.Kin.angular_momentum
  | .rapidity => Gen.Kin.rapidity
  | .p_abs => Gen.Kin.p_abs
  | .pT_abs => Gen.Kin.pT_abs
  | .phi => Gen.Kin.phi
  | .theta => Gen.Kin.theta
  | .pseudorapidity => Gen.Kin.pseudorapidity
  | .spacetime_rapidity => Gen.Kin.spacetime_rapidity
  | .proper_time => Gen.Kin.proper_time
  | .mass_from_energy_momentum => Gen.Kin.mass_from_energy_momentum
  | .mT => Gen.Kin.mT

/-- attributes tested by the method's leading NaN guard (extracted from the source) -/
def guarded : Method → List Attr
  | .angular_momentum => Gen.Kin.guard_angular_momentum
  | .rapidity => Gen.Kin.guard_rapidity
  | .p_abs => Gen.Kin.guard_p_abs
  | .pT_abs => Gen.Kin.guard_pT_abs
  | .phi => Gen.Kin.guard_phi
  | .theta => Gen.Kin.guard_theta
  | .pseudorapidity => Gen.Kin.guard_pseudorapidity
  | .spacetime_rapidity => Gen.Kin.guard_spacetime_rapidity
  | .proper_time => Gen.Kin.guard_proper_time
  | .mass_from_energy_momentum => Gen.Kin.guard_mass_from_energy_momentum
  | .mT => Gen.Kin.guard_mT

/-- float attributes the method's body reads (directly or through `self.p_abs()`), extracted -/
def used : Method → List Attr
  | .angular_momentum => Gen.Kin.used_angular_momentum
  | .rapidity => Gen.Kin.used_rapidity
  | .p_abs => Gen.Kin.used_p_abs
  | .pT_abs => Gen.Kin.used_pT_abs
  | .phi => Gen.Kin.used_phi
  | .theta => Gen.Kin.used_theta
  | .pseudorapidity => Gen.Kin.used_pseudorapidity
  | .spacetime_rapidity => Gen.Kin.used_spacetime_rapidity
  | .proper_time => Gen.Kin.used_proper_time
  | .mass_from_energy_momentum => Gen.Kin.used_mass_from_energy_momentum
  | .mT => Gen.Kin.used_mT

/-- the inputs each quantity needs BY ITS DEFINITION in the property statement (hand-written,
independent of the source): pT, phi ← px,py; p, theta, eta ← px,py,pz; y, mT ← E,pz;
m ← E,px,py,pz; tau, eta_s ← t,z; L ← x,y,z,px,py,pz -/
def required : Method → List Attr
  | .angular_momentum => [.x, .y, .z, .px, .py, .pz]
  | .rapidity => [.E, .pz]
  | .p_abs => [.px, .py, .pz]
  | .pT_abs => [.px, .py]
  | .phi => [.px, .py]
  | .theta => [.px, .py, .pz]
  | .pseudorapidity => [.px, .py, .pz]
  | .spacetime_rapidity => [.t, .z]
  | .proper_time => [.t, .z]
  | .mass_from_energy_momentum => [.E, .px, .py, .pz]
  | .mT => [.E, .pz]

/-- exception classes the method may raise (extracted) -/
def raisesOf : Method → List String
  | .spacetime_rapidity => Gen.Kin.raises_spacetime_rapidity
  | .proper_time => Gen.Kin.raises_proper_time
  | .angular_momentum => Gen.Kin.raises_angular_momentum
  | .rapidity => Gen.Kin.raises_rapidity
  | .p_abs => Gen.Kin.raises_p_abs
  | .pT_abs => Gen.Kin.raises_pT_abs
  | .phi => Gen.Kin.raises_phi
  | .theta => Gen.Kin.raises_theta
  | .pseudorapidity => Gen.Kin.raises_pseudorapidity
  | .mass_from_energy_momentum => Gen.Kin.raises_mass_from_energy_momentum
  | .mT => Gen.Kin.raises_mT

end SparkxVerif.Kin
