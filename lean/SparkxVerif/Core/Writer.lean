/-
Model W — the text writers `Oscar.print_particle_lists_to_file`, `Jetscape.print_particle_lists_to_file`, the
constructors `Oscar.__init__` / `Jetscape.__init__` (what they keep of a loaded file) and the bookkeeping of the
filter methods as far as writing depends on it (`BaseStorer._update_num_output_per_event_after_filter`,
`Oscar.multiplicity_cut` / `lower_event_energy_cut`).

* A held particle is an opaque row `R`; `vals : R → List V` are the numbers `_particle_as_list` returns.
  `V` is opaque as well: Python's `float(tok)` / `int(tok)` and `'%g' % v` are the two parameters of `Codec`.
* The literal tables (format strings, `format_map`, column orders, event-number rule, end-line rule, header
  pieces) come from `Gen/WriterTables.lean`, regenerated from the source on every run; the functions below branch on
  them, so they mirror the unrepaired and the repaired writer alike.
* A written file is its list of lines (without newlines); `finalNL` says whether the text ends with a newline.
No Mathlib.
-/
import SparkxVerif.Core.Reader
import SparkxVerif.Gen.WriterTables

namespace SparkxVerif.Wr
open SparkxVerif.Rd SparkxVerif.Gen.WriterTables

inductive WErr | key | value | index | type | read (e : Rd.Err)
deriving DecidableEq, Repr

/-- `float(tok)` / `int(tok)` and `'%g' % v`, `'%.9g' % v`, `'%d' % v` -/
structure Codec (V : Type) where
  parse : Cast → String → V
  fmt : Spec → V → String

/-- what a written line is meant to be (ghost tag: the theorems and the driver's check of the observations use it) -/
inductive Kind
  | hdr                              -- one of the three copied header lines
  | out (e n : Int)                  -- `# event e out n`
  | endl (e : Int)                   -- `# event e end …`
  | part (cells : List String)       -- a particle line
  | jhdr                             -- first line of a JETSCAPE file
  | jevt (e n : Int)                 -- `# Event e weight … N_hadrons n`
  | jpart (cells : List String)
  | jtrail                           -- `# sigmaGen …`
deriving DecidableEq, Repr

structure TLine where
  kind : Kind
  text : String
deriving Repr

/-! ### what every storer holds -/

structure Store (R : Type) where
  events : List (List R)      -- particle_list_
  numEvents : Int             -- num_events_
  counts : Counts             -- num_output_per_event_

variable {R V : Type}

/-- `range(0, n)` positions of a list (`IndexError` when the list is shorter) -/
def takeRows (ev : List R) (n : Int) : Except WErr (List R) :=
  if n ≤ 0 then .ok [] else if n.toNat ≤ ev.length then .ok (ev.take n.toNat) else .error .index

/-- lock-step walk of `for i_ev in range(num_events): for i_part in range(num_particles[i_ev]): particle_list_[i_ev][i_part]` -/
def nestedRows : Nat → List (Int × Int) → List (List R) → Except WErr (List (List R))
  | 0, _, _ => .ok []
  | _ + 1, [], _ => .error .index
  | k + 1, r :: rows, [] => do
      if r.2 > 0 then throw WErr.index
      let rest ← nestedRows k rows []
      pure ([] :: rest)
  | k + 1, r :: rows, ev :: evs => do
      let e ← takeRows ev r.2
      let rest ← nestedRows k rows evs
      pure (e :: rest)

inductive PList (R : Type)
  | flat (rows : List R)              -- one event: `[[…], […]]`
  | nested (evs : List (List R))      -- `[event][line]`

/-- `BaseStorer.particle_list` (which rows are visited; `_particle_as_list` is applied by the writer) -/
def particleList (s : Store R) : Except WErr (PList R) :=
  if s.numEvents == 1 then
    match s.counts with
    | .arr2d (r :: _) =>
      match s.events with
      | ev :: _ => (takeRows ev r.2).map .flat
      | [] => if r.2 ≤ 0 then .ok (.flat []) else .error .index
    | _ => .error .index
  else if s.numEvents == 0 then .ok (.nested [])      -- no events held: the counts array may be 1-D and empty
  else
    match s.counts with
    | .arr2d rows => (nestedRows s.numEvents.toNat rows s.events).map .nested
    | _ => .error .index

/-- `[(first + i, len(ev_i))]` -/
def relabelRows (first : Int) : Nat → List (List R) → List (Int × Int)
  | _, [] => []
  | i, ev :: evs => (first + i, (ev.length : Int)) :: relabelRows first (i + 1) evs

/-- `_update_num_output_per_event_after_filter` after `particle_list_ := evs'` -/
def countsLen : Counts → Nat
  | .arr2d rows => rows.length
  | .arr1d _ => 2
  | .empty => 0

def relabel (s : Store R) (evs' : List (List R)) : Except WErr (Store R) :=
  if countsLen s.counts == 0 then
    -- no events are held (`[[]]` is only a placeholder): nothing to recount
    .ok { s with events := if evs'.isEmpty then [[]] else evs' }
  else
  match s.counts with
  | .arr2d rows =>
    match evs', rows with
    | [], _ => .ok { events := [[]], numEvents := 0, counts := .arr2d [] }
    | _ :: _, [] => .error .index
    | _ :: _, r :: _ =>
      .ok { events := evs', numEvents := evs'.length, counts := .arr2d (relabelRows r.1 0 evs') }
  | .arr1d r =>
    match evs' with
    | ev :: _ => .ok { events := evs', numEvents := s.numEvents, counts := .arr1d (r.1, ev.length) }
    | [] => .error .index
  | .empty => .error .index

/-- a filter method as far as the writer can tell: which particles / which events survive -/
inductive Op (R : Type)
  | part (keep : R → Bool)
  | evcut (keep : List R → Bool)

/-- the functions of `Filter.py`: particle-level filters keep every event, event-level cuts fall back to `[[]]` -/
def applyOp : Op R → List (List R) → List (List R)
  | .part p, evs => evs.map (fun ev => ev.filter p)
  | .evcut q, evs => let r := evs.filter q; if r.isEmpty then [[]] else r

def isPlaceholder : List (List R) → Bool
  | [[]] => true
  | _ => false

/-! ### pieces of text -/

def renderPieces (ps : List Piece) (event numOut defStr : String) : String :=
  String.join (ps.map (fun p => match p with
    | .lit s => s | .event => event | .numOut => numOut | .defStr => defStr))

def labelOf (rule : LabelRule) (i : Nat) (stored : Int) : Int :=
  match rule with
  | .stored => stored
  | .pos c => ((i + c : Nat) : Int)

/-- `fmt % tuple(row)` of `np.savetxt` (`ValueError` when the number of conversions differs from the columns) -/
def cellsOf (c : Codec V) (specs : List Spec) (row : List V) : List String := List.zipWith c.fmt specs row

def rowLine (c : Codec V) (jet : Bool) (specs : List Spec) (row : List V) : Except WErr TLine :=
  if specs.length != row.length then .error .value
  else
    let cells := cellsOf c specs row
    .ok ⟨if jet then .jpart cells else .part cells, " ".intercalate cells⟩

def rowLines (c : Codec V) (jet : Bool) (specs : List Spec) (rows : List (List V)) : Except WErr (List TLine) :=
  rows.mapM (rowLine c jet specs)

/-- `_event_footer`: the piece number `k` of `footer.split(' ')` replaced by the event number -/
def substLabel (k : Nat) (i : Int) (f : String) : String :=
  let ps := splitCh ' ' f      -- `footer.split(' ')` (character-list primitive of `Core/Str.lean`, see `Lemmas/ClassifyWriter.lean`)
  if ps.length > k then " ".intercalate (ps.set k (toString i)) else f

/-- Python `xs[i]` for an integer index (negative indices count from the end) -/
def pyIndex {α : Type} (xs : List α) (i : Int) : Except WErr α :=
  let n : Int := xs.length
  let j := if i < 0 then i + n else i
  if j < 0 then .error .index else
  match xs[j.toNat]? with | some x => .ok x | none => .error .index

/-! ### Oscar -/

structure OscarObj (R : Type) extends Store R where
  fmt : Fmt                  -- oscar_format_
  attrs : List String        -- custom_attr_list
  endLines : List String     -- event_end_lines_ : every end line of the input file (without newline)
  lastEndNoNL : Bool         -- the input file does not end with a newline (the last end line has none)
  origin : List Nat          -- event_origin_ : position in `endLines` of the end line of every event held
  impactIdx : List Nat       -- impact_parameters_[j] was parsed from `endLines[impactIdx[j]]`
  header : List String       -- the first three lines of PATH_OSCAR_

/-- format of an event's rows; `cur` is the (possibly widened) `format_oscar2013_extended` variable -/
def oscarSpecs (fmt : Fmt) (custom : List Spec) (cur : List Spec) : List Spec :=
  match fmt with
  | .oscar2013 => fmtOscar2013
  | .ascii => custom
  | _ => cur

/-- the widening `format + (len(row) - 20) * " %d"` of the extended format -/
def widen (fmt : Fmt) (guard : Bool) (ncols : Nat) (cur : List Spec) : List Spec :=
  if guard && decide (ncols > 20) && (fmt == .extended || fmt == .extendedIC) then
    (if extFirstEventOnly then cur else fmtExtended20) ++ List.replicate (ncols - 20) fmtExtensionSpec
  else cur

/-- position in `event_end_lines_` of the end line written after the event whose written number is `event` -/
def oscarFooterIdx (o : OscarObj R) (event : Int) : Except WErr Nat :=
  match oscarFooterRule with
  | .byLabel =>
    let n : Int := o.endLines.length
    let j := if event < 0 then event + n else event
    if j < 0 || j ≥ n then .error .index else .ok j.toNat
  | .own => do
    let j ← pyIndex o.origin event
    if j < o.endLines.length then pure j else throw WErr.index

/-- the end line written after the event whose written number is `event` -/
def oscarFooter (o : OscarObj R) (event : Int) : Except WErr String := do
  let j ← oscarFooterIdx o event
  let f ← pyIndex o.endLines (j : Int)
  match oscarFooterRule, footerSubstIndex with
  | .own, some k => pure (substLabel k event f)
  | _, _ => pure f

def outLine (event numOut : Int) : String :=
  renderPieces oscarOutHeader (toString event) (toString numOut) ""

/-- the loop `for i in range(self.num_events_)` -/
def oscarEvents (c : Codec V) (vals : R → List V) (o : OscarObj R) (custom : List Spec) :
    Nat → List Spec → List (Int × Int) → List (List R) → Except WErr (List TLine)
  | _, _, _, [] => .ok []
  | _, _, [], _ :: _ => .error .index
  | i, cur, r :: rows, ev :: evs => do
    let event := labelOf oscarLabelMulti i r.1
    let head : TLine := ⟨.out event r.2, outLine event r.2⟩
    let foot : TLine := ⟨.endl event, ← oscarFooter o event⟩
    match ev with
    | [] => do
      let rest ← oscarEvents c vals o custom (i + 1) cur rows evs
      pure (head :: foot :: rest)
    | p :: _ => do
      let cur' := widen o.fmt (!extFirstEventOnly || i == 0) (vals p).length cur
      let body ← rowLines c false (oscarSpecs o.fmt custom cur') (ev.map vals)
      let rest ← oscarEvents c vals o custom (i + 1) cur' rows evs
      pure (head :: body ++ foot :: rest)

/-- `Oscar.print_particle_lists_to_file` : the lines of the output file -/
def hdrLines (h : List String) : List TLine := h.map (fun s => ⟨.hdr, s⟩)

/-- `format_custom = " ".join([format_map[attr] for attr in self.custom_attr_list])` (ASCII only) -/
def oscarCustom (fmt : Fmt) (attrs : List String) : Except WErr (List Spec) :=
  if fmt == .ascii then
    attrs.mapM (fun a => match formatMap.lookup a with | some s => pure s | none => throw WErr.key)
  else pure []

def writeOscarK (c : Codec V) (vals : R → List V) (o : OscarObj R) : Except WErr (List TLine) := do
  let custom ← oscarCustom o.fmt o.attrs
  let pl ← particleList o.toStore
  if (zeroWhenNoEvents && o.numEvents == 0) ||
      (o.numEvents == 1 && isPlaceholder o.events && (!zeroNeedsNoOrigin || o.origin.isEmpty)) then
    pure (hdrLines o.header)                        -- "The number of events is zero."
  else if o.numEvents > 1 then
    match pl, o.counts with
    | .nested evs, .arr2d rows => do
      let body ← oscarEvents c vals o custom 0 fmtExtended20 rows evs
      pure (hdrLines o.header ++ body)
    | _, _ => throw WErr.index
  else
    match o.counts with
    | .arr2d (r :: _) => do
      let rows : List R := match pl with | .flat rows => rows | .nested _ => []
      let event := labelOf oscarLabelSingle 0 r.1
      let head : TLine := ⟨.out event r.2, outLine event r.2⟩
      match rows with
      | [] => do
        let foot ← oscarFooter o event
        pure (hdrLines o.header ++ [head, ⟨.endl event, foot⟩])
      | p :: _ => do
        let cur := widen o.fmt true (vals p).length fmtExtended20
        let body ← rowLines c false (oscarSpecs o.fmt custom cur) (rows.map vals)
        let foot ← oscarFooter o event
        pure (hdrLines o.header ++ head :: body ++ [⟨.endl event, foot⟩])
    | _ => throw WErr.index

/-- `Oscar.print_particle_lists_to_file` : the lines of the output file -/
def writeOscar (c : Codec V) (vals : R → List V) (o : OscarObj R) : Except WErr (List String) :=
  (writeOscarK c vals o).map (fun ls => ls.map (·.text))

/-- does the written text end with a newline?  Only the last end line of the input file can lack one; it is
written as it is stored. -/
def oscarFinalNL (o : OscarObj R) (lines : List TLine) : Bool :=
  match lines.getLast? with
  | some ⟨.endl e, _⟩ =>
    (match oscarFooterIdx o e with
     | .ok j => !(o.lastEndNoNL && j + 1 == o.endLines.length)
     | .error _ => true)
  | _ => true

/-- the two event-removing cuts of `Oscar` (repaired code): drop the origins / impact parameters of the removed
events — `kept` are the positions whose event list object is still held -/
def keepAligned {α : Type} (xs : List α) (evs : List (List R)) (q : List R → Bool) : List α :=
  if xs.length == evs.length then ((xs.zip evs).filter (fun p => q p.2)).map (·.1) else xs

def OscarObj.step (o : OscarObj R) (op : Op R) : Except WErr (OscarObj R) := do
  let st ← relabel o.toStore (applyOp op o.events)
  match op with
  | .part _ => pure { o with toStore := st }
  | .evcut q =>
    if cutsKeepMetadata then
      pure { o with toStore := st, origin := keepAligned o.origin o.events q,
                    impactIdx := keepAligned o.impactIdx o.events q }
    else pure { o with toStore := st }

/-! #### `Oscar.__init__` : from what the loader returns -/

def readCast (a : String) : Cast := if floatAttrs.contains a then .float else .int

/-- columns of `_particle_as_list` for a particle read from a line with `n` columns -/
def oscarAsListCols (fmt : Fmt) (attrs : List String) (n : Nat) : List (Cast × String) :=
  match fmt with
  | .oscar2013 => oscarColsBase
  | .ascii => attrs.map (fun a => (readCast a, a))
  | _ => oscarColsBase ++ oscarColsExt ++ oscarColsOpt.take (n - 20)

/-- column of the line that `Particle.__initialize_from_array` stores under attribute `a` -/
def oscarColOf (fmt : Fmt) (attrs : List String) (a : String) : Option Nat :=
  match fmt with
  | .oscar2013 => readMapOscar2013.lookup a
  | .ascii => if attrs.contains a then some (attrs.idxOf a) else none
  | _ => readMapExtended.lookup a

def valsOf (c : Codec V) (cols : List (Cast × String)) (colOf : String → Option Nat) (toks : List String) :
    Except WErr (List V) :=
  cols.mapM (fun ca => match colOf ca.2 with
    | none => throw WErr.key
    | some j => match toks[j]? with
      | none => throw WErr.value
      | some t => pure (c.parse ca.1 t))

/-- the values `_particle_as_list` returns for a particle loaded from the tokens `toks` -/
def oscarVals (c : Codec V) (fmt : Fmt) (attrs : List String) (toks : List String) : Except WErr (List V) :=
  valsOf c (oscarAsListCols fmt attrs toks.length) (oscarColOf fmt attrs) toks

def labelsOf : Counts → List Nat
  | .arr2d rows => rows.map (fun r => r.1.toNat)
  | _ => []

/-- `OscarLoader.loaded_event_indices_` (repaired loader): positions in the file of the selected events that the
constructor filters keep — an event is dropped iff the filters empty it (`len(data) != 0 or old_data_len == 0`).
Stated through the shared reader: the selected events are those of the unfiltered read. -/
def keptIndices (f : FileF) (sel : Sel) (filt : Option EvFilter) : List Nat :=
  match readOscar f sel none with
  | .error _ => []
  | .ok L0 =>
    let first : Nat := match sel with | .all => 0 | .one k => k.toNat | .range a _ => a.toNat
    let keep (data : List PLine) : Bool := match filt with
      | none => true
      | some g => match g data with
        | .ok d => d.length != 0 || data.length == 0
        | .error _ => false
    ((L0.events.zipIdx).filter (fun p => keep p.1)).map (fun p => first + p.2)

/-- `Oscar(path, …)` given the loader's result, the file and the loader's record of the kept events -/
def oscarOfLoaded (L : Loaded) (f : FileF) (kept : List Nat) : Except WErr (OscarObj PLine) :=
  match L.fmt with
  | none => .error .type
  | some fmt =>
    let pos := if originFromLoader then kept else labelsOf L.counts
    .ok { events := L.events, numEvents := L.numEvents, counts := L.counts, fmt := fmt, attrs := L.customAttrs,
          endLines := L.footers, lastEndNoNL := !f.trailingNL,
          origin := if oscarHasOrigin then pos else [],
          impactIdx := pos,
          header := (f.lines.take 3).map (·.raw) }

/-! ### JETSCAPE -/

structure JetObj (R : Type) extends Store R where
  defStr : String        -- particle_type_defining_string_
  headerLine : String    -- first line of JETSCAPE_FILE
  lastLine : String      -- last_line_  (`get_last_line(...).strip()`)

def jetHeader (event numOut : Int) (defStr : String) : String :=
  renderPieces jetscapeHeader (toString event) (toString numOut) defStr

def jetEvents (c : Codec V) (vals : R → List V) (defStr : String) :
    Nat → List (Int × Int) → List (List R) → Except WErr (List TLine)
  | _, _, [] => .ok []
  | _, [], _ :: _ => .error .index
  | i, r :: rows, ev :: evs => do
    let event := labelOf jetscapeLabelMulti i r.1
    let head : TLine := ⟨.jevt event r.2, jetHeader event r.2 defStr⟩
    let body ← rowLines c true fmtJetscape (ev.map vals)
    let rest ← jetEvents c vals defStr (i + 1) rows evs
    pure (head :: body ++ rest)

/-- `Jetscape.print_particle_lists_to_file` : the lines of the output file (the text always ends with a newline) -/
def writeJetscapeK (c : Codec V) (vals : R → List V) (j : JetObj R) : Except WErr (List TLine) := do
  let pl ← particleList j.toStore
  let first : TLine := ⟨.jhdr, j.headerLine⟩
  let last : TLine := ⟨.jtrail, j.lastLine⟩
  if j.numEvents == 0 then pure [first, last]
  else if j.numEvents > 1 then
    match pl, j.counts with
    | .nested evs, .arr2d rows => do
      let body ← jetEvents c vals j.defStr 0 rows evs
      pure (first :: body ++ [last])
    | _, _ => throw WErr.index
  else
    match j.counts with
    | .arr2d (r :: _) => do
      let rows : List R := match pl with | .flat rows => rows | .nested _ => []
      let event := labelOf jetscapeLabelSingle 0 r.1
      let head : TLine := ⟨.jevt event r.2, jetHeader event r.2 j.defStr⟩
      let body ← rowLines c true fmtJetscape (rows.map vals)
      pure (first :: head :: body ++ [last])
    | _ => throw WErr.index

def writeJetscape (c : Codec V) (vals : R → List V) (j : JetObj R) : Except WErr (List String) :=
  (writeJetscapeK c vals j).map (fun ls => ls.map (·.text))

def JetObj.step (j : JetObj R) (op : Op R) : Except WErr (JetObj R) := do
  let st ← relabel j.toStore (applyOp op j.events)
  pure { j with toStore := st }

/-- Python `str.strip()` on the ASCII whitespace the files contain -/
def pyStrip (s : String) : String := s.trimAscii.toString

def jetVals (c : Codec V) (toks : List String) : Except WErr (List V) :=
  valsOf c jetscapeCols (fun a => readMapJetscape.lookup a) toks

/-- `Jetscape(path, …)` given the loader's result and the file -/
def jetOfLoaded (L : Loaded) (f : FileF) (partons : Bool) : Except WErr (JetObj PLine) :=
  match f.lines.head?, f.lines.getLast? with
  | some h, some l =>
    .ok { events := L.events, numEvents := L.numEvents, counts := L.counts,
          defStr := if partons then "N_partons" else "N_hadrons", headerLine := h.raw, lastLine := pyStrip l.raw }
  | _, _ => .error .index

/-! ### what a line of a written file must look like to the loaders (checked on the real bytes by the driver,
assumed by the theorems) -/

def intTok (toks : List String) (k : Nat) : Option Int := (toks[k]?).bind pyInt?

/-- a header line is skipped by `set_num_output_per_event_and_event_footers` -/
def obsScanSkip (l : LineF) : Bool := !(l.hasHash && l.hasEndSp) && !(l.hasHash && l.hasOutSp)

/-- `# event e out n` -/
def obsOut (l : LineF) (e n : Int) : Bool :=
  l.hasHash && !l.hasEndSp && l.hasOutSp && l.hasEvent && l.hasOut &&
  (intTok l.toks 2 == some e) && (intTok l.toks 4 == some n)

/-- `# event e end …` -/
def obsEnd (l : LineF) (e : Int) : Bool :=
  l.hasHash && l.hasEndSp && l.hasEnd && !(l.hasEvent && (l.hasOut || l.hasInSp || l.hasStart)) &&
  (l.toks.getD 0 "" == "#") && l.toks.contains "event" && (intTok l.toks 2 == some e)

/-- a particle line of an Oscar file with the given cells -/
def obsPart (fmt : Fmt) (attrs : List String) (l : LineF) (cells : List String) : Bool :=
  !l.hasHash && !l.hasEvent && (l.toks == cells) && colsOk fmt cells.length &&
  fieldsOk (colKinds fmt attrs cells.length) cells

def defFlag (partons : Bool) (l : LineF) : Bool := if partons then l.hasNPartons else l.hasNHadrons

def obsJHeader (partons : Bool) (l : LineF) : Bool := !(l.hasHash && defFlag partons l)

def obsJEvent (partons : Bool) (l : LineF) (e n : Int) : Bool :=
  l.hasHash && defFlag partons l && !l.hasSigma && l.hasEventCap && l.hasWeight &&
  (intTok l.toksTab 2 == some e) && (intTok l.toksTab 8 == some n)

def jetKinds : List Bool := [false, false, false, true, true, true, true]

def obsJPart (l : LineF) (cells : List String) : Bool :=
  !l.hasHash && !l.hasEventCap && (l.toksTab == cells) && (cells.length == 7) && fieldsOk jetKinds cells

def obsJTrailer (partons : Bool) (l : LineF) : Bool :=
  l.hasHash && l.hasSigma && !(l.hasHash && defFlag partons l)

/-- the observation a line of kind `k` must give -/
def obsKind (fmt : Fmt) (attrs : List String) (partons : Bool) (k : Kind) (l : LineF) : Bool :=
  match k with
  | .hdr => obsScanSkip l
  | .out e n => obsOut l e n
  | .endl e => obsEnd l e
  | .part cells => obsPart fmt attrs l cells
  | .jhdr => obsJHeader partons l
  | .jevt e n => obsJEvent partons l e n
  | .jpart cells => obsJPart l cells
  | .jtrail => obsJTrailer partons l

end SparkxVerif.Wr
