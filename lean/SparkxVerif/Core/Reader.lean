/-
Shared model R — the text readers (`loader/OscarLoader.py`, `loader/JetscapeLoader.py`).

Two layers.
* `analyse : String → LineF` computes, from the text of one line, exactly the observations the loaders make
  on it: the substring tests (`'#' in line`, `' out ' in line`, `'sigmaGen' in line`, …) and the token list
  `line.replace('\n','').split(' ')` (for JETSCAPE after `replace('\t',' ')`).  All of it (and `pyInt?`, `isPyFloat`) is
  defined through the structurally recursive character-list primitives of `Core/Str.lean`, so that the classification
  lemma (`Lemmas/Classify*.lean`, `C01.C01_classification_holds`) can be proved and the kernel can evaluate them.
* `readOscar`, `readJetscape : List LineF → Opts → … → Except Err Loaded` reproduce the loaders step by step on
  those observations: format sniffing, `num_events` from the last line, the header scan building
  `(label,count)` rows and footers, the skip/read line arithmetic, the line loop that *classifies by content*
  but *stops by count*, per-event filter application with count rewriting / row deletion / label decrement,
  the final event-count check and the post-read slicing — including the numpy shape each branch leaves.

A particle line is kept as its token list (`PLine`); converting tokens to numbers is `Particle`'s job and enters
only through `colsOk` (the column-count check) and, when constructor filters are used, through the filter view
`view : PLine → Flt.Part α` supplied by the caller.  No Mathlib.
-/
import SparkxVerif.Core.FilterSkel
import SparkxVerif.Core.Str

namespace SparkxVerif.Rd
open SparkxVerif.Flt

/-! ### layer 1: what the loaders observe on a line -/

/-- Python `pat in s` (on the character lists; `Core/Str.lean`) -/
def hasSub (s pat : String) : Bool := Str.isInfix pat.toList s.toList

/-- Python `s.split(c)` for a one-character separator -/
def splitCh (c : Char) (s : String) : List String := (Str.splitOnChar c s.toList).map String.ofList

/-- `s.replace('\t', ' ')` -/
def tabToSp (c : Char) : Char := if c = '\t' then ' ' else c

structure LineF where
  raw : String
  /-- `line.replace('\n','').split(' ')` -/
  toks : List String
  /-- `line.replace('\n','').replace('\t',' ').split(' ')` -/
  toksTab : List String
  hasHash : Bool
  hasEvent : Bool      -- 'event'
  hasOut : Bool        -- 'out'
  hasOutSp : Bool      -- ' out '
  hasInSp : Bool       -- 'in '
  hasSpIn : Bool       -- ' in '
  hasStart : Bool      -- ' start'
  hasEnd : Bool        -- 'end'
  hasEndSp : Bool      -- ' end '
  hasSigma : Bool      -- 'sigmaGen'
  hasWeight : Bool     -- 'weight'
  hasEventCap : Bool   -- 'Event'
  hasNHadrons : Bool   -- 'N_hadrons'
  hasNPartons : Bool   -- 'N_partons'
deriving Repr

def analyse (s : String) : LineF :=
  { raw := s, toks := splitCh ' ' s, toksTab := (Str.splitOnChar ' ' (s.toList.map tabToSp)).map String.ofList,
    hasHash := hasSub s "#", hasEvent := hasSub s "event", hasOut := hasSub s "out", hasOutSp := hasSub s " out ",
    hasInSp := hasSub s "in ", hasSpIn := hasSub s " in ", hasStart := hasSub s " start", hasEnd := hasSub s "end",
    hasEndSp := hasSub s " end ", hasSigma := hasSub s "sigmaGen", hasWeight := hasSub s "weight",
    hasEventCap := hasSub s "Event", hasNHadrons := hasSub s "N_hadrons", hasNPartons := hasSub s "N_partons" }

/-- a file: its lines without the newline characters, and whether the last line is newline-terminated -/
structure FileF where
  lines : List LineF
  trailingNL : Bool

/-- Python `int(tok)` for the tokens the loaders convert (optional sign, digits; surrounding blanks allowed) -/
def pyInt? (s : String) : Option Int := Str.pyIntL s.toList

/-! ### results -/

inductive Err | type | value | index | notfound | os
deriving DecidableEq, Repr

def ofFlt : Flt.Err → Err
  | .type => .type | .value => .value | .name => .value

inductive Fmt | oscar2013 | extended | extendedIC | extendedPhotons | ascii
deriving DecidableEq, Repr

/-- the numpy object left in `num_output_per_event_` -/
inductive Counts
  | arr2d (rows : List (Int × Int))     -- shape (n,2), n ≥ 0  (`np.array(…, ndmin=2)`, slices of it)
  | arr1d (row : Int × Int)              -- shape (2,)   (not produced by the loaders any more; kept for storers)
  | empty                                -- `np.array([])`, shape (0,)
deriving DecidableEq, Repr

/-- a particle line as loaded: position of the line in the file and its tokens -/
structure PLine where
  lineNo : Nat
  toks : List String
deriving DecidableEq, Repr

inductive Sel | all | one (k : Int) | range (a b : Int)
deriving DecidableEq, Repr

structure Loaded where
  events : List (List PLine)
  numEvents : Int
  counts : Counts
  fmt : Option Fmt            -- Oscar only
  customAttrs : List String   -- ASCII only
  footers : List String       -- `event_end_lines_` (Oscar)
deriving Repr

/-! ### Oscar -/

def attrMapKeys : List (String × String) :=
  [("t","t"),("x","x"),("y","y"),("z","z"),("mass","mass"),("p0","E"),("px","px"),("py","py"),("pz","pz"),
   ("pdg","pdg"),("ID","ID"),("charge","charge"),("ncoll","ncoll"),("form_time","form_time"),("xsecfac","xsecfac"),
   ("proc_id_origin","proc_id_origin"),("proc_type_origin","proc_type_origin"),("time_last_coll","t_last_coll"),
   ("pdg_mother1","pdg_mother1"),("pdg_mother2","pdg_mother2"),("baryon_number","baryon_number"),
   ("strangeness","strangeness")]

/-- `_set_custom_attr_list` -/
def customAttrList (header : List String) : List String :=
  header.filterMap (fun h => attrMapKeys.lookup h)

/-- `set_oscar_format` on the first line -/
def oscarFormat (first : LineF) : Except Err (Fmt × List String) :=
  let l := first.toks
  let t0 := l.getD 0 ""
  let t1 := l.getD 1 ""
  -- the `#!ASCII` tag is tested first (proposed_fixes/C01-1): an ASCII header with 13 or 21 columns has 15 / 23 tokens
  if t0 == "#!ASCII" then .ok (.ascii, customAttrList (l.drop 2))
  else if l.length == 15 || t0 == "#!OSCAR2013" then .ok (.oscar2013, [])
  else if t0 == "#!OSCAR2013Extended" && t1 == "SMASH_IC" then .ok (.extendedIC, [])
  else if t0 == "#!OSCAR2013Extended" && t1 == "Photons" then .ok (.extendedPhotons, [])
  else if l.length == 23 || t0 == "#!OSCAR2013Extended" then .ok (.extended, [])
  else .error .type

/-- the line `set_num_events` / `get_last_line` read: the text after the last newline that is not the
final character of the file (`OSError` if there is none) -/
def lastLine (f : FileF) : Except Err LineF :=
  match f.lines.getLast? with
  | none => .error .os
  | some l => if f.lines.length < 2 then .error .os else .ok l

/-- `set_num_events` -/
def oscarNumEvents (f : FileF) : Except Err Int := do
  let l ← lastLine f
  if l.toks.getD 0 "" == "#" && l.toks.contains "event" then
    match l.toks[2]? with
    | none => .error .index
    | some t => match pyInt? t with
      | some n => .ok (n + 1)
      | none => .error .value
  else .error .type

/-- `set_num_output_per_event_and_event_footers` (formats other than IC / Photons) -/
def oscarScan : List LineF → Except Err (List (Int × Int) × List String)
  | [] => .ok ([], [])
  | l :: ls => do
    if l.hasHash && l.hasEndSp then
      let (rows, foot) ← oscarScan ls
      pure (rows, l.raw :: foot)
    else if l.hasHash && l.hasOutSp then
      let ev ← match l.toks[2]? with | some t => pure t | none => throw Err.index
      let n ← match l.toks[4]? with
        | some t => (match pyInt? t with | some n => pure n | none => throw Err.value)
        | none => throw Err.index
      -- `np.array(event_output, dtype=np.int32)` converts the label string
      let e ← match pyInt? ev with | some e => pure e | none => throw Err.value
      let (rows, foot) ← oscarScan ls
      pure ((e, n) :: rows, foot)
    else oscarScan ls

def sumCounts (rows : List (Int × Int)) (extra : Int) : Int :=
  rows.foldl (fun acc r => acc + (r.2 + extra)) 0

/-- rows `0 … k-1` must exist (numpy index check) -/
def takeChecked (rows : List (Int × Int)) (k : Int) : Except Err (List (Int × Int)) :=
  if k < 0 then .error .index
  else if k.toNat ≤ rows.length then .ok (rows.take k.toNat) else .error .index

/-- numpy `a[i]` for a possibly negative `i` -/
def npRow (rows : List (Int × Int)) (i : Int) : Except Err (Int × Int) :=
  let n : Int := rows.length
  let j := if i < 0 then i + n else i
  if j < 0 || j ≥ n then .error .index else
  match rows[j.toNat]? with | some r => .ok r | none => .error .index

/-- numpy slice `a[s:e]` with non-negative bounds -/
def npSlice (rows : List (Int × Int)) (s e : Int) : List (Int × Int) :=
  (rows.take e.toNat).drop s.toNat

/-- `_get_num_skip_lines` : `hdr` header lines, `extra` comment lines per event -/
def skipLines (hdr extra : Int) (rows : List (Int × Int)) (sel : Sel) : Except Err Int :=
  match sel with
  | .all => .ok hdr
  | .one k => if k == 0 then .ok hdr else do
      let pre ← takeChecked rows k
      pure (hdr + sumCounts pre extra)
  | .range a _ => if a == 0 then .ok hdr else do
      let pre ← takeChecked rows a
      pure (hdr + sumCounts pre extra)

/-- `__get_num_read_lines` (Oscar: `extra = 2`) -/
def readLines (extra : Int) (rows : List (Int × Int)) (sel : Sel) : Except Err Int :=
  match sel with
  | .all => .ok (sumCounts rows 0 + extra * rows.length)
  | .one k => do let r ← npRow rows k; pure (r.2 + extra)
  | .range a b => do
      -- `for i in range(a, b+1): rows[i, 1]`
      let idx : List Int := (List.range (b + 1 - a).toNat).map (fun (i : Nat) => a + (i : Int))
      let rs ← idx.mapM (npRow rows)
      pure (sumCounts rs extra)

/-- `np.delete(a, idx, axis=0)` then `np.atleast_2d`, the `shape[0] == 0 -> np.array([])` case and the label
decrement of the rows after `idx` -/
def deleteRow (c : Counts) (idx : Nat) : Except Err Counts :=
  match c with
  | .arr2d rows =>
    if idx < rows.length then
      let rows' := rows.eraseIdx idx
      if rows'.isEmpty then .ok .empty
      else .ok (.arr2d ((rows'.take idx) ++ (rows'.drop idx).map (fun r => (r.1 - 1, r.2))))
    else .error .index
  | _ => .error .index

/-- `a[idx] = (x, y)` -/
def setRow (c : Counts) (idx : Nat) (r : Int × Int) : Except Err Counts :=
  match c with
  | .arr2d rows => if idx < rows.length then .ok (.arr2d (rows.set idx r)) else .error .index
  | _ => .error .index

structure LoopSt where
  plist : List (List PLine)     -- particle_list (reversed while looping? no: in order)
  data : List PLine
  counts : Counts
  cut : Int

/-- the filters given to the constructor, applied to one event (`__apply_kwargs_filters([data], …)[0]`) -/
abbrev EvFilter := List PLine → Except Err (List PLine)

/-- what happens at the end of an event (Oscar `end` line, JETSCAPE next header / trailer) -/
def closeEvent (st : LoopSt) (filt : Option EvFilter) (labelBase : Int) : Except Err LoopSt := do
  let oldLen := st.data.length
  let (data, counts) ← match filt with
    | none => pure (st.data, st.counts)
    | some f => do
        let d ← f st.data
        if d.length != 0 || oldLen == 0 then
          let c ← setRow st.counts st.plist.length ((st.plist.length : Int) + labelBase, d.length)
          pure (d, c)
        else
          let c ← deleteRow st.counts st.plist.length
          pure (d, c)
  if data.length != 0 || oldLen == 0 then
    pure { st with plist := st.plist ++ [data], data := [], counts := counts }
  else
    pure { st with data := [], counts := counts, cut := st.cut + 1 }

/-- does Python `float(tok)` succeed?  (decimal / exponent notation, `inf`, `nan`, optional sign, blanks) -/
def isPyFloat (s : String) : Bool := Str.isPyFloatL s.toList

def isPyInt (s : String) : Bool := (pyInt? s).isSome

/-- kinds of the columns (`true` = parsed with `float`, `false` = with `int`) -/
def colKinds (fmt : Fmt) (attrs : List String) (n : Nat) : List Bool :=
  let f := true
  let i := false
  match fmt with
  | .oscar2013 => [f,f,f,f,f,f,f,f,f,i,i,i]
  | .extended | .extendedIC => ([f,f,f,f,f,f,f,f,f,i,i,i,i,f,f,i,i,f,i,i,i,i] : List Bool).take n
  | .extendedPhotons => [f,f,f,f,f,f,f,f,f,i,i,i,i,f,f,i,i,f,i,i,f]
  | .ascii => attrs.map (fun a => ["t","x","y","z","mass","E","px","py","pz","form_time","xsecfac","t_last_coll","weight"].contains a)

/-- every token converts (`float(tok)` / `int(tok)` do not raise) -/
def fieldsOk (kinds : List Bool) (toks : List String) : Bool :=
  (kinds.zip toks).all (fun kt => if kt.1 then isPyFloat kt.2 else isPyInt kt.2)

/-- the column-count check of `Particle.__initialize_from_array` -/
def colsOk (fmt : Fmt) (n : Nat) : Bool :=
  match fmt with
  | .oscar2013 => n == 12
  | .extended | .extendedIC => 20 ≤ n && n ≤ 22
  | .extendedPhotons => n == 21
  | .ascii => true

/-- the Oscar line loop: reads exactly `n` lines (or fails at EOF), classifying each by content -/
def oscarLoop (fmt : Fmt) (attrs : List String) (filt : Option EvFilter) (firstLabel : Int) :
    Nat → Nat → Bool → List LineF → LoopSt → Except Err LoopSt
  | 0, _, _, _, st => .ok st
  | n + 1, lineNo, first, lines, st =>
    match lines with
    | [] => .error .index                                   -- `if not line`
    | l :: ls =>
      if first && !l.hasHash && !l.hasOut then .error .value
      else if l.hasEvent && (l.hasOut || l.hasInSp || l.hasStart) then
        oscarLoop fmt attrs filt firstLabel n (lineNo + 1) false ls st
      else if l.hasHash && l.hasEnd then do
        let st' ← closeEvent st filt firstLabel
        oscarLoop fmt attrs filt firstLabel n (lineNo + 1) false ls st'
      else if l.hasHash then .error .value                  -- "Comment line unexpectedly found"
      else if !colsOk fmt l.toks.length then .error .value  -- Particle(...) raises
      else if !fieldsOk (colKinds fmt attrs l.toks.length) l.toks then .error .value
      else oscarLoop fmt attrs filt firstLabel n (lineNo + 1) false ls { st with data := st.data ++ [⟨lineNo, l.toks⟩] }

def validSel (sel : Sel) : Except Err Unit :=
  match sel with
  | .all => .ok ()
  | .one k => if k < 0 then .error .value else .ok ()
  | .range a b => if a > b then .error .value else if a < 0 || b < 0 then .error .value else .ok ()

/-- the rows of the selected events (`num_output_per_event_[first : last + 1]`, taken after the skip) and the
number of selected events -/
def selectRows (rows : List (Int × Int)) (numEvents : Int) (sel : Sel) : List (Int × Int) × Int :=
  match sel with
  | .all => (rows, numEvents)
  | .one k => (npSlice rows k (k + 1), 1)
  | .range a b => (npSlice rows a (b + 1), b - a + 1)

/-- post-read bookkeeping shared by both loaders: `num_events_ -= cut_events`, the event-count check when no
selection was given, and the `[] -> [[]]` convention -/
def finish (st : LoopSt) (numEvents : Int) (sel : Sel) :
    Except Err (List (List PLine) × Int × Counts) := do
  let ne := numEvents - st.cut
  match sel with
  | .all => if (st.plist.length : Int) != ne then throw Err.index
  | _ => pure ()
  let plist := if st.plist.isEmpty then [[]] else st.plist
  pure (plist, ne, st.counts)

/-- `OscarLoader.load` (formats Oscar2013, Oscar2013Extended, ASCII) -/
def readOscar (f : FileF) (sel : Sel) (filt : Option EvFilter) : Except Err Loaded := do
  validSel sel
  let first ← match f.lines.head? with | some l => pure l | none => throw Err.type
  let (fmt, attrs) ← oscarFormat first
  if fmt == .extendedIC || fmt == .extendedPhotons then throw Err.type   -- not modelled (outside C01's list)
  let numEvents ← oscarNumEvents f
  let (rows, footers) ← oscarScan f.lines
  let skip ← skipLines 3 2 rows sel
  let nread ← readLines 2 rows sel
  if nread < 0 || skip < 0 then throw Err.index
  let body := f.lines.drop skip.toNat
  let (rowsSel, neSel) := selectRows rows numEvents sel
  let firstLabel : Int := match rowsSel with | r :: _ => r.1 | [] => 0
  let st ← oscarLoop fmt attrs filt firstLabel nread.toNat skip.toNat true body ⟨[], [], .arr2d rowsSel, 0⟩
  let (plist, ne, counts) ← finish st neSel sel
  pure { events := plist, numEvents := ne, counts := counts, fmt := some fmt, customAttrs := attrs, footers := footers }

/-! ### JETSCAPE -/

/-- `get_last_line(...).strip()` contains 'sigmaGen' (constructor check) -/
def jetscapeInitOk (f : FileF) : Except Err Unit := do
  let l ← lastLine f
  if l.hasSigma then .ok () else .error .value

/-- `set_num_output_per_event` : rows `(label, count)` from the lines containing '#' and the defining string -/
def jetscapeScan (partons : Bool) : List LineF → Except Err (List (Int × Int))
  | [] => .ok []
  | l :: ls => do
    if l.hasHash && (if partons then l.hasNPartons else l.hasNHadrons) then
      let ev ← match l.toksTab[2]? with | some t => pure t | none => throw Err.index
      let n ← match l.toksTab[8]? with | some t => pure t | none => throw Err.index
      -- `np.array(event_output, dtype=np.int32)` converts both strings
      let e ← match pyInt? ev with | some e => pure e | none => throw Err.value
      let c ← match pyInt? n with | some c => pure c | none => throw Err.value
      let rows ← jetscapeScan partons ls
      pure ((e, c) :: rows)
    else jetscapeScan partons ls

/-- the JETSCAPE line loop -/
def jetscapeLoop (filt : Option EvFilter) (firstLabel firstHeader : Int) :
    Nat → Nat → Bool → List LineF → LoopSt → Except Err LoopSt
  | 0, _, _, _, st => .ok st
  | n + 1, lineNo, first, lines, st =>
    match lines with
    | [] => .error .index
    | l :: ls =>
      if l.hasHash && l.hasSigma then do
        -- trailer: close the event, `data` is NOT reset here
        let st' ← closeEvent st filt firstLabel
        jetscapeLoop filt firstLabel firstHeader n (lineNo + 1) false ls st'
      else if first && !l.hasHash && !l.hasWeight then .error .value
      else if l.hasEventCap && l.hasWeight then
        match l.toksTab[2]? with
        | none => .error .index
        | some t =>
          match pyInt? t with
          | none => .error .value
          | some e =>
            if e == firstHeader then jetscapeLoop filt firstLabel firstHeader n (lineNo + 1) false ls st
            else do
              let st' ← closeEvent st filt firstLabel
              jetscapeLoop filt firstLabel firstHeader n (lineNo + 1) false ls st'
      else if l.toksTab.length != 7 then .error .value       -- Particle('JETSCAPE', …) column check
      else if !fieldsOk [false, false, false, true, true, true, true] l.toksTab then .error .value
      else jetscapeLoop filt firstLabel firstHeader n (lineNo + 1) false ls { st with data := st.data ++ [⟨lineNo, l.toksTab⟩] }

/-- `JetscapeLoader.__init__` + `load` -/
def readJetscape (f : FileF) (sel : Sel) (partons : Bool) (filt : Option EvFilter) : Except Err Loaded := do
  jetscapeInitOk f
  validSel sel
  let rows ← jetscapeScan partons f.lines
  let numEvents : Int := rows.length
  let skip ← skipLines 1 1 rows sel
  let nread0 ← readLines 1 rows sel
  let nread := nread0 + 1
  if nread < 0 || skip < 0 then throw Err.index
  let firstHeader : Int := match sel with | .all => 1 | .one k => 1 + k | .range a _ => 1 + a
  let body := f.lines.drop skip.toNat
  let (rowsSel, neSel) := selectRows rows numEvents sel
  let firstLabel : Int := match rowsSel with | r :: _ => r.1 | [] => 1
  let st ← jetscapeLoop filt firstLabel firstHeader nread.toNat skip.toNat true body ⟨[], [], .arr2d rowsSel, 0⟩
  let (plist, ne, counts) ← finish st neSel sel
  pure { events := plist, numEvents := ne, counts := counts, fmt := none, customAttrs := [], footers := [] }

end SparkxVerif.Rd
