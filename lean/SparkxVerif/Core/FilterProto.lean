/-
Line-protocol encoding of particle lists and filter calls (shared by the C03/C04/C05 drivers).

particle  = 26 comma-separated fields: id, charge, pdg, ncoll, status (decimal or `n` = NaN),
            t,x,y,z,E,pT,mT,rap,eta,etas (16-hex-digit doubles or `n`; etas may be `r` = the method raises), then 11 class flags `1|0|n`
event     = particles separated by `;`  (`.` = empty event);   events separated by `|`  (`-` = no events)
call      = `charged` | `species:<iarg>` | `pT:<warg>` | `rapidity:<rarg>` | `spacetime:<dim>:<warg>` | `energy:<hex>` …
iarg      = `s:<int>` | `l:<ints>` | `t:<ints>` | `a:<ints>` | `o`          (ints separated by `,`)
warg      = `nt` | `w:<elem>,<elem>,…`   elem = `N` (None) | `X` (non-numeric) | hex double
rarg      = `t:<elem>,<elem>,…` | `s:<hex>` | `o`
-/
import SparkxVerif.Core.Proto
import SparkxVerif.Core.FilterSkel

namespace SparkxVerif.Flt.Proto
open SparkxVerif.Proto SparkxVerif.Flt

def xint? (s : String) : Option (XV Int) := if s == "n" then some none else s.toInt?.map some
def xflt? (s : String) : Option (XV Float) := if s == "n" then some none else (floatOfHex? s).map some
def tri? (s : String) : Option (Option Bool) :=
  if s == "n" then some none else if s == "1" then some (some true) else if s == "0" then some (some false) else none

def part? (s : String) : Option (Part Float) :=
  match s.splitOn "," with
  | [id, ch, pdg, nc, st, t, x, y, z, e, pt, mt, rap, eta, etas, h, l, q, m, b, u, d, sg, c, bt, tp] => do
    pure { id := ← id.toNat?, charge := ← xint? ch, pdg := ← xint? pdg, ncoll := ← xint? nc, status := ← xint? st,
           t := ← xflt? t, x := ← xflt? x, y := ← xflt? y, z := ← xflt? z, E := ← xflt? e,
           pT := ← xflt? pt, mT := ← xflt? mt, rap := ← xflt? rap, eta := ← xflt? eta,
           etas := ← (if etas == "r" then some none else xflt? etas), etasRaises := etas == "r",
           isHadron := ← tri? h, isLepton := ← tri? l, isQuark := ← tri? q, isMeson := ← tri? m, isBaryon := ← tri? b,
           hasUp := ← tri? u, hasDown := ← tri? d, hasStrange := ← tri? sg, hasCharm := ← tri? c,
           hasBottom := ← tri? bt, hasTop := ← tri? tp }
  | _ => none

def event? (s : String) : Option (Ev Float) :=
  if s == "." then some [] else (s.splitOn ";").mapM part?

def events? (s : String) : Option (Evs Float) :=
  if s == "-" then some [] else (s.splitOn "|").mapM event?

def ints? (s : String) : Option (List Int) :=
  if s.isEmpty then some [] else (s.splitOn ",").mapM String.toInt?

def welem? (s : String) : Option (WElem Float) :=
  if s == "N" then some .none else if s == "X" then some .nonnum else (floatOfHex? s).map .num

def welems? (s : String) : Option (List (WElem Float)) :=
  if s.isEmpty then some [] else (s.splitOn ",").mapM welem?

def iarg? : List String → Option IArg
  | ["s", x] => x.toInt?.map .scalar
  | ["l", xs] => (ints? xs).map .list
  | ["t", xs] => (ints? xs).map .tuple
  | ["a", xs] => (ints? xs).map .ndarray
  | ["o"] => some .other
  | _ => none

def warg? : List String → Option (WArg Float)
  | ["nt"] => some .notTuple
  | ["w", xs] => (welems? xs).map .tuple
  | _ => none

def rarg? : List String → Option (RArg Float)
  | ["t", xs] => (welems? xs).map .tuple
  | ["s", x] => (floatOfHex? x).map .scalar
  | ["o"] => some .other
  | _ => none

def dim? : String → Option Dim
  | "t" => some .t | "x" => some .x | "y" => some .y | "z" => some .z | "bad" => some .bad | _ => none

def call? (s : String) : Option (Call Float) :=
  match s.splitOn ":" with
  | ["charged"] => some .charged
  | ["uncharged"] => some .uncharged
  | "species" :: r => (iarg? r).map .species
  | "removeSpecies" :: r => (iarg? r).map .removeSpecies
  | ["participants"] => some .participants
  | ["spectators"] => some .spectators
  | ["energy", x] => (floatOfHex? x).map .energyCut
  | "spacetime" :: d :: r => do pure (.spacetime (← dim? d) (← warg? r))
  | "pT" :: r => (warg? r).map .pT
  | "mT" :: r => (warg? r).map .mT
  | "rapidity" :: r => (rarg? r).map .rapidity
  | "pseudorapidity" :: r => (rarg? r).map .pseudorapidity
  | "spacetimeRapidity" :: r => (rarg? r).map .spacetimeRapidity
  | "multiplicity" :: r => (warg? r).map .multiplicity
  | "status" :: r => (iarg? r).map .status
  | ["keepHadrons"] => some .keepHadrons
  | ["keepLeptons"] => some .keepLeptons
  | ["keepQuarks"] => some .keepQuarks
  | ["keepMesons"] => some .keepMesons
  | ["keepBaryons"] => some .keepBaryons
  | ["keepUp"] => some .keepUp
  | ["keepDown"] => some .keepDown
  | ["keepStrange"] => some .keepStrange
  | ["keepCharm"] => some .keepCharm
  | ["keepBottom"] => some .keepBottom
  | ["keepTop"] => some .keepTop
  | ["removePhotons"] => some .removePhotons
  | _ => none

def showIds (evs : Evs Float) : String :=
  if evs.isEmpty then "-" else
  "|".intercalate (evs.map (fun ev => if ev.isEmpty then "." else ",".intercalate (ev.map (fun p => toString p.id))))

def showErr : Err → String
  | .type => "err type" | .value => "err value" | .name => "err name"

def runCall (c : Call Float) (evs : Evs Float) : Except Err (Evs Float) := applyCall Float.ofNat c evs

end SparkxVerif.Flt.Proto
