/-
C02, tie T — what the GENERATED selection arithmetic (`Gen/ReaderSelGen.lean`, written by
`harness/translate/readersel.py` from the current `loader/OscarLoader.py` / `loader/JetscapeLoader.py`) is built from,
and the readers with the selection arithmetic as a parameter.  Hand-written, no Mathlib.

* primitives the translator emits: `eBind` (sequencing of a step that can raise), `pyRangeI` (`range(lo, hi)`),
  `forAcc` (`for i in range(..): acc = body(i, acc)`, stops at the first exception), `npSumCol1`
  (`np.sum(rows, axis=0)[1]`), `npLen` (`len(rows)`); row access is the shared `Rd.npRow` (numpy index check, negative
  indices wrap), slicing the shared `Rd.npSlice`, list indexing `RdSel.pyGet`;
* `SelArith` : the selection arithmetic of one loader (validation of `events`, `_get_num_skip_lines`,
  `__get_num_read_lines`, the bookkeeping prelude of `set_particle_list`, JETSCAPE's `first_event_header`);
* `readOscarWith`, `readJetscapeWith` : `Rd.readOscar` / `Rd.readJetscape` with that arithmetic as a parameter — the line
  loop (`oscarLoop`, `jetscapeLoop`, `closeEvent`, `finish`) is the shared hand-written mirror;
  `coreOscar` / `coreJetscape` are the hand-written arithmetic of `Core/Reader.lean`, and
  `readOscarWith coreOscar = readOscar` (`Lemmas/ReaderSelGenGen.lean`);
* `loadedIndices` : what the Oscar loop leaves in `loaded_event_indices_` when no event is removed
  (`event_index` starts at the generated value, `+= 1` per end line, appended for every kept event).
-/
import SparkxVerif.Core.ReaderSel

namespace SparkxVerif.RdSel
open SparkxVerif.Rd

/-- run `x`; an exception propagates, a value goes to `f` -/
def eBind {α β : Type} (x : Except Err α) (f : α → Except Err β) : Except Err β :=
  match x with
  | .error e => .error e
  | .ok a => f a

/-- Python `range(lo, hi)` -/
def pyRangeI (lo hi : Int) : List Int := (List.range (hi - lo).toNat).map (fun (i : Nat) => lo + (i : Int))

/-- `for i in idx: acc = body(i, acc)`; the first exception ends the loop -/
def forAcc (body : Int → Int → Except Err Int) : List Int → Int → Except Err Int
  | [], acc => .ok acc
  | i :: is, acc => eBind (body i acc) (fun acc' => forAcc body is acc')

/-- `np.sum(rows, axis=0)[1]` -/
def npSumCol1 (rows : List (Int × Int)) : Int := (rows.map (fun r => r.2)).sum

/-- `len(rows)` -/
def npLen (rows : List (Int × Int)) : Int := (rows.length : Int)

/-- `[xs[i] for i in idx]` (Python list indexing) -/
def pickAll {α : Type} (get : Int → Except Err α) : List Int → Except Err (List α)
  | [] => .ok []
  | i :: is => eBind (get i) (fun x => eBind (pickAll get is) (fun xs => .ok (x :: xs)))

/-- the selection arithmetic of one loader -/
structure SelArith where
  /-- `load`: validation of the `events` keyword -/
  valid : Sel → Except Err Unit
  /-- `_get_num_skip_lines` -/
  skip : List (Int × Int) → Sel → Except Err Int
  /-- `__get_num_read_lines` (number of `readline()` calls of the loop) -/
  nread : List (Int × Int) → Sel → Except Err Int
  /-- prelude of `set_particle_list`: rows kept in `num_output_per_event_`, `num_events_`, `first_label` -/
  prelude : List (Int × Int) → Int → Sel → Except Err (List (Int × Int) × Int × Int)
  /-- JETSCAPE: `first_event_header` (unused by the Oscar reader) -/
  firstHeader : Sel → Except Err Int

/-- `Rd.readOscar` with the selection arithmetic as a parameter -/
def readOscarWith (P : SelArith) (f : FileF) (sel : Sel) (filt : Option EvFilter) : Except Err Loaded := do
  P.valid sel
  let first ← match f.lines.head? with | some l => pure l | none => throw Err.type
  let (fmt, attrs) ← oscarFormat first
  if fmt == .extendedIC || fmt == .extendedPhotons then throw Err.type
  let numEvents ← oscarNumEvents f
  let (rows, footers) ← oscarScan f.lines
  let skip ← P.skip rows sel
  let nread ← P.nread rows sel
  if nread < 0 || skip < 0 then throw Err.index
  let body := f.lines.drop skip.toNat
  let (rowsSel, neSel, firstLabel) ← P.prelude rows numEvents sel
  let st ← oscarLoop fmt attrs filt firstLabel nread.toNat skip.toNat true body ⟨[], [], .arr2d rowsSel, 0⟩
  let (plist, ne, counts) ← finish st neSel sel
  pure { events := plist, numEvents := ne, counts := counts, fmt := some fmt, customAttrs := attrs, footers := footers }

/-- `Rd.readJetscape` with the selection arithmetic as a parameter -/
def readJetscapeWith (P : SelArith) (f : FileF) (sel : Sel) (partons : Bool) (filt : Option EvFilter) :
    Except Err Loaded := do
  jetscapeInitOk f
  P.valid sel
  let rows ← jetscapeScan partons f.lines
  let numEvents : Int := rows.length
  let skip ← P.skip rows sel
  let nread ← P.nread rows sel
  if nread < 0 || skip < 0 then throw Err.index
  let firstHeader ← P.firstHeader sel
  let body := f.lines.drop skip.toNat
  let (rowsSel, neSel, firstLabel) ← P.prelude rows numEvents sel
  let st ← jetscapeLoop filt firstLabel firstHeader nread.toNat skip.toNat true body ⟨[], [], .arr2d rowsSel, 0⟩
  let (plist, ne, counts) ← finish st neSel sel
  pure { events := plist, numEvents := ne, counts := counts, fmt := none, customAttrs := [], footers := [] }

/-- the hand-written arithmetic of `Rd.readOscar` -/
def coreOscar : SelArith where
  valid := validSel
  skip := skipLines 3 2
  nread := readLines 2
  prelude := fun rows numEvents sel =>
    .ok ((selectRows rows numEvents sel).1, (selectRows rows numEvents sel).2,
         match (selectRows rows numEvents sel).1 with | r :: _ => r.1 | [] => 0)
  firstHeader := fun _ => .ok 0

/-- the hand-written arithmetic of `Rd.readJetscape` -/
def coreJetscape : SelArith where
  valid := validSel
  skip := skipLines 1 1
  nread := fun rows sel => match readLines 1 rows sel with | .ok n => .ok (n + 1) | .error e => .error e
  prelude := fun rows numEvents sel =>
    .ok ((selectRows rows numEvents sel).1, (selectRows rows numEvents sel).2,
         match (selectRows rows numEvents sel).1 with | r :: _ => r.1 | [] => 1)
  firstHeader := fun sel => .ok (match sel with | .all => 1 | .one k => 1 + k | .range a _ => 1 + a)

/-- `loaded_event_indices_` after a load that removed no event: `event_index, event_index + 1, …` (`m` kept events) -/
def loadedIndices (start : Int) (m : Nat) : List Int := (List.range m).map (fun (i : Nat) => start + (i : Int))

end SparkxVerif.RdSel
