/-
Executable model of `sparkx.JetAnalysis` (C20).  No Mathlib.

What is NOT modelled: fastjet.  Per event the harness supplies
  * `jets`  = `sorted_by_pt(ClusterSequence(event, JetDefinition(alg, R)).inclusive_jets(0))`
              (every inclusive jet, with its `perp()`, `eta()` and four-momentum), and
  * for each of those jets the `delta_r` the code computes to every particle of the event
    (`np.sqrt(delta_eta**2 + delta_phi**2)`, in particle order).
What IS modelled, step by step as `JetAnalysis.py` does it:
  * `__initialize_and_check_parameters` (`None -> -inf / +inf / 0.0`, swapped limits, `ValueError`s),
  * where the pT lower bound (`inclusive_jets(ptmin)`) and the eta selector are applied,
  * `fill_associated_particles` (the `continue` chain on status / charge, `delta_r < R`, `ValueError` on NaN status),
  * `jet_hole_subtraction` (accumulate from `0.0` left to right, then subtract),
  * `write_jet_output` (upper pT cut on the subtracted jet, rows, mode `"w"` / `"a"`),
  * the `new_file` state machine of `perform_jet_finding`, and `read_jet_data`.
`Variant` switches between the code as repaired (`truncAtStart := true`, `holesChargedOnly := false`)
and as found (`false`, `true`); theorems are about the repaired variant, the witnesses about the other.
Everything is written once over an arbitrary carrier `α` (run at `Float`, witnesses at `Int`).
-/
import SparkxVerif.Core.Num

namespace SparkxVerif.Jets

inductive Err
  | value            -- Python `ValueError`
  deriving DecidableEq, Repr

/-- `float` extended by the two infinities the code substitutes for `None` -/
inductive Ext (α : Type)
  | ninf
  | fin (a : α)
  | pinf
  deriving DecidableEq, Repr

section order
variable {α : Type} [LT α] [LE α] [DecidableLT α] [DecidableLE α]

/-- `a < b` on extended values -/
def Ext.ltb : Ext α → Ext α → Bool
  | .ninf, .ninf => false
  | .ninf, _ => true
  | .fin _, .ninf => false
  | .fin a, .fin b => decide (a < b)
  | .fin _, .pinf => true
  | .pinf, _ => false

/-- `a <= b` on extended values -/
def Ext.leb : Ext α → Ext α → Bool
  | .ninf, _ => true
  | .fin _, .ninf => false
  | .fin a, .fin b => decide (a ≤ b)
  | .fin _, .pinf => true
  | .pinf, .pinf => true
  | .pinf, _ => false

end order

/-- four-momentum -/
structure Mom (α : Type) where
  px : α
  py : α
  pz : α
  e : α
  deriving DecidableEq, Repr

/-- a hadron as the jet code sees it; `status = none` is NaN ("not set"), `charged` is `not (charge == 0)` -/
structure Part (α : Type) where
  status : Option Int
  charged : Bool
  mom : Mom α
  deriving DecidableEq, Repr

/-- one inclusive jet delivered by fastjet, with `delta_r` to every particle of its event -/
structure Jet (α : Type) where
  pt : α
  eta : α
  mom : Mom α
  dr : List α
  deriving DecidableEq, Repr

structure Event (α : Type) where
  parts : List (Part α)
  jets : List (Jet α)
  deriving DecidableEq, Repr

/-- arguments of `perform_jet_finding` as the caller gives them -/
structure Raw (α : Type) where
  R : α
  etaA : Option α
  etaB : Option α
  ptA : Option α
  ptB : Option α
  onlyCharged : Bool

/-- `jet_R_`, `jet_eta_range_`, `jet_pT_range_` after normalisation -/
structure Params (α : Type) where
  R : α
  etaLo : Ext α
  etaHi : Ext α
  ptLo : Ext α
  ptHi : Ext α
  onlyCharged : Bool
  deriving DecidableEq, Repr

/-- a CSV row: the jet itself (index 0, momentum after hole subtraction), an associated particle
(index `i ≥ 1`, position `pid` of the particle in its event), or a row this call did not produce -/
inductive Row (α : Type)
  | jet (ev : Nat) (m : Mom α)
  | part (i : Nat) (pid : Nat) (ev : Nat)
  | other (i : Nat) (tag : Nat)
  deriving DecidableEq, Repr

/-- first CSV column -/
def Row.index {α : Type} : Row α → Nat
  | .jet _ _ => 0
  | .part i _ _ => i
  | .other i _ => i

/-- the output file: `none` = does not exist -/
abbrev FS (α : Type) := Option (List (Row α))

/-- which text of the code is modelled -/
structure Variant where
  /-- the file is emptied once before the event loop (repair 1) -/
  truncAtStart : Bool
  /-- holes are looked up with `only_charged=assoc_only_charged` (as found) instead of `False` (repair 2) -/
  holesChargedOnly : Bool
  deriving DecidableEq, Repr

def repaired : Variant := ⟨true, false⟩
def asFound : Variant := ⟨false, true⟩

inductive Sel
  | negative
  | positive
  deriving DecidableEq, Repr

/-- particle position, particle, `delta_r` to the jet under consideration -/
abbrev Triple (α : Type) := Nat × Part α × α

def triples {α : Type} (ps : List (Part α)) (ds : List α) : List (Triple α) :=
  (List.range ps.length).zip (ps.zip ds)

section model
variable {α : Type} [LT α] [LE α] [DecidableLT α] [DecidableLE α]
  [Add α] [Sub α] [Mul α] [NatCast α]

/-! ### `__initialize_and_check_parameters` -/

def zero : α := ((0 : Nat) : α)

def isNeg (o : Option α) : Bool :=
  match o with
  | none => false
  | some x => decide (x < (zero : α))

/-- `jet_eta_range_`: `None -> -inf / +inf`, interchanged unless `lower < upper` -/
def etaRange (a b : Option α) : Ext α × Ext α :=
  let el : Ext α := match a with | none => .ninf | some a => .fin a
  let eu : Ext α := match b with | none => .pinf | some b => .fin b
  if el.ltb eu then (el, eu) else (eu, el)

/-- `jet_pT_range_`: `None -> 0.0 / +inf`, interchanged unless `lower < upper` -/
def ptRange (a b : Option α) : Ext α × Ext α :=
  let pl : Ext α := match a with | none => .fin zero | some a => .fin a
  let pu : Ext α := match b with | none => .pinf | some b => .fin b
  if pl.ltb pu then (pl, pu) else (pu, pl)

def normalise (r : Raw α) : Except Err (Params α) :=
  if r.R ≤ (zero : α) then .error .value
  else if isNeg r.ptA || isNeg r.ptB then .error .value
  else .ok ⟨r.R, (etaRange r.etaA r.etaB).1, (etaRange r.etaA r.etaB).2,
            (ptRange r.ptA r.ptB).1, (ptRange r.ptA r.ptB).2, r.onlyCharged⟩

/-! ### clustering result -> jets handed to the association loop -/

/-- `cluster.inclusive_jets(self.jet_pT_range_[0])` -/
def ptOk (P : Params α) (j : Jet α) : Bool := P.ptLo.leb (.fin j.pt)

/-- `fj.SelectorEtaRange(lo, hi)` -/
def etaOk (P : Params α) (x : α) : Bool := P.etaLo.leb (.fin x) && (Ext.fin x).leb P.etaHi

def selected (P : Params α) (ev : Event α) : List (Jet α) :=
  (ev.jets.filter (ptOk P)).filter (fun j => etaOk P j.eta)

/-! ### `fill_associated_particles` -/

/-- the `continue` condition -/
def skip (sel : Sel) (only : Bool) (s : Int) (charged : Bool) : Bool :=
  (sel == .negative && decide (s ≥ 0)) || (sel == .positive && decide (s < 0)) || (only && !charged)

def fill (R : α) (sel : Sel) (only : Bool) : List (Triple α) → Except Err (List (Triple α))
  | [] => .ok []
  | t :: ts =>
    match t.2.1.status with
    | none => .error .value
    | some s =>
      if skip sel only s t.2.1.charged then fill R sel only ts
      else if t.2.2 < R then
        match fill R sel only ts with
        | .ok r => .ok (t :: r)
        | .error e => .error e
      else fill R sel only ts

/-! ### `jet_hole_subtraction` -/

def addMom (a : Mom α) (h : Mom α) : Mom α := ⟨a.px + h.px, a.py + h.py, a.pz + h.pz, a.e + h.e⟩

/-- `E = px = py = pz = 0.0; for hole in holes: E += hole.E; …` -/
def holeSum (hs : List (Triple α)) : Mom α :=
  hs.foldl (fun acc t => addMom acc t.2.1.mom) ⟨zero, zero, zero, zero⟩

def subtract (m : Mom α) (hs : List (Triple α)) : Mom α :=
  let s := holeSum hs
  ⟨m.px - s.px, m.py - s.py, m.pz - s.pz, m.e - s.e⟩

/-! ### `write_jet_output` -/

/-- fastjet `PseudoJet::perp()` = `sqrt(px*px + py*py)`; `sqrt` is a parameter -/
def perp (sqrt : α → α) (m : Mom α) : α := sqrt (m.px * m.px + m.py * m.py)

def partRows (ev : Nat) : Nat → List (Triple α) → List (Row α)
  | _, [] => []
  | i, t :: ts => Row.part i t.1 ev :: partRows ev (i + 1) ts

/-- `output_list` -/
def output (sqrt : α → α) (P : Params α) (ev : Nat) (m : Mom α) (assoc : List (Triple α)) : List (Row α) :=
  if (Ext.fin (perp sqrt m)).ltb P.ptHi then Row.jet ev m :: partRows ev 1 assoc else []

/-- `open(output_filename, "w" if new_file else "a")`, `writerows(output_list)` -/
def writeOut (f : FS α) (newFile : Bool) (out : List (Row α)) : FS α :=
  if newFile then some out else some (f.getD [] ++ out)

/-! ### `perform_jet_finding` -/

/-- `for jet in jets:` of one event; `nf` is the local `new_file` -/
def jetsLoop (V : Variant) (sqrt : α → α) (P : Params α) (i : Nat) (ev : Event α) :
    Bool → FS α → List (Jet α) → Except Err (FS α)
  | _, f, [] => .ok f
  | nf, f, j :: js =>
    match fill P.R .negative (V.holesChargedOnly && P.onlyCharged) (triples ev.parts j.dr) with
    | .error e => .error e
    | .ok holes =>
      match fill P.R .positive P.onlyCharged (triples ev.parts j.dr) with
      | .error e => .error e
      | .ok assoc =>
        let m := subtract j.mom holes
        -- `new_file = self.write_jet_output(...)` returns False
        jetsLoop V sqrt P i ev false (writeOut f nf (output sqrt P i m assoc)) js

/-- `for event, hadron_data_event in enumerate(self.hadron_data_):` from event index `i` on -/
def runEvents (V : Variant) (sqrt : α → α) (P : Params α) : Nat → FS α → List (Event α) → Except Err (FS α)
  | _, f, [] => .ok f
  | i, f, ev :: rest =>
    -- `new_file = False; if event == 0: new_file = True`
    match jetsLoop V sqrt P i ev (decide (i = 0)) f (selected P ev) with
    | .error e => .error e
    | .ok f' => runEvents V sqrt P (i + 1) f' rest

def perform (V : Variant) (sqrt : α → α) (raw : Raw α) (prior : FS α) (evs : List (Event α)) :
    Except Err (FS α) :=
  match normalise raw with
  | .error e => .error e
  | .ok P => runEvents V sqrt P 0 (if V.truncAtStart then some [] else prior) evs

/-! ### specification side (what the property says the file must contain) -/

/-- a hole of the jet: negative status, `delta_r < R` — charged or not -/
def isHole (R : α) (t : Triple α) : Bool :=
  (match t.2.1.status with | some s => decide (s < 0) | none => false) && decide (t.2.2 < R)

/-- an associated particle: non-negative status, charged if only charged ones are requested, `delta_r < R` -/
def isAssoc (R : α) (only : Bool) (t : Triple α) : Bool :=
  (match t.2.1.status with | some s => decide (0 ≤ s) | none => false)
    && (!only || t.2.1.charged) && decide (t.2.2 < R)

def specHoles (P : Params α) (ev : Event α) (j : Jet α) : List (Triple α) :=
  (triples ev.parts j.dr).filter (isHole P.R)

def specAssoc (P : Params α) (ev : Event α) (j : Jet α) : List (Triple α) :=
  (triples ev.parts j.dr).filter (isAssoc P.R P.onlyCharged)

/-- clustered momentum minus the holes, component by component -/
def specMom (P : Params α) (ev : Event α) (j : Jet α) : Mom α :=
  let hs := (specHoles P ev j).map (fun t => t.2.1.mom)
  ⟨j.mom.px - sumL (hs.map Mom.px), j.mom.py - sumL (hs.map Mom.py),
   j.mom.pz - sumL (hs.map Mom.pz), j.mom.e - sumL (hs.map Mom.e)⟩

/-- the rows of one jet: nothing when its pT after subtraction reaches the upper bound -/
def specJet (sqrt : α → α) (P : Params α) (i : Nat) (ev : Event α) (j : Jet α) : List (Row α) :=
  if (Ext.fin (perp sqrt (specMom P ev j))).ltb P.ptHi
  then Row.jet i (specMom P ev j) :: partRows i 1 (specAssoc P ev j) else []

/-- one group of rows per written jet, events in order starting at index `i`, jets in fastjet's order -/
def specGroupsFrom (sqrt : α → α) (P : Params α) : Nat → List (Event α) → List (List (Row α))
  | _, [] => []
  | i, ev :: rest =>
    (((selected P ev).map (specJet sqrt P i ev)).filter (fun g => !g.isEmpty))
      ++ specGroupsFrom sqrt P (i + 1) rest

def specGroups (sqrt : α → α) (P : Params α) (evs : List (Event α)) : List (List (Row α)) :=
  specGroupsFrom sqrt P 0 evs

/-- the file the property demands -/
def specFile (sqrt : α → α) (P : Params α) (evs : List (Event α)) : List (Row α) :=
  (specGroups sqrt P evs).flatten

end model

/-! ### `read_jet_data` -/

/-- `for row in reader:` with `current_jet = cur`, `jet_data = acc` -/
def readGo {ρ : Type} (idx : ρ → Nat) : List ρ → List ρ → List (List ρ) → List (List ρ)
  | [], cur, acc => if cur.isEmpty then acc else acc ++ [cur]
  | r :: rs, cur, acc =>
    if idx r = 0 ∧ !cur.isEmpty then readGo idx rs [r] (acc ++ [cur])
    else readGo idx rs (cur ++ [r]) acc

def read {ρ : Type} (idx : ρ → Nat) (rows : List ρ) : List (List ρ) := readGo idx rows [] []

/-! ### primitives of the generated model (`Gen/Jets.lean`, tie T) — APPENDED, nothing above is changed

What the translator `harness/translate/jets.py` maps library calls of `JetAnalysis.py` to.  The fastjet entries
are the assumed contracts of DESIGN 2.3 (checked per case by the harness), written as functions of the
per-event data the model is given. -/

/-- `open(path, mode)`: `"w"` truncates, `"a"` keeps what is there -/
inductive Mode
  | w
  | a
  deriving DecidableEq, Repr

/-- `with open(path, mode, newline="") as f: csv.writer(f).writerows(rows)` (no rows: the file is only opened) -/
def FS.writeRows {α : Type} (f : FS α) (mode : Mode) (rows : List (Row α)) : FS α :=
  match mode with
  | .w => some rows
  | .a => some (f.getD [] ++ rows)

section fastjet
variable {α : Type} [LE α] [DecidableLE α]

/-- contract of `fj.sorted_by_pt(fj.ClusterSequence(<PseudoJets of all particles of the event>,
fj.JetDefinition(alg, R)).inclusive_jets(ptmin))`: the supplied jets (fastjet's pT order) with `ptmin ≤ pt` -/
def fjJets (ev : Event α) (ptmin : Ext α) : List (Jet α) :=
  ev.jets.filter (fun j => ptmin.leb (.fin j.pt))

/-- contract of `fj.SelectorEtaRange(lo, hi)(jets)`: closed window, order kept -/
def fjSelectEta (lo hi : Ext α) (js : List (Jet α)) : List (Jet α) :=
  js.filter (fun j => lo.leb (.fin j.eta) && (Ext.fin j.eta).leb hi)

end fastjet

/-- one CSV cell of the output file.  `perp / eta / phi` are fastjet's functions of a four-momentum (not
modelled); `status` / `pdg` are the particle's own attributes (`pdg` referred to by the particle's position) -/
inductive Cell (α : Type)
  | nat (n : Nat)
  | perp (m : Mom α)
  | eta (m : Mom α)
  | phi (m : Mom α)
  | val (a : α)
  | status (s : Option Int)
  | pdg (pid : Nat)
  deriving DecidableEq, Repr

/-- how `read_jet_data` converts a column -/
inductive ColType
  | int
  | float
  deriving DecidableEq, Repr

/-- the Python type a cell is written from (`int` cells are read back with `int()`, the others with `float()`) -/
def Cell.colType {α : Type} : Cell α → ColType
  | .nat _ => .int
  | .status _ => .int
  | .pdg _ => .int
  | _ => .float

/-- documented layout of a jet line: index 0, pT, eta, phi, status flag 10, pid 10, energy, event index -/
def jetCells {α : Type} (ev : Nat) (m : Mom α) : List (Cell α) :=
  [.nat 0, .perp m, .eta m, .phi m, .nat 10, .nat 10, .val m.e, .nat ev]

/-- documented layout of the line of the `i`-th associated particle of a jet of event `ev` -/
def partCells {α : Type} (i ev : Nat) (t : Triple α) : List (Cell α) :=
  [.nat i, .perp t.2.1.mom, .eta t.2.1.mom, .phi t.2.1.mom, .status t.2.1.status, .pdg t.1, .val t.2.1.mom.e, .nat ev]

/-- `read_jet_data`: conversion and source column of every field of a row, in order -/
def readCols : List (ColType × Nat) :=
  [(.int, 0), (.float, 1), (.float, 2), (.float, 3), (.int, 4), (.int, 5), (.float, 6), (.int, 7)]

section conedist
variable {α : Type} [Add α] [Sub α] [Mul α] [NatCast α]

/-- the cone distance of the property statement: `Delta R = sqrt(Delta eta ^ 2 + Delta phi ^ 2)` -/
def coneDist (sqrt : α → α) (etaP etaJ dphi : α) : α :=
  sqrt (npow (etaP - etaJ) 2 + npow dphi 2)

end conedist

end SparkxVerif.Jets
