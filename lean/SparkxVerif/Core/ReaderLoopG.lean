/-
Tie T for the line loops of the readers — what the GENERATED loop bodies (`Gen/ReaderLoop.lean`, written by
`harness/translate/readerloop.py` from the current `loader/OscarLoader.py` / `loader/JetscapeLoader.py`) are built from,
and the readers with the loop parts as parameters.  Hand-written, no Mathlib.

* `lineLoop eofErr step` : `for i in range(0, n): line = f.readline(); if not line: raise <eofErr>; <step>` — the loop
  skeleton the translator checks syntactically; `step first lineNo l st` is the generated body for a line that was read
  (`first` = `i == 0`);
* primitives of the bodies: `lenI` (`len(xs)`), `mkPart` / `mkPartJ` (`Particle(fmt, tokens[, attrs])` /
  `Particle("JETSCAPE", tokens)`: the abstract row -> particle view of the shared model, i.e. the column-count and
  token-conversion checks), the numpy operations on `num_output_per_event_` (`npSetRow`, `npDelete2d`, `npShape0`,
  `npDecLabelsFrom`, `Counts.empty`), `pyTokInt` (`int(tokens[i])`); sequencing is `RdSel.eBind`;
* `readOscarParts` / `readJetscapeParts` : `Rd.readOscar` / `Rd.readJetscape` with selection arithmetic, loop, start state,
  final check and (Oscar) `set_num_events` as parameters; at the hand-written parts they ARE the shared readers
  (`Lemmas/ReaderLoopGen.lean`);
* `TrailerLast` : the side condition of the JETSCAPE loop theorem (see there).
-/
import SparkxVerif.Core.ReaderSelG

namespace SparkxVerif.RdLoop
open SparkxVerif.Rd SparkxVerif.RdSel

/-- `len(xs)` -/
abbrev lenI {α : Type} (xs : List α) : Int := (xs.length : Int)

/-- the loop skeleton: exactly `n` lines are read; end of file raises `eofErr` -/
def lineLoop (eofErr : Err) (step : Bool → Nat → LineF → LoopSt → Except Err LoopSt) :
    Nat → Nat → Bool → List LineF → LoopSt → Except Err LoopSt
  | 0, _, _, _, st => .ok st
  | _ + 1, _, _, [], _ => .error eofErr
  | n + 1, lineNo, first, l :: ls, st =>
    eBind (step first lineNo l st) (fun st' => lineLoop eofErr step n (lineNo + 1) false ls st')

/-- `Particle(fmt, tokens, attrs)` on a line of the file: the column-count check and the conversion of every token
(`Rd.colsOk`, `Rd.fieldsOk`); the particle is kept as its line -/
def mkPart (fmt : Fmt) (attrs : List String) (lineNo : Nat) (toks : List String) : Except Err PLine :=
  if !colsOk fmt toks.length then .error .value
  else if !fieldsOk (colKinds fmt attrs toks.length) toks then .error .value
  else .ok ⟨lineNo, toks⟩

/-- `Particle("JETSCAPE", tokens)` -/
def mkPartJ (lineNo : Nat) (toks : List String) : Except Err PLine :=
  if toks.length != 7 then .error .value
  else if !fieldsOk [false, false, false, true, true, true, true] toks then .error .value
  else .ok ⟨lineNo, toks⟩

/-- `int(tokens[i])`: `IndexError` if there is no such token, `ValueError` if it is not an integer literal -/
def pyTokInt (toks : List String) (i : Nat) : Except Err Int :=
  match toks[i]? with
  | none => .error .index
  | some t => match pyInt? t with
    | none => .error .value
    | some n => .ok n

/-- `a[idx] = (x, y)` -/
def npSetRow (c : Counts) (idx : Nat) (r : Int × Int) : Except Err Counts := setRow c idx r

/-- `np.atleast_2d(np.delete(a, idx, axis=0))` -/
def npDelete2d (c : Counts) (idx : Nat) : Except Err Counts :=
  match c with
  | .arr2d rows => if idx < rows.length then .ok (.arr2d (rows.eraseIdx idx)) else .error .index
  | _ => .error .index

/-- `a.shape[0]` -/
def npShape0 (c : Counts) : Int :=
  match c with
  | .arr2d rows => (rows.length : Int)
  | .arr1d _ => 2
  | .empty => 0

/-- `a[idx:, 0] -= 1` -/
def npDecLabelsFrom (c : Counts) (idx : Nat) : Counts :=
  match c with
  | .arr2d rows => .arr2d ((rows.take idx) ++ (rows.drop idx).map (fun r => (r.1 - 1, r.2)))
  | c => c

/-- the loaders' line loops and surroundings as parameters of the Oscar reader -/
structure OscarParts where
  numEvents : FileF → Except Err Int
  init : List (Int × Int) → LoopSt
  loop : Fmt → List String → Option EvFilter → Int → Nat → Nat → Bool → List LineF → LoopSt → Except Err LoopSt
  fin : LoopSt → Int → Sel → Except Err (List (List PLine) × Int × Counts)

/-- `Rd.readOscar` with selection arithmetic and loop parts as parameters -/
def readOscarParts (P : SelArith) (Q : OscarParts) (f : FileF) (sel : Sel) (filt : Option EvFilter) :
    Except Err Loaded := do
  P.valid sel
  let first ← match f.lines.head? with | some l => pure l | none => throw Err.type
  let (fmt, attrs) ← oscarFormat first
  if fmt == .extendedIC || fmt == .extendedPhotons then throw Err.type
  let numEvents ← Q.numEvents f
  let (rows, footers) ← oscarScan f.lines
  let skip ← P.skip rows sel
  let nread ← P.nread rows sel
  if nread < 0 || skip < 0 then throw Err.index
  let body := f.lines.drop skip.toNat
  let (rowsSel, neSel, firstLabel) ← P.prelude rows numEvents sel
  let st ← Q.loop fmt attrs filt firstLabel nread.toNat skip.toNat true body (Q.init rowsSel)
  let (plist, ne, counts) ← Q.fin st neSel sel
  pure { events := plist, numEvents := ne, counts := counts, fmt := some fmt, customAttrs := attrs, footers := footers }

structure JetscapeParts where
  init : List (Int × Int) → LoopSt
  loop : Option EvFilter → Int → Int → Nat → Nat → Bool → List LineF → LoopSt → Except Err LoopSt
  fin : LoopSt → Int → Sel → Except Err (List (List PLine) × Int × Counts)

/-- `Rd.readJetscape` with selection arithmetic and loop parts as parameters -/
def readJetscapeParts (P : SelArith) (Q : JetscapeParts) (f : FileF) (sel : Sel) (partons : Bool)
    (filt : Option EvFilter) : Except Err Loaded := do
  jetscapeInitOk f
  P.valid sel
  let rows ← jetscapeScan partons f.lines
  let numEvents : Int := rows.length
  let skip ← P.skip rows sel
  let nread ← P.nread rows sel
  if nread < 0 || skip < 0 then throw Err.index
  let firstHeader ← P.firstHeader sel
  let body := f.lines.drop skip.toNat
  let (rowsSel, neSel, firstLabel) ← P.prelude rows numEvents sel
  let st ← Q.loop filt firstLabel firstHeader nread.toNat skip.toNat true body (Q.init rowsSel)
  let (plist, ne, counts) ← Q.fin st neSel sel
  pure { events := plist, numEvents := ne, counts := counts, fmt := none, customAttrs := [], footers := [] }

/-- the hand-written parts of `Rd.readOscar` -/
def coreOscarParts : OscarParts where
  numEvents := oscarNumEvents
  init := fun rowsSel => ⟨[], [], .arr2d rowsSel, 0⟩
  loop := oscarLoop
  fin := finish

/-- the hand-written parts of `Rd.readJetscape` -/
def coreJetscapeParts : JetscapeParts where
  init := fun rowsSel => ⟨[], [], .arr2d rowsSel, 0⟩
  loop := jetscapeLoop
  fin := finish

/-- a JETSCAPE trailer line as the loop tests it -/
def isTrailer (l : LineF) : Bool := l.hasHash && l.hasSigma

/-- no line follows a trailer line (`# sigmaGen …`): the source does not reset `data` after the trailer (and the stored
event stays the same list object as `data`), the shared model does; they agree on every input in which a trailer line, if
present, is the last line -/
def trailerLastB : List LineF → Bool
  | [] => true
  | l :: ls => (!isTrailer l || ls.isEmpty) && trailerLastB ls

/-- what `finish` looks at: everything but the pending `data` -/
def clearData (st : LoopSt) : LoopSt := { st with data := [] }

end SparkxVerif.RdLoop
