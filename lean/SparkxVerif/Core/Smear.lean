/-
Executable model of `Lattice3D.add_particle_data` (src/sparkx/Lattice3D.py) and of the helpers it
goes through: the constructor (`np.linspace` node coordinates, `spacing_*_`, `cell_volume_`),
`reset`, `find_closest_indices`, `get_coordinates`, `add_same_spaced_grid` with
`set/get_value_nearest_neighbor`.

Written once over any type carrying the core arithmetic / order classes; the driver runs it at
`Float`, the theorems (`Props/C16.lean`) are about the very same definitions at a linearly ordered
field.  No Mathlib here.

What is a parameter (external, supplied by the harness from the real code path):
* the kernel values `s` on the temporary lattice (scipy `multivariate_normal(...).pdf`, Gaussian or
  "covariant"), in the order of the code's `for i / for j / for k` loops; `none` = NaN;
* `num_x, num_y, num_z = round(n_sigma * sigma / spacing)` (Python `round`), as naturals.
Everything else (node coordinates, temporary lattice, normalisation, closest node, inside test,
nearest node, accumulation, reset) is computed here the way the code computes it.
-/
import SparkxVerif.Core.Num

namespace SparkxVerif.Smear

section model
variable {α : Type} [Add α] [Sub α] [Mul α] [Div α] [Neg α] [NatCast α] [LT α] [DecidableLT α]

/-- the literal `0` of the code -/
def zero : α := ((0 : Nat) : α)

/-- `abs` / `np.abs` -/
def absV (x : α) : α := if x < (zero : α) then -x else x

/-- Python `max(a, b)`: the first argument unless the second is greater -/
def maxP (a b : α) : α := if a < b then b else a

/-- Python `min(a, b)`: the first argument unless the second is smaller -/
def minP (a b : α) : α := if b < a then b else a

/-- `np.linspace(lo, hi, n)` (endpoint included): `arange(n) * step + lo`, last entry set to `hi` -/
def linspace (lo hi : α) : Nat → List α
  | 0 => []
  | 1 => [((0 : Nat) : α) * (hi - lo) + lo]
  | m + 2 =>
    let step := (hi - lo) / ((m + 1 : Nat) : α)
    (List.range (m + 1)).map (fun i => ((i : Nat) : α) * step + lo) ++ [hi]

/-- running part of `argmin`: `best` is the smallest value so far, found at index `bi`;
a later entry replaces it only when strictly smaller (numpy returns the first minimum) -/
def argminAux (best : α) (bi : Nat) : Nat → List α → Nat
  | _, [] => bi
  | i, d :: ds => if d < best then argminAux d i (i + 1) ds else argminAux best bi (i + 1) ds

/-- `np.argmin` of a one-dimensional array (first index of the minimum) -/
def argminFirst : List α → Nat
  | [] => 0
  | d :: ds => argminAux d 0 1 ds

/-- `__find_closest_index`: `np.argmin(np.abs(values - value))` -/
def closest (xs : List α) (x : α) : Nat := argminFirst (xs.map (fun v => absV (v - x)))

/-- `__get_index_nearest_neighbor` (after its range check): `np.abs(value - values).argmin()` -/
def nearest (xs : List α) (p : α) : Nat := argminFirst (xs.map (fun v => absV (p - v)))

/-- one axis of a lattice: `x_min_`, `x_max_`, `num_points_x_` -/
structure Axis (α : Type) where
  lo : α
  hi : α
  n : Nat

/-- `x_values_ = np.linspace(x_min, x_max, num_points_x)` -/
def Axis.values (A : Axis α) : List α := linspace A.lo A.hi A.n

/-- `spacing_x_ = x_values_[1] - x_values_[0]` (the code raises `TypeError` when there is one point) -/
def Axis.spacing (A : Axis α) : α := A.values.getD 1 zero - A.values.getD 0 zero

/-- the tolerance factors written in the code: `1e-9` (edge test) and `1e-3` (same-spacing test);
`1/10^9` and `1/10^3` are correctly rounded, hence the same doubles as the literals -/
def edgeTolFactor : α := ((1 : Nat) : α) / ((1000000000 : Nat) : α)
def spacingTol : α := ((1 : Nat) : α) / ((1000 : Nat) : α)

/-- coordinates of the temporary lattice along one axis:
`range_x = num_x * spacing_x_`, `Lattice3D(-range_x, range_x, …, 2*num_x+1)` -/
def tempCoords (A : Axis α) (num : Nat) : List α :=
  let r := ((num : Nat) : α) * A.spacing
  linspace (-r) r (2 * num + 1)

/-- the same-spacing test of `add_same_spaced_grid` for one axis
(`other.spacing_x_ is None or abs(self.spacing_x_ - other.spacing_x_) < 1e-3`) -/
def spacingOK (A : Axis α) (num : Nat) : Bool :=
  let ts := tempCoords A num
  if num = 0 then true
  else decide (absV (A.spacing - (ts.getD 1 zero - ts.getD 0 zero)) < (spacingTol : α))

/-- Where the temporary nodes of one axis land on the target axis, as `add_same_spaced_grid` does
it: `pos = temp_coordinate + centre` with `centre` the coordinate of the node closest to the
particle; skipped (`none`) when `pos` is outside `[x_min - tol, x_max + tol]`; otherwise clamped
into `[x_min, x_max]` and sent to its nearest node. -/
def placeAxis (A : Axis α) (num : Nat) (x : α) : List (Option Nat) :=
  let xs := A.values
  let c := xs.getD (closest xs x) zero
  let tol := (edgeTolFactor : α) * A.spacing
  (tempCoords A num).map (fun t =>
    let pos := t + c
    if pos < A.lo - tol then none
    else if A.hi + tol < pos then none
    else some (nearest xs (minP (maxP pos A.lo) A.hi)))

structure Lattice (α : Type) where
  X : Axis α
  Y : Axis α
  Z : Axis α

/-- number of nodes; the grid is kept flat in C order, as `grid_` lies in memory -/
def Lattice.size (L : Lattice α) : Nat := L.X.n * L.Y.n * L.Z.n

/-- `cell_volume_ = abs((x_max-x_min)*(y_max-y_min)*(z_max-z_min)/(nx*ny*nz))` -/
def Lattice.cellVolume (L : Lattice α) : α :=
  absV ((L.X.hi - L.X.lo) * (L.Y.hi - L.Y.lo) * (L.Z.hi - L.Z.lo) / ((L.X.n * L.Y.n * L.Z.n : Nat) : α))

/-- position of node `(a, b, c)` in the flat grid -/
def Lattice.flatIdx (L : Lattice α) (a b c : Nat) : Nat := (a * L.Y.n + b) * L.Z.n + c

/-- a particle as `add_particle_data` sees it -/
structure Part (α : Type) where
  x : α
  y : α
  z : α
  /-- the smeared quantity (`E`, `1.0`, charge, baryon number, strangeness) -/
  v : α
  numX : Nat
  numY : Nat
  numZ : Nat
  /-- kernel values on the temporary lattice in loop order; `none` = NaN -/
  s : List (Option α)

/-- the flat target index of temporary node `(i, j, k)`, or `none` when the node is skipped -/
def target (L : Lattice α) : Option Nat → Option Nat → Option Nat → Option Nat
  | some a, some b, some c => some (L.flatIdx a b c)
  | _, _, _ => none

/-- targets of all temporary nodes, in the order of `np.ndindex(other.grid_.shape)` -/
def targets (L : Lattice α) (p : Part α) : List (Option Nat) :=
  (placeAxis L.X p.numX p.x).flatMap (fun a =>
    (placeAxis L.Y p.numY p.y).flatMap (fun b =>
      (placeAxis L.Z p.numZ p.z).map (fun c => target L a b c)))

/-- content of the temporary lattice after the two loops of `add_particle_data`:
`value * s / cell_volume`, divided by `norm = Σ s` when `norm > 0` -/
def tempValues (V v : α) (ss : List α) : List α :=
  let norm := sumL ss
  ss.map (fun s => let t := v * s / V; if (zero : α) < norm then t / norm else t)

/-- the deposits `(flat target index, amount)` one particle makes, in order; `none` = the code raises
(NaN kernel value; one-point axis; different spacing; or a kernel list of the wrong length,
which the harness never sends) -/
def deposits (L : Lattice α) (p : Part α) : Option (List (Nat × α)) := do
  let ss ← p.s.mapM id
  if L.X.n < 2 ∨ L.Y.n < 2 ∨ L.Z.n < 2 then none
  else if ss.length ≠ (2 * p.numX + 1) * (2 * p.numY + 1) * (2 * p.numZ + 1) then none
  else if !(spacingOK L.X p.numX && spacingOK L.Y p.numY && spacingOK L.Z p.numZ) then none
  else
    let tmp := tempValues L.cellVolume p.v ss
    pure (((targets L p).zip tmp).filterMap (fun tw => tw.1.map (fun t => (t, tw.2))))

/-- `set_value_nearest_neighbor(pos, get_value_nearest_neighbor(pos) + amount)` -/
def addAt (g : List α) (d : Nat × α) : List α := g.modify d.1 (fun old => old + d.2)

/-- one pass of the particle loop -/
def addOne (L : Lattice α) (g : List α) (p : Part α) : Option (List α) :=
  (deposits L p).map (fun ds => ds.foldl addAt g)

/-- `reset()` -/
def reset (g : List α) : List α := g.map (fun _ => (zero : α))

/-- `add_particle_data(particle_data, sigma, quantity, kernel, add)` on a lattice whose flat content
is `g`; `none` = the call raises -/
def addParticleData (L : Lattice α) (g : List α) (ps : List (Part α)) (add : Bool) : Option (List α) :=
  ps.foldlM (addOne L) (if add then g else reset g)

/-- sum over all nodes (left to right) -/
def total (g : List α) : α := sumL g

/-- index of the node closest to the particle and the half-width of the temporary lattice fit into
the axis: `num ≤ closest ∧ closest + num ≤ n - 1` — "the kernel support lies inside the lattice" -/
def axisInside (A : Axis α) (num : Nat) (x : α) : Bool :=
  let c := closest A.values x
  decide (num ≤ c) && decide (c + num + 1 ≤ A.n)

def supportInside (L : Lattice α) (p : Part α) : Bool :=
  axisInside L.X p.numX p.x && axisInside L.Y p.numY p.y && axisInside L.Z p.numZ p.z

end model

end SparkxVerif.Smear
