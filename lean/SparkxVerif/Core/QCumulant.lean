/-
Executable model of `QCumulantFlow` (integrated `<<2>>,<<4>>,<<6>>`, cumulants, flow-from-cumulant with
the `imaginary` option, differential `<<2'>>,<<4'>>`).  Hand-written mirror of
`__Qn`, `__calculate_corr`, `__cumulant_flow`, `__flow_from_cumulant(_differential)` and
`__compute_differential_flow_bin` (values only; the error propagation formulas are not part of C11).

An event is the list of its particles' unit vectors `u_j = exp(i n phi_j)` (as `Cx`), so
`Q_{mn} = Σ_j u_j^m`.  Generic over the scalar type: run at `Float`, reasoned about at `ℝ`.
-/
import SparkxVerif.Core.Cx

namespace SparkxVerif.QC

variable {α : Type} [Add α] [Sub α] [Mul α] [Div α] [Neg α] [NatCast α]

abbrev Event (α : Type) := List (Cx α)

def nat (n : Nat) : α := ((n : Nat) : α)

/-- `mult[e] = float(len(phi[e]))` -/
def mult (e : Event α) : α := nat e.length

/-- `__Qn(phi, m*n)[e]` -/
def Qm (m : Nat) (e : Event α) : Cx α := Cx.sum (e.map (fun u => Cx.cpow u m))

/-- `M (M-1) ... (M-k+1)` as the code multiplies it out -/
def fallingW (k : Nat) (M : α) : α :=
  (List.range k).foldl (fun acc i => acc * (M - nat i)) (nat 1)

/-- `<<2>>` : `(Σ|Qn|² − ΣM) / (ΣM² − ΣM)` -/
def corr2 (evs : List (Event α)) : α :=
  (sumL (evs.map (fun e => Cx.normSq (Qm 1 e))) - sumL (evs.map mult)) /
  (sumL (evs.map (fun e => mult e * mult e)) - sumL (evs.map mult))

/-- per-event numerator of `<4>` exactly as the `k == 4` branch sums it -/
def num4 (e : Event α) : α :=
  let q := Qm 1 e
  let q2 := Qm 2 e
  let M := mult e
  let qsq := Cx.normSq q
  qsq * qsq + Cx.normSq q2 - nat 2 * (q2 * (Cx.conj q * Cx.conj q)).re
    - nat 2 * (nat 2 * (M - nat 2) * qsq - M * (M - nat 3))

/-- `<<4>>` -/
def corr4 (evs : List (Event α)) : α :=
  sumL (evs.map num4) / sumL (evs.map (fun e => mult e * (mult e - nat 1) * (mult e - nat 2) * (mult e - nat 3)))

/-- per-event `<6>_i` (`ebe_6p_corr`) -/
def ebe6 (e : Event α) : α :=
  let q := Qm 1 e
  let q2 := Qm 2 e
  let q3 := Qm 3 e
  let qc := Cx.conj q
  let M := mult e
  let norm1 := M * (M - nat 1) * (M - nat 2) * (M - nat 3) * (M - nat 4) * (M - nat 5)
  let norm2 := M * (M - nat 1) * (M - nat 2) * (M - nat 3) * (M - nat 5)
  let norm3 := M * (M - nat 1) * (M - nat 3) * (M - nat 4)
  let norm4 := (M - nat 1) * (M - nat 2) * (M - nat 3)
  let qc3 := qc * qc * qc
  let c1 := ((q * q * q * qc * qc * qc).re + nat 9 * (q2 * Cx.conj q2).re * (q * qc).re
              - nat 6 * (q2 * q * qc3).re) / norm1
  let c2 := (nat 4 * ((q3 * qc3).re - nat 3 * (q3 * Cx.conj q2 * qc).re)) / norm1
  let c3 := (nat 2 * (nat 9 * (M - nat 4) * (q2 * qc * qc).re + nat 2 * (q3 * Cx.conj q3).re)) / norm1
  let c4 := (-(nat 9) * ((q * q * qc * qc).re + (q2 * Cx.conj q2).re)) / norm2
  let c5 := (nat 18 * (q * qc).re) / norm3
  let c6 := -(nat 6) / norm4
  c1 + c2 + c3 + c4 + c5 + c6

def W6 (e : Event α) : α :=
  let M := mult e
  M * (M - nat 1) * (M - nat 2) * (M - nat 3) * (M - nat 4) * (M - nat 5)

/-- `<<6>>` : `Σ W6 <6>_i / Σ W6` -/
def corr6 (evs : List (Event α)) : α :=
  sumL (evs.map (fun e => W6 e * ebe6 e)) / sumL (evs.map W6)

/-- `QC4`, `QC6` of `__cumulant_flow`; `QC2 = <<2>>` -/
def cumulant (k : Nat) (evs : List (Event α)) : Option α :=
  match k with
  | 2 => some (corr2 evs)
  | 4 => some (corr4 evs - nat 2 * npow (corr2 evs) 2)
  | 6 => some (corr6 evs - nat 9 * corr2 evs * corr4 evs + nat 12 * npow (corr2 evs) 3)
  | _ => none

inductive Imag | zero | negative | nan
deriving DecidableEq, Repr

/-- the result of `__flow_from_cumulant`: a number, or NaN -/
inductive Flow (α : Type) | val (x : α) | nan
deriving Repr

/-- `cumulant_factor_` : `{2: 1, 4: -1, 6: 1/4}` -/
def factor (k : Nat) : α :=
  match k with
  | 2 => nat 1
  | 4 => -(nat 1)
  | _ => nat 1 / nat 4

/-- `__flow_from_cumulant`; `root x k` stands for `x ** (1/k)` on non-negative `x` -/
def flowFromCumulant [LE α] [DecidableLE α] (root : α → Nat → α) (k : Nat) (im : Imag) (cnk : α) : Flow α :=
  let v := factor k * cnk
  if nat 0 ≤ v then .val (root v k)
  else match im with
    | .negative => .val (-(nat 1) * root (-v) k)
    | .zero => .val (nat 0)
    | .nan => .nan

/-! ### differential flow (one bin) -/

/-- a particle of the full event: its unit vector and whether it is a particle of interest in this bin
(inside the bin, and of the requested species) -/
abbrev PEvent (α : Type) := List (Cx α × Bool)

def full (e : PEvent α) : Event α := e.map (·.1)
def poi (e : PEvent α) : Event α := (e.filter (·.2)).map (·.1)

/-- numerator of `<2'>_i` : `p_n Q_n^* − m_q` (complex), with `q = p` (all particles are reference particles) -/
def dnum2 (e : PEvent α) : Cx α :=
  Qm 1 (poi e) * Cx.conj (Qm 1 (full e)) - Cx.ofReal (mult (poi e))

/-- `w2 = m_p M − m_q` -/
def w2 (e : PEvent α) : α := mult (poi e) * mult (full e) - mult (poi e)

/-- `<<2'>>` : the events with `w2 = 0` contribute nothing; complex as in the code -/
def dcorr2 (evs : List (PEvent α)) : Cx α :=
  let s := Cx.sum (evs.map dnum2)
  let w := sumL (evs.map w2)
  ⟨s.re / w, s.im / w⟩

/-- numerator of `<4'>_i`, Eq. (32) as written in the code, with `q = p`, `m_q = m_p` -/
def dnum4 (e : PEvent α) : Cx α :=
  let pn := Qm 1 (poi e)
  let qn := pn
  let q2n := Qm 2 (poi e)
  let Q := Qm 1 (full e)
  let Q2 := Qm 2 (full e)
  let Qc := Cx.conj Q
  let M := mult (full e)
  let mq := mult (poi e)
  pn * Q * Qc * Qc
    - q2n * Qc * Qc
    - pn * Q * Cx.conj Q2
    - Cx.smul (nat 2 * M) (pn * Qc)
    - Cx.smul (nat 2 * mq) (Q * Qc)
    + Cx.smul (nat 7) (qn * Qc)
    - Q * Cx.conj qn
    + q2n * Cx.conj Q2
    + Cx.smul (nat 2) (pn * Qc)
    + Cx.ofReal (nat 2 * mq * M)
    - Cx.ofReal (nat 6 * mq)

/-- `w4 = (m_p M − 3 m_q)(M−1)(M−2)` -/
def w4 (e : PEvent α) : α :=
  (mult (poi e) * mult (full e) - nat 3 * mult (poi e)) * (mult (full e) - nat 1) * (mult (full e) - nat 2)

def dcorr4 (evs : List (PEvent α)) : Cx α :=
  let s := Cx.sum (evs.map dnum4)
  let w := sumL (evs.map w4)
  ⟨s.re / w, s.im / w⟩

/-- `__flow_from_cumulant_differential` (real part, as returned); `rootp x a b` stands for `x ** (a/b)` -/
def dflow [LT α] [DecidableLT α] (rootp : α → Nat → Nat → α) (k : Nat) (im : Imag) (cnk : α) (dnk : α) : Flow α :=
  match k with
  | 2 =>
    if nat 0 < cnk then .val (dnk / rootp (factor 2 * cnk) 1 2)
    else match im with
      | .negative => .val (dnk / rootp (-(factor 2) * cnk) 1 2)
      | .zero => .val (nat 0)
      | .nan => .nan
  | 4 =>
    if cnk < nat 0 then .val (-dnk / rootp (factor 4 * cnk) 3 4)
    else match im with
      | .negative => .val (-dnk / rootp (-(factor 4) * cnk) 3 4)
      | .zero => .val (nat 0)
      | .nan => .nan
  | _ => .nan

/-- differential `v'_n{2}` / `v'_n{4}` of one bin (value only) -/
def dvn [LT α] [DecidableLT α] (rootp : α → Nat → Nat → α) (k : Nat) (im : Imag)
    (evs : List (PEvent α)) : Flow α :=
  let allEv := evs.map full
  let c2 := corr2 allEv
  match k with
  | 2 => dflow rootp 2 im c2 (dcorr2 evs).re
  | 4 =>
    let d2 := dcorr2 evs
    let d4 := dcorr4 evs
    -- dn4 = corr4' − 2 corr2' <<2>>  (complex), cn4 = <<4>> − 2 <<2>>²
    let dn4re := d4.re - nat 2 * d2.re * c2
    let cn4 := corr4 allEv - nat 2 * npow c2 2
    dflow rootp 4 im cn4 dn4re
  | _ => .nan

end SparkxVerif.QC
