/-
Executable model of `sparkx.Histogram` (src/sparkx/Histogram.py).  No Mathlib.

One generic carrier `α` for edges, values, weights, contents (the driver runs it at `Float`, the
theorems at an ordered field).  NaN is not a value of the carrier: where the code tests
`np.isnan` the argument is an `Option α` with `none` = NaN.

Every per-histogram numpy array (`histograms_`, `histograms_raw_count_`, `error_`, `scaling_`,
`systematic_error_`) is a list of rows.  `number_of_bins_`, `number_of_histograms_` are kept as
separate fields exactly as the class does, so the *shape* of the arrays is a property of the state
that has to be proved (`Shape` in Props/C10), not something the representation grants.

An operation returns `(state after the call, none | some error)`: a Python exception does not roll
anything back, so the state component is whatever the call had already mutated (`make_density`
after `statistical_error()`, a weight list with a NaN in the middle).  Where numpy itself would
refuse an operation because the array shapes do not fit, the model answers `Err.shape`/`Err.index`
with the state unchanged; these branches are unreachable from well-shaped states
(`C10.step_total`).

External contracts (DESIGN §2.3): `np.digitize(v, edges) = #{e ∈ edges | e ≤ v}` for increasing
edges; `np.delete/insert/vstack`, `np.average(axis=0, weights)` = Σ w x / Σ w, `np.sqrt` (a
parameter `sqrt`).
-/
import SparkxVerif.Core.Num
import SparkxVerif.Gen.HistWrite

namespace SparkxVerif.Hist
open SparkxVerif.Gen.HistWrite

inductive Err where
  | value | type | index | shape | zerodiv | key
  deriving DecidableEq, Repr

def Err.tag : Err → String
  | .value => "value" | .type => "type" | .index => "index"
  | .shape => "shape" | .zerodiv => "zerodiv" | .key => "key"

structure State (α : Type) where
  nBins : Nat                 -- number_of_bins_
  nHist : Nat                 -- number_of_histograms_
  edges : List α              -- bin_edges_
  hist : List (List α)        -- histograms_
  raw : List (List α)         -- histograms_raw_count_
  err : List (List α)         -- error_
  scal : List (List α)        -- scaling_
  sys : List (List α)         -- systematic_error_

abbrev Res (α : Type) := State α × Option Err

/-- weight argument of `add_value` for a list of values -/
inductive WArg (α : Type) where
  | none
  | scalar (w : Option α)
  | list (ws : List (Option α))

inductive Op (α : Type) where
  | fill (v : Option α) (w : Option (Option α))     -- add_value(scalar[, weight=scalar])
  | fillList (vs : List (Option α)) (w : WArg α)    -- add_value(list/array[, weight=...])
  | addHist                                         -- add_histogram()
  | scale (c : α)                                   -- scale_histogram(number)
  | scaleList (cs : List α)                         -- scale_histogram(list/array)
  | statErr                                         -- statistical_error()
  | makeDensity                                     -- make_density()
  | setErr (es : List α)                            -- set_error(list)
  | setSys (es : List α)                            -- set_systematic_error(list)
  | addBin (i : Int) (e : α)                        -- add_bin(index, bin_edge)
  | removeBin (i : Int)                             -- remove_bin(index)
  | average                                         -- average()
  | averageW (ws : List α)                          -- average_weighted(weights)
  | averageByErr                                    -- average_weighted_by_error()

section
variable {α : Type} [Add α] [Sub α] [Mul α] [Div α] [NatCast α]
  [LE α] [LT α] [DecidableLE α] [DecidableLT α]

def zero : α := ((0 : Nat) : α)
def one : α := ((1 : Nat) : α)
def two : α := ((2 : Nat) : α)

/-- `x == 0` (false for NaN at `Float`, like numpy) -/
def isZero (x : α) : Bool := decide (x ≤ (zero : α)) && decide ((zero : α) ≤ x)

def sq (x : α) : α := x * x

/-! ### small array helpers -/

def modifyLast {β : Type} (f : β → β) : List β → List β
  | [] => []
  | [x] => [f x]
  | x :: y :: r => x :: modifyLast f (y :: r)

def lastRow {β : Type} (a : List (List β)) : List β := a.getLast?.getD []

/-- `row[i] += w` -/
def addAt : List α → Nat → α → List α
  | [], _, _ => []
  | x :: xs, 0, w => (x + w) :: xs
  | x :: xs, i + 1, w => x :: addAt xs i w

/-- all rows have `n` columns -/
def rowsHave (n : Nat) (a : List (List α)) : Bool := a.all (fun r => r.length == n)

def col (a : List (List α)) (j : Nat) : List α := a.map (fun r => r.getD j zero)

def ncols (a : List (List α)) : Nat := (a.head?.map List.length).getD 0

/-! ### binning -/

/-- `np.digitize(v, edges)` for increasing `edges` -/
def digitize (edges : List α) (v : α) : Nat := (edges.filter (fun e => decide (e ≤ v))).length

/-- `bin_edges_[1:] - bin_edges_[:-1]` -/
def widths (edges : List α) : List α := List.zipWith (fun a b => b - a) edges.dropLast edges.tail

/-- `(bin_edges_[:-1] + bin_edges_[1:]) / 2.0` -/
def centers (edges : List α) : List α := List.zipWith (fun a b => (a + b) / two) edges.dropLast edges.tail

def boundsLeft (edges : List α) : List α := edges.dropLast
def boundsRight (edges : List α) : List α := edges.tail

/-- `np.linspace(lo, hi, num=n+1)`: `arange(n+1) * ((hi - lo) / n) + lo` (numpy then overwrites the last
entry with `hi`; in exact arithmetic that is the same number).  Used for the uniform-binning
theorem; the harness always hands the edges of the real object to the model. -/
def linspace (lo hi : α) (n : Nat) : List α :=
  (List.range (n + 1)).map (fun i => ((i : Nat) : α) * ((hi - lo) / ((n : Nat) : α)) + lo)

/-- constructor with a list / array of edges -/
def init (edges : List α) : State α :=
  let n := edges.length - 1
  { nBins := n, nHist := 1, edges := edges,
    hist := [List.replicate n zero], raw := [List.replicate n zero],
    err := [List.replicate n zero], scal := [List.replicate n one],
    sys := [List.replicate n zero] }

/-! ### filling -/

/-- the scalar branch of `add_value` once value and weight passed the NaN tests -/
def fillCore (s : State α) (v w : α) : State α :=
  let b := digitize s.edges v
  if b = 0 ∨ b > s.nBins then s
  else { s with hist := modifyLast (fun r => addAt r (b - 1) w) s.hist,
                raw := modifyLast (fun r => addAt r (b - 1) w) s.raw }

def fill (s : State α) : Option α → Option (Option α) → Res α
  | _, some none => (s, some .value)
  | none, _ => (s, some .value)
  | some v, none => (fillCore s v one, none)
  | some v, some (some w) => (fillCore s v w, none)

/-- the loop `for element, w in zip(value, weight): self.add_value(element, weight=w)`:
stops at the first NaN weight, keeping what was filled before -/
def fillSeq (s : State α) : List (α × Option α) → Res α
  | [] => (s, none)
  | (_, none) :: _ => (s, some .value)
  | (v, some w) :: r => fillSeq (fillCore s v w) r

def allSome {β : Type} : List (Option β) → Option (List β)
  | [] => some []
  | none :: _ => none
  | some x :: r => (allSome r).map (x :: ·)

def fillList (s : State α) (vs : List (Option α)) : WArg α → Res α
  | .none =>
    match allSome vs with
    | none => (s, some .value)
    | some xs => (xs.foldl (fun s v => fillCore s v one) s, none)
  | .scalar _ => (s, some .value)
  | .list ws =>
    if ws.length ≠ vs.length then (s, some .value) else
    match allSome vs with
    | none => (s, some .value)
    | some xs => fillSeq s (xs.zip ws)

/-! ### scaling, errors, density -/

def scale (s : State α) (c : α) : Res α :=
  if c < (zero : α) then (s, some .value) else
  ({ s with hist := modifyLast (fun r => r.map (· * c)) s.hist,
            scal := modifyLast (fun r => r.map (· * c)) s.scal,
            err := modifyLast (fun r => r.map (· * c)) s.err }, none)

def mulRow (r cs : List α) : List α := List.zipWith (· * ·) r cs

def scaleList (s : State α) (cs : List α) : Res α :=
  if cs.any (fun c => decide (c < (zero : α))) then (s, some .value)
  else if cs.length ≠ s.nBins then (s, some .value)
  else if cs.length ≠ (lastRow s.hist).length then (s, some .value)
  else if (lastRow s.scal).length ≠ cs.length ∨ (lastRow s.err).length ≠ cs.length then (s, some .shape)
  else
  ({ s with hist := modifyLast (fun r => mulRow r cs) s.hist,
            scal := modifyLast (fun r => mulRow r cs) s.scal,
            err := modifyLast (fun r => mulRow r cs) s.err }, none)

def sameShape (a b : List (List α)) : Bool :=
  a.length == b.length && (List.zipWith (fun x y => x.length == y.length) a b).all id

/-- `statistical_error()`: `error_[k] = sqrt(histograms_[k])` for every histogram -/
def statErr (sqrt : α → α) (s : State α) : Res α :=
  if sameShape s.err s.hist then ({ s with err := s.hist.map (fun r => r.map sqrt) }, none)
  else (s, some .shape)

/-- `make_density()`: `density = last / widths; integral = sum(density * widths)`, zero test,
`statistical_error()`, then `scale_histogram((1 / integral) / widths)` -/
def makeDensity (sqrt : α → α) (s : State α) : Res α :=
  if s.nHist = 0 then (s, some .value) else
  let last := lastRow s.hist
  let w := widths s.edges
  if last.length ≠ w.length then (s, some .value) else
  let density := List.zipWith (· / ·) last w
  let integral := sumL (List.zipWith (· * ·) density w)
  if isZero integral then (s, some .value) else
  let sf : α := one / integral
  match statErr sqrt s with
  | (s1, some e) => (s1, some e)
  | (s1, none) => scaleList s1 (w.map (fun x => sf / x))

/-- `make_density()` as it was before the repair (scalar factor `1 / integral` only); kept for the
witness theorem `C09.legacy_density_witness`, not used by `step` -/
def makeDensityLegacy (sqrt : α → α) (s : State α) : Res α :=
  if s.nHist = 0 then (s, some .value) else
  let last := lastRow s.hist
  let w := widths s.edges
  if last.length ≠ w.length then (s, some .value) else
  let density := List.zipWith (· / ·) last w
  let integral := sumL (List.zipWith (· * ·) density w)
  if isZero integral then (s, some .value) else
  let sf : α := one / integral
  match statErr sqrt s with
  | (s1, some e) => (s1, some e)
  | (s1, none) => scale s1 sf

def setErr (s : State α) (es : List α) : Res α :=
  if es.length ≠ s.nBins then (s, some .value)
  else if s.err = [] then (s, some .index)
  else if (lastRow s.err).length ≠ es.length then (s, some .shape)
  else ({ s with err := modifyLast (fun _ => es) s.err }, none)

def setSys (s : State α) (es : List α) : Res α :=
  if es.length ≠ s.nBins then (s, some .value)
  else if s.sys = [] then (s, some .index)
  else if (lastRow s.sys).length ≠ es.length then (s, some .shape)
  else ({ s with sys := modifyLast (fun _ => es) s.sys }, none)

/-! ### structure: histograms and bins -/

def addHist (s : State α) : Res α :=
  if !(rowsHave s.nBins s.hist && rowsHave s.nBins s.raw && rowsHave s.nBins s.scal
        && rowsHave s.nBins s.err && rowsHave s.nBins s.sys) then (s, some .shape)
  else
  ({ s with hist := s.hist ++ [List.replicate s.nBins zero],
            raw := s.raw ++ [List.replicate s.nBins zero],
            scal := s.scal ++ [List.replicate s.nBins one],
            err := s.err ++ [List.replicate s.nBins zero],
            sys := s.sys ++ [List.replicate s.nBins zero],
            nHist := s.nHist + 1 }, none)

/-- every row has a column `k` -/
def rowsReach (k : Nat) (a : List (List α)) : Bool := a.all (fun r => decide (k < r.length))

def removeBin (s : State α) (i : Int) : Res α :=
  if i < 0 ∨ i ≥ (s.nBins : Int) then (s, some .value) else
  let k := i.toNat
  if !(decide (k < s.edges.length) && rowsReach k s.hist && rowsReach k s.err && rowsReach k s.raw
        && rowsReach k s.sys && rowsReach k s.scal) then (s, some .index)
  else
  ({ s with nBins := s.nBins - 1,
            edges := s.edges.eraseIdx k,
            hist := s.hist.map (fun r => r.eraseIdx k),
            err := s.err.map (fun r => r.eraseIdx k),
            raw := s.raw.map (fun r => r.eraseIdx k),
            sys := s.sys.map (fun r => r.eraseIdx k),
            scal := s.scal.map (fun r => r.eraseIdx k) }, none)

/-- every row can take an insertion at `k` -/
def rowsAdmit (k : Nat) (a : List (List α)) : Bool := a.all (fun r => decide (k ≤ r.length))

def addBin (s : State α) (i : Int) (e : α) : Res α :=
  if i < 0 ∨ i ≥ (s.edges.length : Int) then (s, some .value) else
  let k := i.toNat
  if decide (k > 0) && (match s.edges[k - 1]? with | some x => decide (e ≤ x) | none => false) then (s, some .value)
  else if (match s.edges[k]? with | some x => decide (x ≤ e) | none => false) then (s, some .value)
  else if !(rowsAdmit k s.hist && rowsAdmit k s.err && rowsAdmit k s.raw && rowsAdmit k s.sys
        && rowsAdmit k s.scal) then (s, some .index)
  else
  ({ s with nBins := s.nBins + 1,
            edges := s.edges.insertIdx k e,
            hist := s.hist.map (fun r => r.insertIdx k zero),
            err := s.err.map (fun r => r.insertIdx k zero),
            raw := s.raw.map (fun r => r.insertIdx k zero),
            sys := s.sys.map (fun r => r.insertIdx k zero),
            scal := s.scal.map (fun r => r.insertIdx k one) }, none)

/-! ### averaging -/

/-- `np.average(a, axis=0, weights=W)` for a weight array `W` of the shape of `a`:
column `j` ↦ `Σ_h a[h][j]·W[h][j] / Σ_h W[h][j]` -/
def wavgCols (W a : List (List α)) : List α :=
  (List.range (ncols a)).map (fun j => sumL (List.zipWith (· * ·) (col a j) (col W j)) / sumL (col W j))

/-- a 1-D weight vector broadcast over the columns of `a` -/
def bcast (ws : List α) (a : List (List α)) : List (List α) := ws.map (fun w => List.replicate (ncols a) w)

/-- `np.sum(a, axis=0)` -/
def colSums (a : List (List α)) : List α := (List.range (ncols a)).map (fun j => sumL (col a j))

def averageW (sqrt : α → α) (s : State α) (ws : List α) : Res α :=
  if ws.length ≠ s.hist.length then (s, some .value)
  else if isZero (sumL ws) then (s, some .zerodiv)
  else if !(s.sys.length == ws.length && ncols s.sys == ncols s.hist) then (s, some .shape)
  else
  let avg := wavgCols (bcast ws s.hist) s.hist
  let var := wavgCols (bcast ws s.hist) (s.hist.map (fun r => List.zipWith (fun x m => sq (x - m)) r avg))
  ({ s with hist := [avg],
            err := [var.map sqrt],
            sys := [(wavgCols (bcast ws s.sys) (s.sys.map (fun r => r.map sq))).map sqrt],
            raw := [colSums s.raw],
            scal := [s.scal.headD []],
            nHist := 1 }, none)

def averageByErr (sqrt : α → α) (s : State α) : Res α :=
  if s.err.any (fun r => r.any isZero) then (s, some .type)
  else if !(sameShape s.err s.hist && sameShape s.sys s.hist) then (s, some .shape)
  else
  let W := s.err.map (fun r => r.map (fun e => (one : α) / sq e))
  if (colSums W).any isZero then (s, some .zerodiv) else
  ({ s with hist := [wavgCols W s.hist],
            err := [(colSums W).map (fun x => sqrt ((one : α) / x))],
            sys := [(wavgCols W (s.sys.map (fun r => r.map sq))).map sqrt],
            raw := [colSums s.raw],
            scal := [s.scal.headD []],
            nHist := 1 }, none)

/-! ### one step, histories -/

def step (sqrt : α → α) (s : State α) : Op α → Res α
  | .fill v w => fill s v w
  | .fillList vs w => fillList s vs w
  | .addHist => addHist s
  | .scale c => scale s c
  | .scaleList cs => scaleList s cs
  | .statErr => statErr sqrt s
  | .makeDensity => makeDensity sqrt s
  | .setErr es => setErr s es
  | .setSys es => setSys s es
  | .addBin i e => addBin s i e
  | .removeBin i => removeBin s i
  | .average => averageW sqrt s (List.replicate s.nHist one)
  | .averageW ws => averageW sqrt s ws
  | .averageByErr => averageByErr sqrt s

/-- a history: calls that raise are caught by the caller and the session goes on with whatever
state the failed call left behind -/
def run (sqrt : α → α) (s : State α) (ops : List (Op α)) : State α :=
  ops.foldl (fun s op => (step sqrt s op).1) s

/-! ### executable specification side of C09 (printed by the driver next to the model) -/

/-- `edge_i ≤ v < edge_{i+1}` -/
def inBin (edges : List α) (i : Nat) (v : α) : Bool :=
  match edges[i]?, edges[i + 1]? with
  | some a, some b => decide (a ≤ v) && decide (v < b)
  | _, _ => false

/-- the pairs of a value/weight loop that are processed before the first NaN weight -/
def prefixPairs : List (α × Option α) → List (α × α)
  | [] => []
  | (_, none) :: _ => []
  | (v, some w) :: r => (v, w) :: prefixPairs r

/-- the (value, weight) pairs a filling call adds (nothing when the call is rejected up front; the
pairs before the first NaN weight when a weight list has one) -/
def fillsOf : Op α → List (α × α)
  | .fill (some v) none => [(v, one)]
  | .fill (some v) (some (some w)) => [(v, w)]
  | .fillList vs .none => ((allSome vs).getD []).map (fun v => (v, one))
  | .fillList vs (.list ws) =>
    if ws.length ≠ vs.length then [] else
    match allSome vs with
    | some xs => prefixPairs (xs.zip ws)
    | none => []
  | _ => []

/-- weighted number of the pairs lying in bin `i` -/
def binWeight (edges : List α) (i : Nat) (fs : List (α × α)) : α :=
  sumL ((fs.filter (fun p => inBin edges i p.1)).map (fun p => p.2))

/-- factor by which a scaling call multiplies bin `i` of an `n`-bin histogram (1 when the call is rejected) -/
def scaleOf (n i : Nat) : Op α → α
  | .scale c => if c < (zero : α) then one else c
  | .scaleList cs =>
    if cs.any (fun c => decide (c < (zero : α))) ∨ cs.length ≠ n then one else cs.getD i one
  | _ => one

/-- product of the scale factors of bin `i` over a history -/
def scaleProd (n i : Nat) : List (Op α) → α
  | [] => one
  | op :: rest => scaleOf n i op * scaleProd n i rest

/-- `Σ_{fills (v,w) of the history with edge_i ≤ v < edge_{i+1}} w · Π (scale factors of later calls)` -/
def closedContent (edges : List α) (n i : Nat) : List (Op α) → α
  | [] => zero
  | op :: rest => binWeight edges i (fillsOf op) * scaleProd n i rest + closedContent edges n i rest

/-- `Σ_{fills (v,w) with edge_i ≤ v < edge_{i+1}} w` (raw counts ignore scaling) -/
def closedRaw (edges : List α) (i : Nat) : List (Op α) → α
  | [] => zero
  | op :: rest => binWeight edges i (fillsOf op) + closedRaw edges i rest

def isAddHist : Op α → Bool
  | .addHist => true
  | _ => false

/-- the calls after the last `add_histogram()` -/
def sinceLastAddHist : List (Op α) → List (Op α)
  | [] => []
  | op :: rest =>
    if rest.any isAddHist then sinceLastAddHist rest
    else if isAddHist op then rest else op :: rest

/-! ### write_to_file -/

/-- `data[...]` slot values for histogram `h`, bin `i` -/
def qty (s : State α) (h i : Nat) : Qty → Except Err α
  | .center => match (centers s.edges)[i]? with | some x => .ok x | none => .error .index
  | .low => match (boundsLeft s.edges)[i]? with | some x => .ok x | none => .error .index
  | .high => match (boundsRight s.edges)[i]? with | some x => .ok x | none => .error .index
  | .dist => match s.hist[h]? with
    | some r => (match r[i]? with | some x => .ok x | none => .error .index)
    | none => .error .index
  | .stat => match s.err[h]? with
    | some r => (match r[i]? with | some x => .ok x | none => .error .index)
    | none => .error .index
  | .sys => match s.sys[h]? with
    | some r => (match r[i]? with | some x => .ok x | none => .error .index)
    | none => .error .index

def lookup (k : String) : List (String × String) → Option String
  | [] => none
  | (a, b) :: r => if a = k then some b else lookup k r

def indexOf? (k : String) : List String → Option Nat
  | [] => none
  | a :: r => if a = k then some 0 else (indexOf? k r).map (· + 1)

abbrev Labels := List (List (String × String))

/-- the label dictionary used for histogram `idx` -/
def labelFor (labels : Labels) (idx : Nat) : Except Err (List (String × String)) :=
  let d := if singleLabelShared && !(decide (labels.length > 1)) then labels[0]? else labels[idx]?
  match d with | some d => .ok d | none => .error .index

/-- one data row: build `data`, then `[data[L.index(col)] for col in columns]` -/
def writeRow (s : State α) (cols : List String) (h i : Nat) : Except Err (List α) := do
  let data ← dataOrder.mapM (qty s h i)
  cols.mapM (fun c =>
    match indexOf? c (if selectByName then allColumns else cols) with
    | none => .error .value
    | some k => match data[k]? with | some x => .ok x | none => .error .index)

def writeBlock (s : State α) (cols : List String) (labels : Labels) (h : Nat) :
    Except Err (List String × List (List α)) := do
  let d ← labelFor labels h
  let header ← cols.mapM (fun c => match lookup c d with | some l => .ok l | none => .error .key)
  let rows ← (List.range s.nBins).mapM (writeRow s cols h)
  pure (header, rows)

/-- `write_to_file(filename, labels, columns=cols?)`: per histogram the header row and the data rows -/
def write (s : State α) (cols? : Option (List String)) (labels : Labels) :
    Except Err (List (List String × List (List α))) :=
  -- `columns is not None and not all(col in hist_labels[0].keys() for col in columns)`
  let keyCheck : Except Err Unit :=
    match cols? with
    | none => .ok ()
    | some [] => .ok ()
    | some cols =>
      match labels[0]? with
      | none => .error .index
      | some d => if cols.all (fun c => (lookup c d).isSome) then .ok () else .error .type
  match keyCheck with
  | .error e => .error e
  | .ok () =>
  if s.nHist > 1 ∧ labels.length > 1 ∧ labels.length < s.nHist then .error .value else
  let cols := cols?.getD defaultColumns
  if rejectsUnknown && !(cols.all (fun c => allColumns.contains c)) then .error .value else
  (List.range s.nHist).mapM (writeBlock s cols labels)

end

end SparkxVerif.Hist
