/-
Operations shared by the executable (Float) and the theorem (ring / field) instances of a model.
Model functions are written once, over any type carrying the core classes
`Add Sub Mul Div Neg NatCast`; the driver runs them at `Float`, the theorems are about the very
same definitions at a `CommRing` / `Field` (whose instances of these classes are the canonical ones).
No Mathlib here.
-/
namespace SparkxVerif

/-- natural power by repeated multiplication (Python `x ** k` for a literal natural `k`) -/
def npow {α : Type} [Mul α] [NatCast α] (x : α) : Nat → α
  | 0 => ((1 : Nat) : α)
  | n + 1 => npow x n * x

instance : NatCast Float := ⟨Float.ofNat⟩

/-- left-to-right sum, the order in which a Python `for` loop accumulates -/
def sumL {α : Type} [Add α] [NatCast α] (xs : List α) : α :=
  xs.foldl (· + ·) ((0 : Nat) : α)

end SparkxVerif
