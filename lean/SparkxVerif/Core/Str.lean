/-
String primitives of the reader model (shared model R), as structurally recursive functions on `List Char`.

`Core/Reader.lean` (`hasSub`, `analyse`, `pyInt?`, `isPyFloat`), `Core/ReaderProto.lean` (`fileOfText`) and
`Core/Render.lean` are defined through these; they replace `String.splitOn`, `String.toInt?`, `String.trimAscii`,
`String.replace` (whose definitions by byte positions have no usable lemmas and cannot be evaluated by the kernel) with
the same executable behaviour: Python's `pat in line`, `line.split(' ')`, text-mode line splitting on '\n',
`int(tok)`, `float(tok)` on the token alphabet.  The algebra is in `Lemmas/Str.lean`.  No Mathlib.
-/
namespace SparkxVerif.Str

/-- `p` is a prefix of the second list -/
def isPrefix : List Char → List Char → Bool
  | [], _ => true
  | _ :: _, [] => false
  | p :: ps, c :: cs => p == c && isPrefix ps cs

/-- Python `pat in s` on character lists -/
def isInfix (p : List Char) : List Char → Bool
  | [] => p.isEmpty
  | c :: cs => isPrefix p (c :: cs) || isInfix p cs

/-- put `c` in front of the first piece -/
def consHead (c : Char) : List (List Char) → List (List Char)
  | [] => [[c]]
  | h :: t => (c :: h) :: t

/-- Python `s.split(sep)` for a one-character separator (never returns `[]`) -/
def splitOnChar (sep : Char) : List Char → List (List Char)
  | [] => [[]]
  | c :: cs => if c = sep then [] :: splitOnChar sep cs else consHead c (splitOnChar sep cs)

/-- strip the blanks Lean's `String.trimAscii` strips (space, tab, CR, LF) from both ends -/
def trimWs (l : List Char) : List Char :=
  ((l.dropWhile Char.isWhitespace).reverse.dropWhile Char.isWhitespace).reverse

/-- decimal digits with single underscores between digits (Python `int`, Lean `String.toNat?`):
`last` = the previous character was a digit -/
def natDigits? : List Char → Bool → Nat → Option Nat
  | [], last, acc => if last then some acc else none
  | c :: cs, last, acc =>
    if c = '_' then (if last then natDigits? cs false acc else none)
    else if c.isDigit then natDigits? cs true (10 * acc + (c.toNat - '0'.toNat))
    else none

/-- Python `int(tok)`: blanks around, optional sign, digits -/
def pyIntL (l : List Char) : Option Int :=
  match trimWs l with
  | [] => none
  | c :: r =>
    if c = '+' then (natDigits? r false 0).map Int.ofNat
    else if c = '-' then (natDigits? r false 0).map Int.negOfNat
    else (natDigits? (c :: r) false 0).map Int.ofNat

def dropSign : List Char → List Char
  | [] => []
  | c :: r => if c = '+' || c = '-' then r else c :: r

def allDigits (l : List Char) : Bool := l.all Char.isDigit

/-- does Python `float(tok)` succeed?  (decimal / exponent notation, `inf`, `nan`, optional sign, blanks) -/
def isPyFloatL (l : List Char) : Bool :=
  let body := dropSign ((trimWs l).map Char.toLower)
  if body == ['i', 'n', 'f'] || body == ['i', 'n', 'f', 'i', 'n', 'i', 't', 'y'] || body == ['n', 'a', 'n'] then true else
  let me : List Char × Option (List Char) := match splitOnChar 'e' body with
    | [m] => (m, none)
    | [m, e] => (m, some e)
    | _ => ([], some ['x'])
  let mantOk := match splitOnChar '.' me.1 with
    | [a] => !a.isEmpty && allDigits a
    | [a, b] => (!a.isEmpty || !b.isEmpty) && allDigits a && allDigits b
    | _ => false
  let exOk := match me.2 with
    | none => true
    | some e => let e' := dropSign e; !e'.isEmpty && allDigits e'
  mantOk && exOk

end SparkxVerif.Str
