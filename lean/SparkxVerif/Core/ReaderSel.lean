/-
C02 — executable pieces on top of the shared reader model (`Core/Reader.lean`), no Mathlib:

* the *reference side* of "load everything and slice": `Sel.start/count/validFor`, `sliceLoaded`;
* what the property observes besides the loader's return values: `particleList` (a model of
  `BaseStorer.particle_list`, driven by `num_events_` and the *shape* of `num_output_per_event_`) and
  `impactLines` (`OscarLoader.impact_parameter`: one value per footer, then re-indexed by the event labels of
  the counts array);
* the constructor-filter semantics on a loaded object, `ctorFilter` (per event: apply; an event that was
  non-empty and became empty is dropped; the kept events are relabelled consecutively from the first label;
  `num_events` = number kept; nothing kept → `[[]]`, `num_events = 0`, counts `np.array([])`);
* `sliceList` — the list slicing of `ParticleObjectLoader.set_particle_list`;
* well-formedness *as observed* (`wfOscar`, `wfJetscape`): Bool-valued checks on the line observations
  (`LineF`), run by the driver on the real bytes of every generated file and used verbatim as the hypotheses
  of the theorems in `Props/C02.lean`.
-/
import SparkxVerif.Core.Reader

/-! Everything here lives in `SparkxVerif.RdSel` (other reader-family properties define objects with similar
names in `SparkxVerif.Rd`); only the three `Sel.*` functions extend `SparkxVerif.Rd.Sel` for dot notation. -/

namespace SparkxVerif.RdSel
open SparkxVerif.Rd

/-! ### selectors as windows -/

/-- index of the first selected event -/
def _root_.SparkxVerif.Rd.Sel.start : Sel → Nat
  | .all => 0
  | .one k => k.toNat
  | .range a _ => a.toNat

/-- number of selected events, for a source with `n` events -/
def _root_.SparkxVerif.Rd.Sel.count (n : Nat) : Sel → Nat
  | .all => n
  | .one _ => 1
  | .range a b => (b - a + 1).toNat

/-- "valid selector" of the property: a single index inside the source, or an inclusive range inside it -/
def _root_.SparkxVerif.Rd.Sel.validFor (n : Nat) : Sel → Bool
  | .all => true
  | .one k => decide (0 ≤ k) && decide (k < (n : Int))
  | .range a b => decide (0 ≤ a) && decide (a ≤ b) && decide (b < (n : Int))

/-- load everything, then keep events `a..b` (Python slices `[a : b+1]` of the nested list and of the counts
array; `num_events` = number of events kept) -/
def sliceLoaded (sel : Sel) (L : Loaded) : Loaded :=
  match sel with
  | .all => L
  | _ =>
    let a := sel.start
    let m := sel.count L.events.length
    { L with
      events := (L.events.drop a).take m
      numEvents := (m : Int)
      counts := match L.counts with
        | .arr2d rows => .arr2d ((rows.drop a).take m)
        | c => c }

/-! ### `BaseStorer.particle_list` -/

/-- the two shapes `particle_list()` returns -/
inductive PLOut
  | single (ps : List PLine)             -- `num_events_ == 1`: `[output_line][quantity]`
  | multi (evs : List (List PLine))      -- otherwise: `[event][output_line][quantity]`
deriving DecidableEq, Repr

/-- `[xs[i] for i in range(n)]` -/
def takeRange {α : Type} (xs : List α) (n : Int) : Except Err (List α) :=
  if n ≤ 0 then .ok []
  else if n.toNat ≤ xs.length then .ok (xs.take n.toNat)
  else .error .index

/-- `BaseStorer.particle_list` : `num_output_per_event_[0][1]` when `num_events_ == 1`, else
`num_output_per_event_[:, 1]` (needs a 2-D array) and one row per event `0 … num_events_-1`.
`guard` = the method starts with `if num_events == 0: return []` (read off the source on every run:
`Gen/ParticleList.lean`, `zeroEventsGuard`) -/
def particleList (guard : Bool) (ne : Int) (c : Counts) (evs : List (List PLine)) : Except Err PLOut :=
  if guard && ne == 0 then .ok (.multi []) else
  match c with
  | .arr2d rows =>
    if ne == 1 then
      match rows with
      | [] => .error .index
      | r :: _ =>
        match takeRange (evs.headD []) r.2 with
        | .ok ps => .ok (.single ps)
        | .error e => .error e
    else
      match (List.range ne.toNat).mapM (fun i =>
          match rows[i]? with
          | none => Except.error Err.index
          | some r => takeRange (evs.getD i []) r.2) with
      | .ok es => .ok (.multi es)
      | .error e => .error e
  | _ => .error .index

def particleListOk (guard : Bool) (ne : Int) (c : Counts) (evs : List (List PLine)) : Bool :=
  match particleList guard ne c evs with
  | .ok _ => true
  | .error _ => false

/-! ### `OscarLoader.impact_parameter` -/

/-- Python `xs[i]` on a list (negative indices wrap) -/
def pyGet {α : Type} (xs : List α) (i : Int) : Except Err α :=
  let n : Int := xs.length
  let j := if i < 0 then i + n else i
  if j < 0 || j ≥ n then .error .index else
  match xs[j.toNat]? with | some x => .ok x | none => .error .index

/-- the footer line each held event's impact parameter is taken from: `[impact[i] for i in counts[:, 0]]`
(`[]` for the empty counts array) -/
def impactLines (L : Loaded) : Except Err (List String) :=
  match L.counts with
  | .arr2d rows => rows.mapM (fun r => pyGet L.footers r.1)
  | .arr1d _ => .error .index
  | .empty => .ok []

/-! ### constructor filters as an operation on a loaded object -/

/-- apply the filters to every event in order; an event that was non-empty and became empty is dropped -/
def filterEvents (f : EvFilter) : List (List PLine) → Except Err (List (List PLine))
  | [] => .ok []
  | e :: es =>
    match f e with
    | .error x => .error x
    | .ok d =>
      match filterEvents f es with
      | .error x => .error x
      | .ok rest => .ok (if d.length != 0 || e.length == 0 then d :: rest else rest)

/-- rows `(first + i, len(event i))` -/
def relabel (first : Int) : List (List PLine) → List (Int × Int)
  | [] => []
  | e :: es => (first, (e.length : Int)) :: relabel (first + 1) es

def firstLabelOf (c : Counts) : Int :=
  match c with
  | .arr2d (r :: _) => r.1
  | _ => 0

/-- select-then-filter, the constructor way -/
def ctorFilter (f : EvFilter) (L : Loaded) : Except Err Loaded :=
  match filterEvents f L.events with
  | .error x => .error x
  | .ok kept =>
    .ok { L with
          events := if kept.isEmpty then [[]] else kept
          numEvents := (kept.length : Int)
          counts := if kept.isEmpty then .empty else .arr2d (relabel (firstLabelOf L.counts) kept) }

/-! ### what the property observes -/

structure Obs where
  events : List (List PLine)
  numEvents : Int
  counts : Counts
  impacts : Except Err (List String)
  plist : Except Err PLOut

def observe (guard : Bool) (L : Loaded) : Obs :=
  { events := L.events, numEvents := L.numEvents, counts := L.counts, impacts := impactLines L,
    plist := particleList guard L.numEvents L.counts L.events }

/-! ### `ParticleObjectLoader.set_particle_list` : list slicing -/

/-- `[xs[k]]` resp. `xs[a : b+1]` after the loader's validation of the selector -/
def sliceList {α : Type} (xs : List α) : Sel → Except Err (List α)
  | .all => .ok xs
  | .one k =>
    if k < 0 then .error .value else
    match xs[k.toNat]? with
    | some x => .ok [x]
    | none => .error .index
  | .range a b =>
    if a > b then .error .value
    else if a < 0 || b < 0 then .error .value
    else .ok ((xs.take (b + 1).toNat).drop a.toNat)

/-! ### well-formed files, as observed -/

structure OEvent where
  out : LineF
  parts : List LineF
  endl : LineF

def OEvent.lines (e : OEvent) : List LineF := e.out :: (e.parts ++ [e.endl])

def bodyLines (evs : List OEvent) : List LineF := evs.flatMap OEvent.lines

/-- the loop's "event header" test -/
def headerLike (l : LineF) : Bool := l.hasEvent && (l.hasOut || l.hasInSp || l.hasStart)

def tokInt (toks : List String) (i : Nat) : Option Int := (toks[i]?).bind pyInt?

/-- `# event <label> out <n>` as the scan and the loop see it -/
def isOutLine (l : LineF) (label : Int) (n : Nat) : Bool :=
  l.hasHash && l.hasOutSp && !l.hasEndSp && headerLike l &&
  tokInt l.toks 2 == some label && tokInt l.toks 4 == some (n : Int)

/-- `# event <label> end 0 impact <b> …` as the scan, the loop and `set_num_events` see it -/
def isEndLine (l : LineF) (label : Int) : Bool :=
  l.hasHash && l.hasEndSp && l.hasEnd && !headerLike l &&
  l.toks.getD 0 "" == "#" && l.toks.contains "event" && tokInt l.toks 2 == some label

/-- a particle line: no `#`, not header-like, right number of columns, every token converts -/
def isPartLine (fmt : Fmt) (attrs : List String) (l : LineF) : Bool :=
  !l.hasHash && !headerLike l && colsOk fmt l.toks.length &&
  fieldsOk (colKinds fmt attrs l.toks.length) l.toks

/-- a file-header line: the scan takes it neither for an `out` nor for an `end` line -/
def isPlainHdr (l : LineF) : Bool := !(l.hasHash && l.hasEndSp) && !(l.hasHash && l.hasOutSp)

def wfEvent (fmt : Fmt) (attrs : List String) (label : Nat) (e : OEvent) : Bool :=
  isOutLine e.out label e.parts.length && e.parts.all (isPartLine fmt attrs) && isEndLine e.endl label

/-- events labelled `base, base+1, …` -/
def wfEvents (fmt : Fmt) (attrs : List String) : Nat → List OEvent → Bool
  | _, [] => true
  | base, e :: es => wfEvent fmt attrs base e && wfEvents fmt attrs (base + 1) es

/-- an Oscar2013 / Oscar2013Extended / ASCII file `h0 :: h1 :: h2 :: bodyLines evs`: three header lines, then
events `0 … N-1`, `N ≥ 1` (everything except the equation on the lines, which is a `Prop`) -/
def wfOscarB (fmt : Fmt) (attrs : List String) (h0 h1 h2 : LineF) (evs : List OEvent) : Bool :=
  (match oscarFormat h0 with
   | .ok (fm, ats) => fm == fmt && ats == attrs
   | .error _ => false) &&
  !(fmt == .extendedIC || fmt == .extendedPhotons) &&
  isPlainHdr h0 && isPlainHdr h1 && isPlainHdr h2 &&
  !evs.isEmpty && wfEvents fmt attrs 0 evs

/-- cut `lines` into events of the given sizes -/
def splitEvents : List Nat → List LineF → Option (List OEvent × List LineF)
  | [], ls => some ([], ls)
  | n :: ns, ls =>
    match ls with
    | [] => none
    | o :: rest =>
      let parts := rest.take n
      match rest.drop n with
      | [] => none
      | e :: rest' =>
        if parts.length != n then none else
        match splitEvents ns rest' with
        | none => none
        | some (evs, r) => some (⟨o, parts, e⟩ :: evs, r)

/-- the check the driver runs on the real bytes: with the event sizes `ns` (known to the generator) the file
is well-formed as observed -/
def checkOscar (f : FileF) (ns : List Nat) : Bool :=
  match f.lines with
  | h0 :: h1 :: h2 :: body =>
    match splitEvents ns body, oscarFormat h0 with
    | some (evs, []), .ok (fmt, attrs) => wfOscarB fmt attrs h0 h1 h2 evs
    | _, _ => false
  | _ => false

/-! JETSCAPE -/

structure JEvent where
  hdr : LineF
  parts : List LineF

/-- event lines followed by the trailer -/
def jLines : List JEvent → LineF → List LineF
  | [], tr => [tr]
  | e :: es, tr => e.hdr :: (e.parts ++ jLines es tr)

def defString (partons : Bool) (l : LineF) : Bool := if partons then l.hasNPartons else l.hasNHadrons

/-- `# Event <label> weight … N_hadrons <n>` -/
def isJHdr (partons : Bool) (l : LineF) (label : Int) (n : Nat) : Bool :=
  l.hasHash && defString partons l && !l.hasSigma && l.hasEventCap && l.hasWeight &&
  tokInt l.toksTab 2 == some label && tokInt l.toksTab 8 == some (n : Int)

def isJPart (l : LineF) : Bool :=
  !l.hasHash && !(l.hasEventCap && l.hasWeight) && l.toksTab.length == 7 &&
  fieldsOk [false, false, false, true, true, true, true] l.toksTab

def isJTrailer (partons : Bool) (l : LineF) : Bool :=
  l.hasHash && l.hasSigma && !defString partons l

def wfJEvent (partons : Bool) (label : Nat) (e : JEvent) : Bool :=
  isJHdr partons e.hdr label e.parts.length && e.parts.all isJPart

/-- events labelled `base, base+1, …` -/
def wfJEvents (partons : Bool) : Nat → List JEvent → Bool
  | _, [] => true
  | base, e :: es => wfJEvent partons base e && wfJEvents partons (base + 1) es

/-- a JETSCAPE file `h0 :: jLines evs tr`: one header line, events `1 … N` (`N ≥ 1`), the `sigmaGen` trailer -/
def wfJetscapeB (partons : Bool) (h0 : LineF) (evs : List JEvent) (tr : LineF) : Bool :=
  !(h0.hasHash && defString partons h0) &&
  !evs.isEmpty && wfJEvents partons 1 evs && isJTrailer partons tr

def splitJEvents : List Nat → List LineF → Option (List JEvent × List LineF)
  | [], ls => some ([], ls)
  | n :: ns, ls =>
    match ls with
    | [] => none
    | h :: rest =>
      let parts := rest.take n
      if parts.length != n then none else
      match splitJEvents ns (rest.drop n) with
      | none => none
      | some (evs, r) => some (⟨h, parts⟩ :: evs, r)

def checkJetscape (f : FileF) (partons : Bool) (ns : List Nat) : Bool :=
  match f.lines with
  | h0 :: body =>
    match splitJEvents ns body with
    | some (evs, [tr]) => wfJetscapeB partons h0 evs tr
    | _ => false
  | _ => false

end SparkxVerif.RdSel
