/-
C01 — where a column value ends up: `Particle.__initialize_from_array` and the property getters, driven by the
tables GENERATED from the source (`Gen/Tables.lean`).

Tokens stay opaque: a `data_` slot holds `flt tok` (= `float(tok)`), `int tok` (= `int(tok)`) or is unset (NaN);
`float`/`int` themselves are Python's (trusted, sampled by the harness against `decimal`).  No Mathlib.
-/
import SparkxVerif.Gen.Tables

namespace SparkxVerif.Cols
open SparkxVerif.Gen.Tables

/-- content of one `data_` slot -/
inductive Cell
  | unset
  | flt (tok : String)
  | int (tok : String)
deriving DecidableEq, Repr

/-- one assignment of the loop: `self.data_[slot] = float|int(particle_array[col])` -/
structure Write where
  slot : Nat
  isFloat : Bool
  col : Nat
deriving DecidableEq, Repr

/-- cast chosen for an attribute key by the if / elif / else chain -/
def castIsFloat (key : String) : Bool :=
  if floatCast.contains key then true else if intCast.contains key then false else elseCastIsFloat

/-- `attribute_mapping[input_format]` as (key after the ASCII suffix, slot, column); `none` = `KeyError`
(unknown format, or an ASCII attribute missing in "Allfields") -/
def mappingFor (fmt : String) (attrs : List String) : Option (List (String × Nat × Nat)) :=
  if fmt == "ASCII" then
    match mapping.lookup "Allfields" with
    | none => none
    | some all => attrs.mapM (fun a => (all.lookup a).map (fun sc => (a ++ "_", sc.1, attrs.idxOf a)))
  else mapping.lookup fmt

/-- the column-count condition -/
def lenOk (fmt : String) (n mapLen : Nat) : Bool :=
  fmt == "ASCII" || n == mapLen || (slackFormats.contains fmt && n ≤ mapLen && n ≥ mapLen - lenSlack)

/-- the assignments performed for a line of `n` tokens (`none` = the constructor raises) -/
def writes (fmt : String) (attrs : List String) (n : Nat) : Option (List Write) :=
  match mappingFor fmt attrs with
  | none => none
  | some m =>
    if lenOk fmt n m.length then
      some ((m.filter (fun e => !(n ≤ e.2.2))).map (fun e => ⟨e.2.1, castIsFloat e.1, e.2.2⟩))
    else none

/-- the value an assignment stores -/
def cellFor (w : Write) (t : String) : Cell := if w.isFloat then .flt t else .int t

/-- effect of one assignment on slot `s` -/
def cellStep (toks : List String) (s : Nat) (acc : Cell) (w : Write) : Cell :=
  if w.slot == s then (match toks[w.col]? with | some t => cellFor w t | none => acc) else acc

/-- `data_[s]` after the assignments (a later write to the same slot wins) -/
def cellOf (ws : List Write) (toks : List String) (s : Nat) : Cell :=
  ws.foldl (cellStep toks s) Cell.unset

/-- what a property getter returns -/
inductive GetVal
  | nan
  | float (tok : String)        -- `float(tok)`
  | int (tok : String)          -- `int(tok)` as a Python int
  | floatOfInt (tok : String)   -- raw getter on a slot written with `int(tok)` : `float(int(tok))`
  | intOfFloat (tok : String)   -- int getter on a slot written with `float(tok)` : `int(float(tok))`
  | bool (c : Cell)
deriving DecidableEq, Repr

/-- `getattr(particle, name)` (`none` = no such property) -/
def getAttr (name : String) (data : Nat → Cell) : Option GetVal :=
  match getters.lookup name with
  | none => none
  | some (slot, kind) =>
    match kind, data slot with
    | 0, .unset => some .nan
    | 0, .flt t => some (.float t)
    | 0, .int t => some (.floatOfInt t)
    | 1, .unset => some .nan
    | 1, .flt t => some (.intOfFloat t)
    | 1, .int t => some (.int t)
    | _, c => some (.bool c)

def getterSlot (name : String) : Option Nat := (getters.lookup name).map (·.1)
def getterKind (name : String) : Option Nat := (getters.lookup name).map (·.2)

/-- Python format names -/
def fmtOscar2013 := "Oscar2013"
def fmtExtended := "Oscar2013Extended"
def fmtAscii := "ASCII"
def fmtJetscape := "JETSCAPE"

/-! ### `set_oscar_format` : the chain extracted from the source, interpreted on a token list -/

def evalCond (toks : List String) : FCond → Bool
  | .len n => toks.length == n
  | .tok i s => toks.getD i "" == s
  | .ors cs => evalConds toks cs false
  | .ands cs => evalConds toks cs true
where
  evalConds (toks : List String) : List FCond → Bool → Bool
    | [], isAnd => isAnd
    | c :: cs, isAnd => if isAnd then evalCond toks c && evalConds toks cs isAnd else evalCond toks c || evalConds toks cs isAnd

/-- first branch whose condition holds -/
def evalChain (toks : List String) : List (FCond × String) → Option String
  | [] => none
  | (c, f) :: rest => if evalCond toks c then some f else evalChain toks rest

/-! ### JETSCAPE derived charge, in thirds of the elementary charge -/

/-- `self.charge = self.charge_from_pdg()` followed by the `charge` getter.
`valid` = `PDGID(pdg).is_valid`, `q3` = `PDGID(pdg).three_charge` (both parameters: the PDG tables are external).
Result: `none` = the constructor raises (`np.abs(None)`), `some none` = charge is nan, `some (some c)` = the getter
returns the integer `c`. -/
def jetCharge (valid : Bool) (q3 : Option Int) : Option (Option Int) :=
  if !valid then some none else
  match q3 with
  | none => if chargeNoneIsNan then some none else none
  | some v3 => some (some (Int.tdiv (chargeSetter3 v3) 3))

/-- the documented value: the PDG charge when it is a whole number, else three times it (quarks, diquarks) -/
def docCharge (q3 : Int) : Int := if q3 % 3 = 0 then q3 / 3 else q3

end SparkxVerif.Cols
