/-
C01 — the grammar of well-formed files, what "well-formed as observed" means, and what a reader must return.

* `OscarSpec`, `JetSpec`: the content of a file (format, header columns, per event: label, token rows, footer /
  header text; trailer).  `oscarText`, `jetText` render the text (the grammar; also the shapes written by
  `GenerateFlow.generate_dummy_*`: space-separated JETSCAPE event headers, trailer without final newline).
* `obsOscar f F`, `obsJet f F` (Bool, executable): the file `f` (as the loaders observe it, `Rd.LineF`) consists of
  exactly the lines of `F`, each line having the features and tokens of its kind.  The driver evaluates them on the
  real bytes of every generated file; the theorems of `Props/C01.lean` quantify over every `f` that satisfies them.
* `abstractOscar F`, `abstractJet F`: what a reader has to return for `F`.
* `impactParams` (mirror of `OscarLoader.impact_parameter`), `sigmaGen` (mirror of `JetscapeLoader.get_sigmaGen`),
  `particleList` (mirror of the shape logic of `BaseStorer.particle_list`).
No Mathlib.
-/
import SparkxVerif.Core.Reader

namespace SparkxVerif.Rd

/-! ### small Python helpers -/

/-- characters `str.split()` / `str.strip()` treat as white space -/
def isPyWs (c : Char) : Bool :=
  c == ' ' || c == '\t' || c == '\n' || c == '\r' || c == '\x0b' || c == '\x0c' ||
  (0x1c ≤ c.toNat && c.toNat ≤ 0x1f) || c.toNat == 0x85 || c.toNat == 0xa0 || c.toNat == 0x1680 ||
  (0x2000 ≤ c.toNat && c.toNat ≤ 0x200a) || c.toNat == 0x2028 || c.toNat == 0x2029 || c.toNat == 0x202f ||
  c.toNat == 0x205f || c.toNat == 0x3000

def wsWordsAux : List Char → List Char → List String
  | [], cur => if cur.isEmpty then [] else [String.ofList cur.reverse]
  | c :: cs, cur =>
    if isPyWs c then (if cur.isEmpty then wsWordsAux cs [] else String.ofList cur.reverse :: wsWordsAux cs [])
    else wsWordsAux cs (c :: cur)

/-- Python `s.split()` -/
def wsWords (s : String) : List String := wsWordsAux s.toList []

/-- Python `xs[i]` for a list, negative indices wrap once -/
def pyIndex {α} (xs : List α) (i : Int) : Except Err α :=
  let n : Int := xs.length
  let j := if i < 0 then i + n else i
  if j < 0 || j ≥ n then .error .index else
  match xs[j.toNat]? with | some x => .ok x | none => .error .index

/-! ### Oscar: specification of a file -/

structure OEvent where
  label : Int
  /-- particle lines as token rows -/
  parts : List (List String)
  /-- full text of the `# event L end …` line -/
  footer : String
  /-- the impact-parameter token of the footer -/
  impact : String
deriving Repr

structure OscarSpec where
  fmt : Fmt
  /-- column names of the header line -/
  cols : List String
  /-- units line and version line -/
  h2 : String
  h3 : String
  events : List OEvent
  trailingNL : Bool
deriving Repr

def headTag : Fmt → String
  | .oscar2013 => "#!OSCAR2013" | .extended => "#!OSCAR2013Extended" | .ascii => "#!ASCII"
  | .extendedIC => "#!OSCAR2013Extended" | .extendedPhotons => "#!OSCAR2013Extended"

def headToks (F : OscarSpec) : List String := headTag F.fmt :: "particle_lists" :: F.cols

def outLineText (e : OEvent) : String := s!"# event {e.label} out {e.parts.length}"

/-- SMASH's footer (`pad` = blanks between `impact` and the value) -/
def footerText (label : Int) (pad : String) (b : String) (tail : String) : String :=
  s!"# event {label} end 0 impact{pad}{b} scattering_projectile_target {tail}"

def eventLinesText (e : OEvent) : List String :=
  outLineText e :: (e.parts.map (fun r => " ".intercalate r) ++ [e.footer])

def oscarLinesText (F : OscarSpec) : List String :=
  [" ".intercalate (headToks F), F.h2, F.h3] ++ F.events.flatMap eventLinesText

def textOfLines (ls : List String) (trailingNL : Bool) : String :=
  "\n".intercalate ls ++ (if trailingNL then "\n" else "")

def oscarText (F : OscarSpec) : String := textOfLines (oscarLinesText F) F.trailingNL

/-- header name ↦ `Particle` attribute, as documented (`p0` is the energy, `time_last_coll` is `t_last_coll`) -/
def attrOf (c : String) : String :=
  if c == "p0" then "E" else if c == "time_last_coll" then "t_last_coll" else c

/-- the 22 column names of the formats (Oscar2013 = the first 12, Extended = the first 20 or all 22) -/
def allCols : List String :=
  ["t","x","y","z","mass","p0","px","py","pz","pdg","ID","charge","ncoll","form_time","xsecfac","proc_id_origin",
   "proc_type_origin","time_last_coll","pdg_mother1","pdg_mother2","baryon_number","strangeness"]

/-- attributes handed to `Particle` for an ASCII file -/
def attrsOf (F : OscarSpec) : List String :=
  match F.fmt with
  | .ascii => F.cols.map attrOf
  | _ => []

/-! ### Oscar: what the loaders observe on the lines of a well-formed file -/

/-- the header scan ignores the line -/
def notScanned (l : LineF) : Bool := !(l.hasHash && l.hasEndSp) && !(l.hasHash && l.hasOutSp)

def isHeadLine (F : OscarSpec) (l : LineF) : Bool := l.toks == headToks F && notScanned l

def tokInt (ts : List String) (i : Nat) : Option Int := (ts[i]?).bind pyInt?

/-- `# event L out N` -/
def isOutLine (l : LineF) (e : OEvent) : Bool :=
  l.hasHash && l.hasOutSp && !l.hasEndSp && l.hasEvent && l.hasOut &&
  tokInt l.toks 2 == some e.label && tokInt l.toks 4 == some (e.parts.length : Int)

/-- the loop reaches the particle branch, and every token converts -/
def isPartLine (fmt : Fmt) (attrs : List String) (l : LineF) (row : List String) : Bool :=
  !l.hasHash && !(l.hasEvent && (l.hasOut || l.hasInSp || l.hasStart)) && l.toks == row &&
  colsOk fmt row.length && fieldsOk (colKinds fmt attrs row.length) row

/-- `float(line_split[-3])` of `OscarLoader.impact_parameter` for one footer; `nl` = the line still carries its
newline (every line but a last line without final newline) -/
def impactTokOf (raw : String) (nl : Bool) : Except Err String :=
  let ts := (splitCh ' ' (raw ++ (if nl then "\n" else ""))).filter (fun t => t != "")
  if ts.length < 3 then .error .index else
  match ts[ts.length - 3]? with
  | some t => if isPyFloat t then .ok t else .error .value
  | none => .error .index

def okEq {α} [BEq α] (r : Except Err α) (x : α) : Bool :=
  match r with | .ok y => y == x | .error _ => false

/-- `# event L end 0 impact b …` -/
def isEndLine (l : LineF) (e : OEvent) : Bool :=
  l.hasHash && l.hasEndSp && l.hasEnd && !l.hasOutSp && !(l.hasEvent && (l.hasOut || l.hasInSp || l.hasStart)) &&
  l.raw == e.footer && l.toks.getD 0 "" == "#" && l.toks.contains "event" && tokInt l.toks 2 == some e.label &&
  okEq (impactTokOf l.raw true) e.impact && okEq (impactTokOf l.raw false) e.impact

def obsParts (fmt : Fmt) (attrs : List String) : List LineF → List (List String) → Bool
  | [], [] => true
  | l :: ls, r :: rs => isPartLine fmt attrs l r && obsParts fmt attrs ls rs
  | _, _ => false

def obsBody (fmt : Fmt) (attrs : List String) : List LineF → List OEvent → Bool
  | ls, [] => ls.isEmpty
  | ls, e :: es =>
    match ls with
    | [] => false
    | o :: rest =>
      match rest.drop e.parts.length with
      | [] => false
      | en :: rest' =>
        isOutLine o e && obsParts fmt attrs (rest.take e.parts.length) e.parts && isEndLine en e &&
        obsBody fmt attrs rest' es

/-- the file consists of exactly the lines of `F`, each observed as its kind -/
def obsOscar (f : FileF) (F : OscarSpec) : Bool :=
  f.trailingNL == F.trailingNL &&
  match f.lines with
  | h1 :: h2 :: h3 :: body =>
    isHeadLine F h1 && notScanned h2 && notScanned h3 && h2.raw == F.h2 && h3.raw == F.h3 &&
    obsBody F.fmt (attrsOf F) body F.events
  | _ => false

/-! ### Oscar: what must be returned -/

def mkPLines : Nat → List (List String) → List PLine
  | _, [] => []
  | s, r :: rs => ⟨s, r⟩ :: mkPLines (s + 1) rs

/-- events with the file line number of every particle (`start` = line number of the event's first comment) -/
def absOEvents : Nat → List OEvent → List (List PLine)
  | _, [] => []
  | s, e :: es => mkPLines (s + 1) e.parts :: absOEvents (s + e.parts.length + 2) es

def abstractOscar (F : OscarSpec) : Loaded :=
  { events := absOEvents 3 F.events
    numEvents := F.events.length
    counts := .arr2d (F.events.map (fun e => (e.label, (e.parts.length : Int))))
    fmt := some F.fmt
    customAttrs := attrsOf F
    footers := F.events.map (·.footer) }

/-- labels are 0, 1, 2, … and there is at least one event; the header is one the format sniffing accepts -/
def wfOscar (F : OscarSpec) : Prop :=
  F.events ≠ [] ∧ (∀ i (h : i < F.events.length), (F.events[i]).label = (i : Int)) ∧
  (match F.fmt with
   | .oscar2013 => True
   | .extended => F.cols.length ≠ 13
   | .ascii => ∀ c ∈ F.cols, c ∈ allCols
   | _ => False)

def wfOscarB (F : OscarSpec) : Bool :=
  !F.events.isEmpty && (F.events.zipIdx.all (fun ei => ei.1.label == (ei.2 : Int))) &&
  (match F.fmt with
   | .oscar2013 => true
   | .extended => F.cols.length != 13
   | .ascii => F.cols.all (fun c => allCols.contains c)
   | _ => false)

/-- `float(line_split[-3])` for every footer line (`event_end_lines_`: the lines with '#' and ' end '), `i` = index of
the first line of `ls` in the file, `n` = number of lines of the file -/
def footToks (n : Nat) (nl : Bool) : Nat → List LineF → Except Err (List String)
  | _, [] => .ok []
  | i, l :: ls =>
    if l.hasHash && l.hasEndSp then do
      let t ← impactTokOf l.raw (i + 1 < n || nl)
      let ts ← footToks n nl (i + 1) ls
      pure (t :: ts)
    else footToks n nl (i + 1) ls

/-- `OscarLoader.impact_parameter` (as the tokens handed to `float`), including the re-indexing by event label -/
def impactParams (f : FileF) (L : Loaded) : Except Err (List String) := do
  let toks ← footToks f.lines.length f.trailingNL 0 f.lines
  match L.counts with
  | .empty => pure []
  | .arr1d _ => throw Err.index
  | .arr2d rows => if rows.isEmpty then pure [] else (rows.map (·.1)).mapM (pyIndex toks)

/-! ### JETSCAPE -/

structure JEvent where
  label : Int
  parts : List (List String)
  /-- full text of the `# Event L weight … N_hadrons n` line -/
  header : String
deriving Repr

structure JetSpec where
  partons : Bool
  h1 : String
  events : List JEvent
  trailer : String
  sigma : String × String
  trailingNL : Bool
deriving Repr

def jetKey (partons : Bool) : String := if partons then "N_partons" else "N_hadrons"

/-- event header with separator `sep` (tab in JETSCAPE output, blank in `GenerateFlow`) -/
def jetHeaderText (partons : Bool) (sep : String) (label : Int) (n : Nat) : String :=
  sep.intercalate ["#", "Event", toString label, "weight", "1", "EPangle", "0", jetKey partons, toString n]

def jetTrailerText (sep : String) (s : String × String) : String :=
  sep.intercalate ["#", "sigmaGen", s.1, "sigmaErr", s.2]

def jetLinesText (F : JetSpec) : List String :=
  F.h1 :: (F.events.flatMap (fun e => e.header :: e.parts.map (fun r => " ".intercalate r)) ++ [F.trailer])

def jetText (F : JetSpec) : String := textOfLines (jetLinesText F) F.trailingNL

def hasKey (partons : Bool) (l : LineF) : Bool := if partons then l.hasNPartons else l.hasNHadrons

def jetKinds : List Bool := [false, false, false, true, true, true, true]

def isJHead (partons : Bool) (l : LineF) : Bool := !(l.hasHash && hasKey partons l)

def isJHeader (partons : Bool) (l : LineF) (e : JEvent) : Bool :=
  l.hasHash && hasKey partons l && !l.hasSigma && l.hasEventCap && l.hasWeight && l.raw == e.header &&
  tokInt l.toksTab 2 == some e.label && tokInt l.toksTab 8 == some (e.parts.length : Int)

def isJPart (partons : Bool) (l : LineF) (row : List String) : Bool :=
  !(l.hasHash && hasKey partons l) && !(l.hasHash && l.hasSigma) && !(l.hasEventCap && l.hasWeight) &&
  l.toksTab == row && row.length == 7 && fieldsOk jetKinds row

/-- `JetscapeLoader.get_sigmaGen` on the (stripped) last line: the first two words `float` accepts -/
def sigmaGenOf (last : String) : Except Err (String × String) :=
  match (wsWords last).filter isPyFloat with
  | a :: b :: _ => .ok (a, b)
  | _ => .error .index

def isJTrailer (partons : Bool) (l : LineF) (F : JetSpec) : Bool :=
  l.hasHash && l.hasSigma && !hasKey partons l && l.raw == F.trailer && okEq (sigmaGenOf l.raw) F.sigma

def obsJParts (partons : Bool) : List LineF → List (List String) → Bool
  | [], [] => true
  | l :: ls, r :: rs => isJPart partons l r && obsJParts partons ls rs
  | _, _ => false

/-- event blocks followed by the trailer as the last line -/
def obsJBody (partons : Bool) (F : JetSpec) : List LineF → List JEvent → Bool
  | ls, [] => match ls with | [t] => isJTrailer partons t F | _ => false
  | ls, e :: es =>
    match ls with
    | [] => false
    | h :: rest =>
      isJHeader partons h e && obsJParts partons (rest.take e.parts.length) e.parts &&
      obsJBody partons F (rest.drop e.parts.length) es

def obsJet (f : FileF) (F : JetSpec) : Bool :=
  f.trailingNL == F.trailingNL &&
  match f.lines with
  | h1 :: body => isJHead F.partons h1 && h1.raw == F.h1 && obsJBody F.partons F body F.events
  | _ => false

def absJEvents : Nat → List JEvent → List (List PLine)
  | _, [] => []
  | s, e :: es => mkPLines (s + 1) e.parts :: absJEvents (s + e.parts.length + 1) es

def abstractJet (F : JetSpec) : Loaded :=
  { events := absJEvents 1 F.events
    numEvents := F.events.length
    counts := .arr2d (F.events.map (fun e => (e.label, (e.parts.length : Int))))
    fmt := none
    customAttrs := []
    footers := [] }

/-- the first event header carries the number 1 and no later one does (JETSCAPE numbers events 1, 2, 3, …) -/
def wfJet (F : JetSpec) : Prop :=
  ∃ e es, F.events = e :: es ∧ e.label = 1 ∧ ∀ e' ∈ es, e'.label ≠ 1

def wfJetB (F : JetSpec) : Bool :=
  match F.events with
  | e :: es => e.label == 1 && es.all (fun e' => e'.label != 1)
  | [] => false

/-- `Jetscape.get_sigmaGen` : the last line of the file -/
def sigmaGen (f : FileF) : Except Err (String × String) := do
  let l ← lastLine f
  sigmaGenOf l.raw

/-! ### `BaseStorer.particle_list` : which particles are walked, in which nesting -/

inductive PList
  | flat (rows : List PLine)               -- `num_events == 1`
  | nested (evs : List (List PLine))
deriving Repr, DecidableEq

def takeExact {α} (xs : List α) (n : Int) : Except Err (List α) :=
  if n < 0 then .ok [] else if n.toNat ≤ xs.length then .ok (xs.take n.toNat) else .error .index

/-- event `i` of `particle_list()` : the first `counts[i][1]` particles of the held event `i` -/
def plRow (rows : List (Int × Int)) (events : List (List PLine)) (i : Nat) : Except Err (List PLine) := do
  let r ← match rows[i]? with | some r => pure r | none => throw Err.index
  let ev ← match events[i]? with | some e => pure e | none => throw Err.index
  takeExact ev r.2

def particleList (L : Loaded) : Except Err PList :=
  match L.counts with
  | .arr2d rows =>
    if L.numEvents == 1 then do
      let r ← match rows.head? with | some r => pure r | none => throw Err.index
      let ev ← match L.events.head? with | some e => pure e | none => throw Err.index
      let ps ← takeExact ev r.2
      pure (.flat ps)
    else do
      if L.numEvents < 0 then pure (.nested []) else
      let evs ← (List.range L.numEvents.toNat).mapM (plRow rows L.events)
      pure (.nested evs)
  | _ => .error .index

/-! ### the text grammar (side conditions of `oscarText` / `jetText`)

`grammarOscar F` / `grammarJet F` say which specifications the renderers are meant for: numeric tokens over the alphabet
`[0-9+-.eE]` that Python converts, column names that are words other than the keywords `end` / `out`, SMASH-shaped
footers, JETSCAPE-shaped headers and trailer, free header lines that contain none of the loaders' keywords and no
newline, a non-empty version line.  The classification statement "a rendered text is observed as its own specification"
(`Props/C01.lean`: `C01_classification`, proved as `C01_classification_holds`) is about exactly these specifications.
The token predicates test `t.toList` so that the kernel can evaluate the grammar on concrete specifications. -/

def numTok (t : String) : Bool :=
  !t.isEmpty && t.toList.all (fun c => c.isDigit || c == '+' || c == '-' || c == '.' || c == 'e' || c == 'E')

def blanks (p : String) : Bool := !p.isEmpty && p.toList.all (· == ' ')

def wordTok (t : String) : Bool := !t.isEmpty && t.toList.all (fun c => c.isAlphanum || c == '_')

/-- a column name of the header line: a word that is not one of the loaders' keywords `end` / `out` (a header line
`… end …` would be taken for an event footer by the header scan) -/
def colTok (c : String) : Bool := wordTok c && c != "end" && c != "out"

def grammarOscar (F : OscarSpec) : Bool :=
  F.cols.all colTok &&
  notScanned (analyse F.h2) && notScanned (analyse F.h3) && !hasSub F.h2 "\n" && !hasSub F.h3 "\n" &&
  -- the version line is not empty (a file ending in an empty line without newline does not exist as text)
  !F.h3.isEmpty &&
  F.events.all (fun e =>
    e.parts.all (fun r => !r.isEmpty && r.all numTok && colsOk F.fmt r.length &&
      fieldsOk (colKinds F.fmt (attrsOf F) r.length) r) &&
    numTok e.impact && isPyFloat e.impact &&
    ([" ", "  ", "   "].any (fun pad => ["yes", "no"].any (fun tail => e.footer == footerText e.label pad e.impact tail))))

def grammarJet (F : JetSpec) : Bool :=
  !hasSub F.h1 (jetKey F.partons) && !hasSub F.h1 "\n" &&
  numTok F.sigma.1 && isPyFloat F.sigma.1 && numTok F.sigma.2 && isPyFloat F.sigma.2 &&
  ["\t", " "].any (fun sep => F.trailer == jetTrailerText sep F.sigma) &&
  F.events.all (fun e =>
    e.parts.all (fun r => r.length == 7 && r.all numTok && fieldsOk jetKinds r) &&
    ["\t", " "].any (fun sep => e.header == jetHeaderText F.partons sep e.label e.parts.length))

end SparkxVerif.Rd
