/-
Particle filters (`src/sparkx/Filter.py`): the hand-written half of the model.

* `Part α` — a particle as the filters see it: an identity, the integer-valued getters
  (`charge pdg ncoll status`, `none` = NaN), the float attributes / kinematic methods the cuts read
  (`none` = NaN; the *values* of the kinematic methods are C08's subject and are supplied by the
  harness from the real `Particle`), and the PDG class methods (`none` = NaN, i.e. invalid/unset PDG).
* Python semantics needed by the comprehension conditions: comparisons with NaN, `int(nan)` raising,
  truthiness of `nan`, `x in ndarray`, short-circuit `and`.
* the three loop shapes found in `Filter.py` (the translator emits which one each filter has), including
  the broken one ("`append` after the loop").
* argument normalisation preludes and the two event-level cuts.

Generic over the float type `α`: run at `Float` by the driver (NaN never appears as a payload, it is `none`),
theorems are over any linear order.  No Mathlib.
-/
namespace SparkxVerif.Flt

inductive Err | type | value | name
deriving DecidableEq, Repr

/-- a possibly-NaN value -/
abbrev XV (α : Type) := Option α

structure Part (α : Type) where
  id : Nat
  charge : XV Int
  pdg : XV Int
  ncoll : XV Int
  status : XV Int
  t : XV α
  x : XV α
  y : XV α
  z : XV α
  E : XV α
  pT : XV α
  mT : XV α
  rap : XV α
  eta : XV α
  etas : XV α
  /-- `spacetime_rapidity()` raises `ValueError` (`|z| < t` not fulfilled) -/
  etasRaises : Bool
  isHadron : Option Bool
  isLepton : Option Bool
  isQuark : Option Bool
  isMeson : Option Bool
  isBaryon : Option Bool
  hasUp : Option Bool
  hasDown : Option Bool
  hasStrange : Option Bool
  hasCharm : Option Bool
  hasBottom : Option Bool
  hasTop : Option Bool

abbrev Ev (α : Type) := List (Part α)
abbrev Evs (α : Type) := List (Ev α)

/-- a cut limit: a number or ±infinity (`None` in a cut tuple) -/
inductive Ext (α : Type) | ninf | fin (x : α) | pinf
deriving Repr

section ops
variable {α : Type} [LE α] [LT α] [DecidableLE α] [DecidableLT α]

def Ext.le : Ext α → Ext α → Bool
  | .ninf, _ => true
  | _, .pinf => true
  | .fin a, .fin b => decide (a ≤ b)
  | _, _ => false

/-- Python `max(a, b)`: returns `b` only if `b > a` -/
def Ext.pymax (a b : Ext α) : Ext α := if Ext.le b a then a else b
/-- Python `min(a, b)`: returns `b` only if `b < a` -/
def Ext.pymin (a b : Ext α) : Ext α := if Ext.le a b then a else b

/-! comparisons with NaN semantics (`none` = NaN): every ordered comparison and `==` is False, `!=` is True -/
def leEX (a : Ext α) (v : XV α) : Bool := match v with | some x => Ext.le a (.fin x) | none => false
def leXE (v : XV α) (b : Ext α) : Bool := match v with | some x => Ext.le (.fin x) b | none => false
def leFX (a : α) (v : XV α) : Bool := match v with | some x => decide (a ≤ x) | none => false
def leXF (v : XV α) (b : α) : Bool := match v with | some x => decide (x ≤ b) | none => false
end ops

def neXI (v : XV Int) (c : Int) : Bool := match v with | some x => x != c | none => true
def eqXI (v : XV Int) (c : Int) : Bool := match v with | some x => x == c | none => false
def memXI (v : XV Int) (l : List Int) : Bool := match v with | some x => l.contains x | none => false

def isnan {β : Type} (v : Option β) : Bool := v.isNone

/-- `int(x)`: raises `ValueError` on NaN -/
def intOf (v : XV Int) : Except Err Int := match v with | some x => .ok x | none => .error .value

/-- `elem.spacetime_rapidity()`: a value, NaN, or the documented `ValueError` -/
def etasOf {α : Type} (p : Part α) : Except Err (XV α) := if p.etasRaises then .error .value else .ok p.etas

/-- truthiness of a bool-or-NaN method result: NaN is truthy -/
def truthy (b : Option Bool) : Bool := b.getD true

/-- short-circuit `a and b` -/
def andE (a : Except Err Bool) (b : Unit → Except Err Bool) : Except Err Bool := do
  if (← a) then b () else pure false
def orE (a : Except Err Bool) (b : Unit → Except Err Bool) : Except Err Bool := do
  if (← a) then pure true else b ()
def notE (a : Except Err Bool) : Except Err Bool := do pure (!(← a))

section loops
variable {α : Type}

/-- `[elem for elem in ev if cond(elem)]` with a condition that may raise -/
def filterE (cond : Part α → Except Err Bool) : Ev α → Except Err (Ev α)
  | [] => pure []
  | p :: ps => do
    let keep ← cond p
    let rest ← filterE cond ps
    pure (if keep then p :: rest else rest)

/-- shape P1: `for i in range(len(pl)): pl[i] = [comprehension]` ; `return pl` -/
def loopInPlace (evs : Evs α) (cond : Part α → Except Err Bool) : Except Err (Evs α) :=
  evs.mapM (filterE cond)

/-- shape P2: `upd = []; for i …: tmp = [comprehension]; upd.append(tmp)` ; `return upd` -/
def loopAppend (evs : Evs α) (cond : Part α → Except Err Bool) : Except Err (Evs α) :=
  evs.mapM (filterE cond)

/-- broken shape: the `append` sits after the loop — only the last event's comprehension survives;
with no events the temporary is unbound (`NameError`/`UnboundLocalError`) -/
def loopAppendAfter (evs : Evs α) (cond : Part α → Except Err Bool) : Except Err (Evs α) := do
  let all ← evs.mapM (filterE cond)
  match all.getLast? with
  | some e => pure [e]
  | none => throw .name

inductive LoopShape | inPlace | append | appendAfter
deriving DecidableEq, Repr

def runLoop (s : LoopShape) (evs : Evs α) (cond : Part α → Except Err Bool) : Except Err (Evs α) :=
  match s with
  | .inPlace => loopInPlace evs cond
  | .append => loopAppend evs cond
  | .appendAfter => loopAppendAfter evs cond
end loops

/-! ### arguments -/

/-- element of a cut tuple -/
inductive WElem (α : Type) | none | num (x : α) | nonnum
deriving Repr

/-- the `cut_value_tuple` argument of `spacetime_cut / pT_cut / mT_cut / multiplicity_cut` -/
inductive WArg (α : Type) | notTuple | tuple (xs : List (WElem α))
deriving Repr

/-- the `cut_value` argument of the rapidity-like cuts: a tuple, a single number, or something else -/
inductive RArg (α : Type) | tuple (xs : List (WElem α)) | scalar (x : α) | other
deriving Repr

/-- PDG / status argument: a Python int, or a list / tuple / ndarray of ints (`elemsArePyInt = false` for
an ndarray, whose elements are `np.int64`), or something of another type -/
inductive IArg | scalar (x : Int) | list (xs : List Int) | tuple (xs : List Int) | ndarray (xs : List Int) | other
deriving Repr

section preludes
variable {α : Type} [LE α] [LT α] [DecidableLE α] [DecidableLT α] [Neg α] [Zero α]

/-- `__ensure_tuple_is_valid_else_raise_error(t, allow_none)`; on success the two entries -/
def ensureTuple (xs : List (WElem α)) (allowNone : Bool) : Except Err (Option α × Option α) :=
  match xs with
  | [a, b] =>
    match a, b with
    | .nonnum, _ => throw .value
    | _, .nonnum => throw .value
    | .num x, .num y => pure (some x, some y)          -- (warning only when x ≥ y)
    | .none, .none => throw .value                      -- both branches of allow_none raise
    | .none, .num y => if allowNone then pure (none, some y) else throw .value
    | .num x, .none => if allowNone then pure (some x, none) else throw .value
  | _ => throw .type

/-- `None -> ∓inf`, then `lim_min = min(upper, lower)`, `lim_max = max(upper, lower)` -/
def windowOf (lo hi : Option α) : Ext α × Ext α :=
  let lower : Ext α := match lo with | some x => .fin x | none => .ninf
  let upper : Ext α := match hi with | some x => .fin x | none => .pinf
  (Ext.pymin upper lower, Ext.pymax upper lower)

/-- prelude of `spacetime_cut` (after the `dim` check) -/
def preludeWindow (arg : WArg α) : Except Err (Ext α × Ext α) :=
  match arg with
  | .notTuple => throw .type
  | .tuple xs => do
    let (a, b) ← ensureTuple xs true
    pure (windowOf a b)

/-- prelude of `pT_cut`, `mT_cut`, `multiplicity_cut`: additionally rejects negative limits -/
def preludeWindowNonneg (arg : WArg α) : Except Err (Ext α × Ext α) :=
  match arg with
  | .notTuple => throw .type
  | .tuple xs => do
    let (a, b) ← ensureTuple xs true
    let neg (o : Option α) : Bool := match o with | some x => decide (x < 0) | none => false
    if neg a || neg b then throw .value
    pure (windowOf a b)

/-- tuple branch of the rapidity-like cuts: `allow_none=False`, `max/min` of the two numbers -/
def preludePair (xs : List (WElem α)) : Except Err (Ext α × Ext α) := do
  let (a, b) ← ensureTuple xs false
  match a, b with
  | some x, some y => pure (Ext.pymin (.fin x) (.fin y), Ext.pymax (.fin x) (.fin y))
  | _, _ => throw .value

/-- `np.abs(cut_value)` -/
def absF (x : α) : α := if x < 0 then -x else x
end preludes

/-! ### event-level cuts (hand-written mirror; tied by correspondence and a source-hash template) -/

section eventLevel
variable {α : Type} [LE α] [LT α] [DecidableLE α] [DecidableLT α] [Add α] [Zero α]

/-- `sum(p.E for p in ev if not isnan(p.E))`, left to right from `0` -/
def totalEnergy (ev : Ev α) : α :=
  ev.foldl (fun acc p => match p.E with | some e => acc + e | none => acc) 0

/-- `lower_event_energy_cut` (argument already a non-NaN number): positive threshold, keep events with
total energy `>=` threshold, `[[]]` if nothing is left -/
def lowerEventEnergyCut (evs : Evs α) (thr : α) : Except Err (Evs α) :=
  if thr ≤ 0 then throw .value
  else
    let kept := evs.filter (fun ev => decide (thr ≤ totalEnergy ev))
    pure (if kept.isEmpty then [[]] else kept)

/-- multiplicity as a value of the cut's number type (`len(ev)` compared with the limits) -/
def multiplicityCut (ofNat : Nat → α) (evs : Evs α) (lim : Ext α × Ext α) : Evs α :=
  let kept := evs.filter (fun ev =>
    Ext.le lim.1 (.fin (ofNat ev.length)) && !(Ext.le lim.2 (.fin (ofNat ev.length))))
  if kept.isEmpty then [[]] else kept
end eventLevel

end SparkxVerif.Flt
