/-
Line-protocol pieces shared by the reader-family drivers (C01, C02, C05, C06, C07).

  file    = hex of the file's bytes
  sel     = `all` | `one:<k>` | `range:<a>:<b>`
  filters = `-` (no `filters=` given) | `=` (empty dict) | calls joined by `+` (Core/FilterProto call encoding)
  views   = `-` | entries `lineNo=<particle encoding>` joined by `~` (the filter view of each particle line)

answer  = `ok ne=<num_events> counts=<counts> fmt=<fmt> attrs=<a,b,…> foot=<n> ev=<line numbers per event>`
          counts: `2d:l.c,l.c,…` | `1d:l.c` | `empty`;  events separated by `|`, `.` = empty event
-/
import SparkxVerif.Core.Reader
import SparkxVerif.Core.FilterProto

namespace SparkxVerif.Rd.Proto
open SparkxVerif.Proto SparkxVerif.Rd SparkxVerif.Flt

/-- text-mode reading: the lines (split at '\n', on the character list — `Core/Str.lean`) and whether the last one is
newline-terminated -/
def fileOfText (t : String) : FileF :=
  let cs := t.toList
  let pieces := splitCh '\n' t
  let trailing := cs.getLast? == some '\n'
  let ls := if trailing then pieces.dropLast else pieces
  let ls := if cs.isEmpty then [] else ls
  { lines := ls.map analyse, trailingNL := trailing }

def sel? (s : String) : Option Sel :=
  match s.splitOn ":" with
  | ["all"] => some .all
  | ["one", k] => k.toInt?.map .one
  | ["range", a, b] => do pure (.range (← a.toInt?) (← b.toInt?))
  | _ => none

def views? (s : String) : Option (List (Nat × Part Float)) :=
  if s == "-" then some [] else
  (s.splitOn "~").mapM (fun e =>
    match e.splitOn "=" with
    | [n, p] => do pure (← n.toNat?, ← Flt.Proto.part? p)
    | _ => none)

/-- `none` = no filters key; `some calls` -/
def filters? (s : String) : Option (Option (List (Call Float))) :=
  if s == "-" then some none
  else if s == "=" then some (some [])
  else ((s.splitOn "+").mapM Flt.Proto.call?).map some

/-- constructor filters on one event: every call on the one-event list `[data]`, result `[0]` -/
def evFilter (views : List (Nat × Part Float)) (calls : List (Call Float)) : EvFilter := fun data => do
  let parts ← data.mapM (fun pl => match views.lookup pl.lineNo with
    | some p => pure { p with id := pl.lineNo }
    | none => throw Err.value)
  let res ← calls.foldlM (fun (evs : Evs Float) c =>
      match Flt.Proto.runCall c evs with
      | .ok r => pure r
      | .error e => throw (ofFlt e)) [parts]
  let ev := res.headD []
  pure (ev.filterMap (fun p => data.find? (fun pl => pl.lineNo == p.id)))

def showCounts : Counts → String
  | .arr2d rows => "2d:" ++ ",".intercalate (rows.map (fun r => s!"{r.1}.{r.2}"))
  | .arr1d r => s!"1d:{r.1}.{r.2}"
  | .empty => "empty"

def showFmt : Option Fmt → String
  | some .oscar2013 => "Oscar2013" | some .extended => "Oscar2013Extended" | some .extendedIC => "Oscar2013Extended_IC"
  | some .extendedPhotons => "Oscar2013Extended_Photons" | some .ascii => "ASCII" | none => "-"

def showEvents (evs : List (List PLine)) : String :=
  "|".intercalate (evs.map (fun ev => if ev.isEmpty then "." else ",".intercalate (ev.map (fun p => toString p.lineNo))))

def showErr : Rd.Err → String
  | .type => "err type" | .value => "err value" | .index => "err index" | .notfound => "err notfound" | .os => "err os"

def showLoaded (r : Loaded) : String :=
  s!"ok ne={r.numEvents} counts={showCounts r.counts} fmt={showFmt r.fmt} attrs={",".intercalate r.customAttrs} foot={r.footers.length} ev={showEvents r.events}"

/-- `oscar|jetscape|jetscapeP  <sel> <filters> <views> <filehex>` -/
def handleRead : List String → String
  | [kind, sel, filt, views, file] =>
    match sel? sel, filters? filt, views? views, unhex? file with
    | some sel, some filt, some views, some text =>
      let f := fileOfText text
      let ef := filt.map (evFilter views)
      let r := if kind == "oscar" then some (readOscar f sel ef)
               else if kind == "jetscape" then some (readJetscape f sel false ef)
               else if kind == "jetscapeP" then some (readJetscape f sel true ef)
               else none
      match r with
      | some (.ok l) => showLoaded l
      | some (.error e) => showErr e
      | none => "bad-op"
    | _, _, _, _ => "bad-op"
  | _ => "bad-op"

end SparkxVerif.Rd.Proto
