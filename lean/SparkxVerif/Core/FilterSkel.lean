/-
The 27 filters of `Filter.py` assembled: hand-written argument handling (Core/Filter.lean) around the
loop shapes and comprehension conditions that the translator regenerates from the source (Gen/Filters.lean).
Binder order of generated conditions: free names in alphabetical order (`lim_max` before `lim_min`).
-/
import SparkxVerif.Core.Filter
import SparkxVerif.Gen.Filters

namespace SparkxVerif.Flt
open SparkxVerif.Gen.Filters

inductive Dim | t | x | y | z | bad
deriving DecidableEq, Repr

/-- one filter call with its argument, as a storer method or a constructor `filters=` entry passes it -/
inductive Call (α : Type)
  | charged | uncharged
  | species (a : IArg) | removeSpecies (a : IArg)
  | participants | spectators
  | energyCut (thr : α)
  | spacetime (d : Dim) (a : WArg α)
  | pT (a : WArg α) | mT (a : WArg α)
  | rapidity (a : RArg α) | pseudorapidity (a : RArg α) | spacetimeRapidity (a : RArg α)
  | multiplicity (a : WArg α)
  | status (a : IArg)
  | keepHadrons | keepLeptons | keepQuarks | keepMesons | keepBaryons
  | keepUp | keepDown | keepStrange | keepCharm | keepBottom | keepTop
  | removePhotons
deriving Repr

section
variable {α : Type} [LE α] [LT α] [DecidableLE α] [DecidableLT α] [Neg α] [Zero α] [Add α]

def particleSpecies (evs : Evs α) : IArg → Except Err (Evs α)
  | .scalar x => runLoop particle_species_shape_0 evs (particle_species_cond_0 x)
  | .list xs | .tuple xs | .ndarray xs => runLoop particle_species_shape_1 evs (particle_species_cond_1 xs)
  | .other => throw .type

def removeParticleSpecies (evs : Evs α) : IArg → Except Err (Evs α)
  | .scalar x => runLoop remove_particle_species_shape_0 evs (remove_particle_species_cond_0 x)
  | .list xs | .tuple xs | .ndarray xs =>
      runLoop remove_particle_species_shape_1 evs (remove_particle_species_cond_1 xs)
  | .other => throw .type

/-- `particle_status`: a Python int, or a list / tuple / array of integers (`int` or `np.integer`) -/
def particleStatus (evs : Evs α) : IArg → Except Err (Evs α)
  | .scalar x => runLoop particle_status_shape_0 evs (particle_status_cond_0 x)
  | .list xs | .tuple xs | .ndarray xs => runLoop particle_status_shape_1 evs (particle_status_cond_1 xs)
  | .other => throw .type

def spacetimeCut (evs : Evs α) (d : Dim) (arg : WArg α) : Except Err (Evs α) := do
  let (lo, hi) ← preludeWindow arg
  match d with
  | .bad => throw .value
  | .t => runLoop spacetime_cut_shape_0 evs (spacetime_cut_cond_0_t hi lo)
  | .x => runLoop spacetime_cut_shape_0 evs (spacetime_cut_cond_0_x hi lo)
  | .y => runLoop spacetime_cut_shape_0 evs (spacetime_cut_cond_0_y hi lo)
  | .z => runLoop spacetime_cut_shape_0 evs (spacetime_cut_cond_0_else hi lo)

def rapLike (shape0 shape1 : LoopShape) (cond0 : Ext α → Ext α → Part α → Except Err Bool)
    (cond1 : α → Part α → Except Err Bool) (evs : Evs α) : RArg α → Except Err (Evs α)
  | .tuple xs => do
      let (lo, hi) ← preludePair xs
      runLoop shape0 evs (cond0 hi lo)
  | .scalar c => runLoop shape1 evs (cond1 (absF c))
  | .other => throw .type

/-- run one filter call on a nested particle list (the function in `Filter.py`) -/
def applyCall (ofNat : Nat → α) (c : Call α) (evs : Evs α) : Except Err (Evs α) :=
  match c with
  | .charged => runLoop charged_particles_shape_0 evs charged_particles_cond_0
  | .uncharged => runLoop uncharged_particles_shape_0 evs uncharged_particles_cond_0
  | .species a => particleSpecies evs a
  | .removeSpecies a => removeParticleSpecies evs a
  | .participants => runLoop participants_shape_0 evs participants_cond_0
  | .spectators => runLoop spectators_shape_0 evs spectators_cond_0
  | .energyCut thr => lowerEventEnergyCut evs thr
  | .spacetime d a => spacetimeCut evs d a
  | .pT a => do
      let (lo, hi) ← preludeWindowNonneg a
      runLoop pT_cut_shape_0 evs (pT_cut_cond_0 hi lo)
  | .mT a => do
      let (lo, hi) ← preludeWindowNonneg a
      runLoop mT_cut_shape_0 evs (mT_cut_cond_0 hi lo)
  | .rapidity a => rapLike rapidity_cut_shape_0 rapidity_cut_shape_1 rapidity_cut_cond_0 rapidity_cut_cond_1 evs a
  | .pseudorapidity a =>
      rapLike pseudorapidity_cut_shape_0 pseudorapidity_cut_shape_1 pseudorapidity_cut_cond_0
        pseudorapidity_cut_cond_1 evs a
  | .spacetimeRapidity a =>
      rapLike spacetime_rapidity_cut_shape_0 spacetime_rapidity_cut_shape_1 spacetime_rapidity_cut_cond_0
        spacetime_rapidity_cut_cond_1 evs a
  | .multiplicity a => do
      let lim ← preludeWindowNonneg a
      pure (multiplicityCut ofNat evs lim)
  | .status a => particleStatus evs a
  | .keepHadrons => runLoop keep_hadrons_shape_0 evs keep_hadrons_cond_0
  | .keepLeptons => runLoop keep_leptons_shape_0 evs keep_leptons_cond_0
  | .keepQuarks => runLoop keep_quarks_shape_0 evs keep_quarks_cond_0
  | .keepMesons => runLoop keep_mesons_shape_0 evs keep_mesons_cond_0
  | .keepBaryons => runLoop keep_baryons_shape_0 evs keep_baryons_cond_0
  | .keepUp => runLoop keep_up_shape_0 evs keep_up_cond_0
  | .keepDown => runLoop keep_down_shape_0 evs keep_down_cond_0
  | .keepStrange => runLoop keep_strange_shape_0 evs keep_strange_cond_0
  | .keepCharm => runLoop keep_charm_shape_0 evs keep_charm_cond_0
  | .keepBottom => runLoop keep_bottom_shape_0 evs keep_bottom_cond_0
  | .keepTop => runLoop keep_top_shape_0 evs keep_top_cond_0
  | .removePhotons => runLoop remove_photons_shape_0 evs remove_photons_cond_0
end

end SparkxVerif.Flt
