/-
Executable model of `sparkx.Jackknife` (src/sparkx/Jackknife.py).  No Mathlib.

What is modelled, step by step as the code does it:
* the generator of Python's `random` module as a parameter `Rng σ`: `reseed s` = `random.seed(s)` (the new state
  depends on `s` only), `sample st n d` = `random.sample(range(n), d)` (returns the drawn indices and the advanced
  state).  The harness supplies the real draws; theorems are quantified over every `Rng`.
* the statistic as a parameter `Stat`: its value on the array it is handed, and what it leaves in that array
  (`leaves = id` for a statistic that does not write into its argument).
* one task (`_helper_unpack` → `_compute_one_jackknife_sample` → `_randomly_delete_data`): reseed the worker's
  private generator with `seed + index` (generated from the source: `Gen.reseedPerTask`, `Gen.taskSeed`), draw `d`
  indices, `np.delete(data.copy(), indices, axis=0)`, apply the statistic.
* the pool (`multiprocessing.Pool(...).starmap`) as an abstract machine: every worker has a private generator
  state; a *schedule* is any list of `(worker, task)` pairs in execution order; each executed task fills the result
  slot of its task index; `starmap` returns the slots `0 … N-1` in task order.
* `compute_jackknife_estimates`: admissibility of `d`, the probe call of the statistic on the view
  `data[: probeLen n]` of the caller's array, the pool, `np.mean`, the accumulation loop, the variance-scaling
  statements (generated: `Gen.term`, `Gen.scale`), `np.sqrt`.
-/
import SparkxVerif.Core.Num
import SparkxVerif.Gen.Jackknife

namespace SparkxVerif.Jackknife

open SparkxVerif.Gen.Jackknife

/-! ### parameters: generator and statistic -/

structure Rng (σ : Type) where
  /-- `random.seed(s)`: the previous state is discarded -/
  reseed : Int → σ
  /-- `random.sample(range(n), d)` from state `st` -/
  sample : σ → Nat → Nat → List Nat × σ

/-- `random.seed(s); random.sample(range(n), d)` -/
def Rng.draw {σ : Type} (R : Rng σ) (s : Int) (n d : Nat) : List Nat :=
  (R.sample (R.reseed s) n d).1

structure Stat (ρ α : Type) where
  /-- value returned for the array it is handed -/
  val : List ρ → α
  /-- contents of that array afterwards -/
  leaves : List ρ → List ρ

/-- a statistic that does not write into its argument -/
def Stat.pure {ρ α : Type} (θ : List ρ → α) : Stat ρ α := ⟨θ, id⟩

/-! ### `np.delete(data, idx, axis=0)` -/

/-- rows at positions `k, k+1, …` of `xs`, dropping those whose position is listed in `idx` -/
def deleteFrom {ρ : Type} (idx : List Nat) : Nat → List ρ → List ρ
  | _, [] => []
  | k, x :: xs => if idx.contains k then deleteFrom idx (k + 1) xs else x :: deleteFrom idx (k + 1) xs

def deleteIdx {ρ : Type} (data : List ρ) (idx : List Nat) : List ρ := deleteFrom idx 0 data

/-! ### one task in one worker -/

/-- `_helper_unpack(instance, index, data, function, …)` run by a worker whose private generator state is `st`.
`reseedFirst = true` is the code as written (`rd.seed(instance.seed + index)` first); `false` is the variant
without that statement, kept only to show that the reseed is what the theorem rests on. -/
def runTaskG {σ ρ α : Type} (reseedFirst : Bool) (R : Rng σ) (θ : List ρ → α) (data : List ρ)
    (seed : Int) (d : Nat) (i : Nat) (st : σ) : α × σ :=
  let st1 := if reseedFirst then R.reseed (taskSeed seed i) else st
  let r := R.sample st1 data.length d
  (θ (deleteIdx data r.1), r.2)

/-! ### the pool -/

structure Pool (σ α : Type) where
  /-- private generator state of worker `w` -/
  rng : Nat → σ
  /-- result slot of task `i` -/
  slot : Nat → Option α

/-- worker `e.1` executes task `e.2` -/
def Pool.step {σ ρ α : Type} (reseedFirst : Bool) (R : Rng σ) (θ : List ρ → α) (data : List ρ) (seed : Int) (d : Nat)
    (p : Pool σ α) (e : Nat × Nat) : Pool σ α :=
  let r := runTaskG reseedFirst R θ data seed d e.2 (p.rng e.1)
  { rng := fun w => if w = e.1 then r.2 else p.rng w
    slot := fun j => if j = e.2 then some r.1 else p.slot j }

/-- `pool.starmap(_helper_unpack, [(self, index, …) for index in range(N)])` under the schedule `sched`, the workers
starting in the states `init`; `none` if some task was never executed -/
def poolRunG {σ ρ α : Type} (reseedFirst : Bool) (R : Rng σ) (θ : List ρ → α) (data : List ρ) (seed : Int) (d N : Nat)
    (init : Nat → σ) (sched : List (Nat × Nat)) : Option (List α) :=
  let fin := sched.foldl (Pool.step reseedFirst R θ data seed d) { rng := init, slot := fun _ => none }
  (List.range N).mapM fin.slot

/-- the pool of the code under test: the reseed flag is what the translator found in `_helper_unpack` -/
def poolRun {σ ρ α : Type} (R : Rng σ) (θ : List ρ → α) (data : List ρ) (seed : Int) (d N : Nat)
    (init : Nat → σ) (sched : List (Nat × Nat)) : Option (List α) :=
  poolRunG reseedPerTask R θ data seed d N init sched

/-- a schedule of `N` tasks on `w` workers: worker ids below `w`, every task index executed exactly once -/
def ValidSchedule (w N : Nat) (sched : List (Nat × Nat)) : Prop :=
  (∀ e ∈ sched, e.1 < w) ∧ (sched.map Prod.snd).Perm (List.range N)

/-! ### the estimate -/

section arith
variable {α : Type} [Add α] [Sub α] [Mul α] [Neg α] [Div α] [NatCast α]

/-- `np.mean(jackknife_samples)` -/
def meanL (xs : List α) : α := sumL xs / ((xs.length : Nat) : α)

/-- the tail of `compute_jackknife_estimates`: mean, accumulation loop, scaling statement, `np.sqrt` -/
def estimate (sqrt : α → α) (n d : Nat) (xs : List α) : α :=
  let m := meanL xs
  let v := sumL (xs.map (fun x => term x m))
  sqrt (v * scale n d xs.length)

/-- the delete-d jackknife formula of the property, written independently of the code (executable spec side):
`sqrt((n-d)/(d·N) · Σ_i (θ_i − mean θ)²)` -/
def specFormula (sqrt : α → α) (n d : Nat) (xs : List α) : α :=
  let N : α := ((xs.length : Nat) : α)
  let m := sumL xs / N
  sqrt ((((n : Nat) : α) - ((d : Nat) : α)) / (((d : Nat) : α) * N) * sumL (xs.map (fun x => (x - m) * (x - m))))

end arith

/-! ### the whole call, in the parent process -/

/-- what `compute_jackknife_estimates` leaves behind -/
structure Outcome (σ ρ α : Type) where
  /-- returned number; `none` = the call raised (`delete_fraction` too small) -/
  value : Option α
  /-- the caller's data array after the call -/
  dataAfter : List ρ
  /-- the parent's global generator after the call -/
  grng : σ

/-- the caller's array after the probe call `function(data[: probeLen n])` (the slice is a view) -/
def afterProbe {ρ α : Type} (S : Stat ρ α) (data : List ρ) : List ρ :=
  S.leaves (data.take (probeLen data.length)) ++ data.drop (probeLen data.length)

/-- `Jackknife(frac, N, seed).compute_jackknife_estimates(data, function, num_cores)` with
`d = int(frac * len(data))`, the parent's global generator in state `g`, the pool's workers forked from the parent
(inheriting `g`) and initialised by `_init_random_subprocess(seed)`, executing under `sched`. -/
def compute {σ ρ α : Type} [Add α] [Sub α] [Mul α] [Neg α] [Div α] [NatCast α]
    (sqrt : α → α) (R : Rng σ) (S : Stat ρ α) (data : List ρ) (seed : Int) (d N : Nat)
    (g : σ) (sched : List (Nat × Nat)) : Outcome σ ρ α :=
  if d < 1 then { value := none, dataAfter := data, grng := g } else
  let data' := afterProbe S data
  let workerInit : Nat → σ := fun _ => (fun (_inherited : σ) => R.reseed seed) g
  { value := (poolRun R S.val data' seed d N workerInit sched).map (estimate sqrt data'.length d)
    dataAfter := data'
    grng := g }

/-- things that can happen to the parent's global generator between calls -/
inductive Op (σ : Type) where
  /-- `Jackknife(frac, N, seed)`: the constructor calls `rd.seed(seed)` -/
  | construct (seed : Int)
  /-- anything else that uses or sets the global generator -/
  | scramble (f : σ → σ)
  /-- an earlier `compute_jackknife_estimates` (it leaves the parent's generator as it found it) -/
  | computed

def Op.apply {σ : Type} (R : Rng σ) (g : σ) : Op σ → σ
  | .construct s => R.reseed s
  | .scramble f => f g
  | .computed => g

/-! ### statistics used by the driver and by the non-vacuity examples -/

section stats
variable {α : Type} [Add α] [Sub α] [Mul α] [Neg α] [Div α] [NatCast α]

/-- `np.mean(x)` of a 1-D array (rows of length 1) or a 2-D array (all entries) -/
def meanAll (rows : List (List α)) : α :=
  sumL rows.flatten / ((rows.flatten.length : Nat) : α)

/-- `np.sqrt(np.mean(x * x))` -/
def rmsAll (sqrt : α → α) (rows : List (List α)) : α :=
  sqrt (sumL (rows.flatten.map (fun x => x * x)) / ((rows.flatten.length : Nat) : α))

/-- `np.sum(x[:,0] * x[:,1]) / np.sum(x[:,1])` -/
def wmean (rows : List (List α)) : α :=
  sumL (rows.map (fun r => r.getD 0 ((0 : Nat) : α) * r.getD 1 ((0 : Nat) : α))) /
    sumL (rows.map (fun r => r.getD 1 ((0 : Nat) : α)))

end stats

end SparkxVerif.Jackknife
