/-
Sessions on ONE long-lived `sparkx.Histogram` object (C10): mutating calls interleaved with outputs
(`write_to_file`, the read-only accessors).  No Mathlib.

The model has no hidden state: an output is a function of the five arrays, the edges and the two
counters *as they are now*.  Whether the class behaves like that (no output may depend on what was
handed out before: no memoised centres / widths / errors / averages surviving a re-binning) is exactly
what the correspondence run checks — the real object is driven through the same session and touched by
nothing else — and what `C10.outputs_depend_on_operations_only` states for the model.
-/
import SparkxVerif.Core.Histogram

namespace SparkxVerif.Hist

/-- the read-only accessors of the class -/
inductive Getter where
  | centers      -- bin_centers()
  | widths       -- bin_width()
  | left         -- bin_bounds_left()
  | right        -- bin_bounds_right()
  | boundaries   -- bin_boundaries()
  | histogram    -- histogram()
  | rawCounts    -- histogram_raw_counts()
  | stdError     -- standard_error()
  | nHist        -- number_of_histograms()
  deriving DecidableEq, Repr

/-- one call on the object -/
inductive Call (α : Type) where
  | op (o : Op α)                                              -- any of the 14 mutating methods
  | write (cols : Option (List String)) (labels : Labels)      -- write_to_file(…, labels, columns=cols)
  | get (g : Getter)

/-- what the caller gets back (for `write`: the content of the file) -/
inductive Out (α : Type) where
  | done (e : Option Err)
  | file (r : Except Err (List (List String × List (List α))))
  | vec (xs : List α)
  | mat (a : List (List α))
  | num (n : Nat)

/-- the content of a successfully written file -/
def Out.fileOk? {α : Type} : Out α → Option (List (List String × List (List α)))
  | .file (.ok f) => some f
  | _ => none

def Out.vec? {α : Type} : Out α → Option (List α)
  | .vec v => some v
  | _ => none

section
variable {α : Type} [Add α] [Sub α] [Mul α] [Div α] [NatCast α]
  [LE α] [LT α] [DecidableLE α] [DecidableLT α]

def getter (s : State α) : Getter → Out α
  | .centers => .vec (centers s.edges)
  | .widths => .vec (widths s.edges)
  | .left => .vec (boundsLeft s.edges)
  | .right => .vec (boundsRight s.edges)
  | .boundaries => .vec s.edges
  | .histogram => .mat s.hist
  | .rawCounts => .mat s.raw
  | .stdError => .mat s.err
  | .nHist => .num s.nHist

/-- one call: the state it leaves and what it hands back; outputs leave the state alone -/
def call (sqrt : α → α) (s : State α) : Call α → State α × Out α
  | .op o => ((step sqrt s o).1, .done (step sqrt s o).2)
  | .write cols labels => (s, .file (write s cols labels))
  | .get g => (s, getter s g)

/-- a session: per call the state after it and its output -/
def trace (sqrt : α → α) (s : State α) : List (Call α) → List (State α × Out α)
  | [] => []
  | c :: r => call sqrt s c :: trace sqrt (call sqrt s c).1 r

/-- the mutating calls of a session, in order -/
def opsOf : List (Call α) → List (Op α)
  | [] => []
  | .op o :: r => o :: opsOf r
  | _ :: r => opsOf r

end

end SparkxVerif.Hist
