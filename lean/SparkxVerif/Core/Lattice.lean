/-
Executable model of `sparkx.Lattice3D` (src/sparkx/Lattice3D.py) as far as property C17 talks about it:
index search, coordinate lookup / closest node, by-index access with numpy's negative-index wrap,
set/get by point, nearest-neighbour access, interpolation guard, element-wise operators, average,
rescale, CSV save/load.  No Mathlib.

Conventions
* coordinates have type `α`, grid values type `β` (both `Float` in the driver); the functions are
  written once over the core classes (`LT LE Sub Neg NatCast …`), theorems instantiate them at a
  linear order / linearly ordered field, and – for the NaN question – at `XVal α` (below).
* the grid is the C-order flattening of `grid_` (shape `(nx, ny, nz)`), i.e. exactly the row that
  `save_to_csv` writes; `grid_[i, j, k]` is position `(i * ny + j) * nz + k` (numpy strides).
* external library calls are parameters: `lin` = `np.linspace`, `interp` = `scipy.interpolate.interpn`,
  `fmt`/`parse` = `np.savetxt('%.18e')`/`np.loadtxt`, `ofNat`/`toNat` = int→float64 / `int(float)`.
* Python exceptions are `Except Err`; `warnings.warn` is a Boolean flag / a `none` result.
-/
import SparkxVerif.Core.Num

namespace SparkxVerif.Lattice

/-- exception classes the property distinguishes (`ValueError`, `TypeError`, `IndexError`) -/
inductive Err where
  | value | type | index
  deriving DecidableEq, Repr

def Err.toString : Err → String
  | .value => "value" | .type => "type" | .index => "index"

/-! ### a double as the order relations see it: a number or NaN (every comparison with NaN is false) -/

inductive XVal (α : Type) where
  | num (a : α)
  | nan
  deriving DecidableEq, Repr

namespace XVal
variable {α : Type}

def lt [LT α] : XVal α → XVal α → Prop
  | num a, num b => a < b
  | _, _ => False

def le [LE α] : XVal α → XVal α → Prop
  | num a, num b => a ≤ b
  | _, _ => False

instance [LT α] : LT (XVal α) := ⟨lt⟩
instance [LE α] : LE (XVal α) := ⟨le⟩

instance [LT α] [DecidableLT α] : DecidableLT (XVal α) := fun a b =>
  match a, b with
  | num a, num b => inferInstanceAs (Decidable (a < b))
  | num _, nan => isFalse (fun h => h)
  | nan, num _ => isFalse (fun h => h)
  | nan, nan => isFalse (fun h => h)

instance [LE α] [DecidableLE α] : DecidableLE (XVal α) := fun a b =>
  match a, b with
  | num a, num b => inferInstanceAs (Decidable (a ≤ b))
  | num _, nan => isFalse (fun h => h)
  | nan, num _ => isFalse (fun h => h)
  | nan, nan => isFalse (fun h => h)

instance [Sub α] : Sub (XVal α) := ⟨fun a b => match a, b with | num a, num b => num (a - b) | _, _ => nan⟩
instance [Neg α] : Neg (XVal α) := ⟨fun a => match a with | num a => num (-a) | nan => nan⟩
instance [NatCast α] : NatCast (XVal α) := ⟨fun n => num (n : α)⟩

end XVal

/-! ### Python / numpy indexing with an `int` (negative indices wrap once, then bounds check) -/

/-- numpy / Python normalisation of an index along an axis of length `n` -/
def npAxis (n : Nat) (i : Int) : Except Err Nat :=
  let j : Int := if i < 0 then i + (n : Int) else i
  if j < 0 ∨ (n : Int) ≤ j then .error .index else .ok j.toNat

/-- `xs[i]` for a Python int `i` -/
def pyGet {α : Type} (xs : List α) (i : Int) : Except Err α :=
  match npAxis xs.length i with
  | .error e => .error e
  | .ok j => match xs[j]? with
    | some a => .ok a
    | none => .error .index

/-! ### one axis: index search (`__get_index`, `__get_index_nearest_neighbor`, `__find_closest_index`, `__get_value`) -/

section axis
variable {α : Type} [LT α] [LE α] [DecidableLT α] [DecidableLE α]

/-- `np.searchsorted(values, v, side="right")` on an ascending array without NaN entries: the number
of entries that are not greater than `v` (numpy's float ordering puts a NaN `v` after everything) -/
def searchRight (xs : List α) (v : α) : Nat := xs.countP (fun x => !decide (v < x))

/-- the guard of the index searches, `values[0] <= value <= values[-1]` (`IndexError` on an empty array) -/
def rangeOk (xs : List α) (v : α) : Except Err Bool :=
  match xs.head?, xs.getLast? with
  | some lo, some hi => .ok (decide (lo ≤ v) && decide (v ≤ hi))
  | _, _ => .error .index

/-- the same guard as the code had it before the repair C17-1: `value < values[0] or value > values[-1]`
is the *rejection* test, which a NaN passes. Kept for the witness theorem / the monitor op of the driver. -/
def rangeOkUnguarded (xs : List α) (v : α) : Except Err Bool :=
  match xs.head?, xs.getLast? with
  | some lo, some hi => .ok (!(decide (v < lo) || decide (hi < v)))
  | _, _ => .error .index

/-- tail of `__get_index`: `index = searchsorted(..., side="right"); if index == 0: index += 1; return index - 1` -/
def cellOf (xs : List α) (v : α) : Nat :=
  let idx := searchRight xs v
  let idx := if idx == 0 then idx + 1 else idx
  idx - 1

/-- `Lattice3D.__get_index` -/
def getIndex (xs : List α) (v : α) : Except Err Nat :=
  match rangeOk xs v with
  | .error e => .error e
  | .ok false => .error .value
  | .ok true => .ok (cellOf xs v)

/-- `__get_index` with the pre-repair guard -/
def getIndexUnguarded (xs : List α) (v : α) : Except Err Nat :=
  match rangeOkUnguarded xs v with
  | .error e => .error e
  | .ok false => .error .value
  | .ok true => .ok (cellOf xs v)

/-- `Lattice3D.__get_value(index, values, num_points)` -/
def getCoord (xs : List α) (num : Nat) (i : Int) : Except Err α :=
  if i < 0 ∨ (num : Int) ≤ i then .error .value else pyGet xs i

/-- `np.argmin`: first position of the minimum (`0` stands for numpy's error on an empty array, which
cannot occur here).  Lists of distances are NaN-free or all-NaN (NaN point), where numpy answers 0 too. -/
def argminGo : List α → α → Nat → Nat → Nat
  | [], _, bi, _ => bi
  | x :: xs, best, bi, i => if x < best then argminGo xs x i (i + 1) else argminGo xs best bi (i + 1)

def argminFirst : List α → Nat
  | [] => 0
  | x :: xs => argminGo xs x 0 1

variable [Sub α] [Neg α] [NatCast α]

/-- `np.abs` as far as the order can see it -/
def absG (x : α) : α := if x < ((0 : Nat) : α) then -x else x

/-- `__find_closest_index`: `np.argmin(np.abs(values - value))` -/
def closestIndex (xs : List α) (v : α) : Nat := argminFirst (xs.map (fun x => absG (x - v)))

/-- `np.abs(value - np.array(values)).argmin()` -/
def nearestOf (xs : List α) (v : α) : Nat := argminFirst (xs.map (fun x => absG (v - x)))

/-- `Lattice3D.__get_index_nearest_neighbor` -/
def getIndexNN (xs : List α) (v : α) : Except Err Nat :=
  match rangeOk xs v with
  | .error e => .error e
  | .ok false => .error .value
  | .ok true => .ok (nearestOf xs v)

def getIndexNNUnguarded (xs : List α) (v : α) : Except Err Nat :=
  match rangeOkUnguarded xs v with
  | .error e => .error e
  | .ok false => .error .value
  | .ok true => .ok (nearestOf xs v)

end axis

/-! ### the lattice object -/

/-- everything of a `Lattice3D` object except the grid values -/
structure Geom (α : Type) where
  xmin : α
  xmax : α
  ymin : α
  ymax : α
  zmin : α
  zmax : α
  /-- `num_points_x_`, `num_points_y_`, `num_points_z_` -/
  nx : Nat
  ny : Nat
  nz : Nat
  /-- `x_values_`, `y_values_`, `z_values_` -/
  xs : List α
  ys : List α
  zs : List α

structure Lat (α β : Type) extends Geom α where
  /-- `grid_.flatten()` (C order), shape `(nx, ny, nz)` -/
  grid : List β

/-- position of `grid_[i, j, k]` in the C-order flattening of an array of shape `(_, ny, nz)` -/
def flat (ny nz i j k : Nat) : Nat := (i * ny + j) * nz + k

/-- the geometry part of `Lattice3D.__init__`: `np.linspace` three times -/
def mkGeom {α : Type} (lin : α → α → Nat → List α)
    (xmin xmax ymin ymax zmin zmax : α) (nx ny nz : Nat) : Geom α :=
  { xmin, xmax, ymin, ymax, zmin, zmax, nx, ny, nz,
    xs := lin xmin xmax nx, ys := lin ymin ymax ny, zs := lin zmin zmax nz }

/-- `Lattice3D.__init__`: geometry and `np.zeros((nx, ny, nz))` -/
def mkLat {α β : Type} [NatCast β] (lin : α → α → Nat → List α)
    (xmin xmax ymin ymax zmin zmax : α) (nx ny nz : Nat) : Lat α β :=
  { toGeom := mkGeom lin xmin xmax ymin ymax zmin zmax nx ny nz,
    grid := List.replicate (nx * ny * nz) ((0 : Nat) : β) }

namespace Lat
variable {α β : Type}

/-- `__is_valid_index` -/
def validIndex (L : Lat α β) (i j k : Int) : Bool :=
  (decide (0 ≤ i) && decide (i < (L.nx : Int))) &&
  (decide (0 ≤ j) && decide (j < (L.ny : Int))) &&
  (decide (0 ≤ k) && decide (k < (L.nz : Int)))

/-- numpy `grid_[i, j, k]` (reading) for Python ints: per-axis wrap of negative indices, bounds check -/
def rawGet (L : Lat α β) (i j k : Int) : Except Err β :=
  match npAxis L.nx i, npAxis L.ny j, npAxis L.nz k with
  | .ok a, .ok b, .ok c =>
    match L.grid[flat L.ny L.nz a b c]? with
    | some v => .ok v
    | none => .error .index
  | _, _, _ => .error .index

/-- numpy `grid_[i, j, k] = v` -/
def rawSet (L : Lat α β) (i j k : Int) (v : β) : Except Err (Lat α β) :=
  match npAxis L.nx i, npAxis L.ny j, npAxis L.nz k with
  | .ok a, .ok b, .ok c =>
    if flat L.ny L.nz a b c < L.grid.length then .ok { L with grid := L.grid.set (flat L.ny L.nz a b c) v }
    else .error .index
  | _, _, _ => .error .index

/-- `set_value_by_index`; the flag says "warned, nothing written" -/
def setByIndex (L : Lat α β) (i j k : Int) (v : β) : Except Err (Lat α β × Bool) :=
  if !L.validIndex i j k then .ok (L, true)
  else match L.rawSet i j k v with
    | .ok L' => .ok (L', false)
    | .error e => .error e

/-- `get_value_by_index`; `none` = warned and returned `None` -/
def getByIndex (L : Lat α β) (i j k : Int) : Except Err (Option β) :=
  if !L.validIndex i j k then .ok none
  else match L.rawGet i j k with
    | .ok v => .ok (some v)
    | .error e => .error e

section order
variable [LT α] [LE α] [DecidableLT α] [DecidableLE α]

/-- `__get_indices` (x, then y, then z; the first failing axis raises) -/
def getIndices (L : Lat α β) (x y z : α) : Except Err (Nat × Nat × Nat) :=
  match getIndex L.xs x with
  | .error e => .error e
  | .ok i => match getIndex L.ys y with
    | .error e => .error e
    | .ok j => match getIndex L.zs z with
      | .error e => .error e
      | .ok k => .ok (i, j, k)

/-- `__is_within_range`: uses the stored extents, not the node arrays -/
def withinRange (L : Lat α β) (x y z : α) : Bool :=
  (decide (L.xmin ≤ x) && decide (x ≤ L.xmax)) &&
  (decide (L.ymin ≤ y) && decide (y ≤ L.ymax)) &&
  (decide (L.zmin ≤ z) && decide (z ≤ L.zmax))

/-- `set_value` -/
def setValue (L : Lat α β) (x y z : α) (v : β) : Except Err (Lat α β × Bool) :=
  match L.getIndices x y z with
  | .error e => .error e
  | .ok (i, j, k) => L.setByIndex i j k v

/-- `get_value` -/
def getValue (L : Lat α β) (x y z : α) : Except Err (Option β) :=
  match L.getIndices x y z with
  | .error e => .error e
  | .ok (i, j, k) => L.getByIndex i j k

/-- `get_coordinates` -/
def getCoordinates (L : Lat α β) (i j k : Int) : Except Err (α × α × α) :=
  match getCoord L.xs L.nx i with
  | .error e => .error e
  | .ok x => match getCoord L.ys L.ny j with
    | .error e => .error e
    | .ok y => match getCoord L.zs L.nz k with
      | .error e => .error e
      | .ok z => .ok (x, y, z)

/-- `interpolate_value`: range guard (`TypeError`), then `interpn` (parameter; it may raise itself, e.g. on an
axis with a single node) -/
def interpolateValue {M : Type} (interp : List α → List α → List α → List β → α × α × α → M → Except Err β)
    (L : Lat α β) (x y z : α) (m : M) : Except Err β :=
  if !L.withinRange x y z then .error .type
  else interp L.xs L.ys L.zs L.grid (x, y, z) m

variable [Sub α] [Neg α] [NatCast α]

/-- `__get_indices_nearest_neighbor` -/
def getIndicesNN (L : Lat α β) (x y z : α) : Except Err (Nat × Nat × Nat) :=
  match getIndexNN L.xs x with
  | .error e => .error e
  | .ok i => match getIndexNN L.ys y with
    | .error e => .error e
    | .ok j => match getIndexNN L.zs z with
      | .error e => .error e
      | .ok k => .ok (i, j, k)

/-- `set_value_nearest_neighbor` -/
def setValueNN (L : Lat α β) (x y z : α) (v : β) : Except Err (Lat α β × Bool) :=
  match L.getIndicesNN x y z with
  | .error e => .error e
  | .ok (i, j, k) => L.setByIndex i j k v

/-- `get_value_nearest_neighbor` -/
def getValueNN (L : Lat α β) (x y z : α) : Except Err (Option β) :=
  match L.getIndicesNN x y z with
  | .error e => .error e
  | .ok (i, j, k) => L.getByIndex i j k

/-- `find_closest_indices`; the flag says "warned: outside the lattice range" -/
def findClosestIndices (L : Lat α β) (x y z : α) : (Nat × Nat × Nat) × Bool :=
  ((closestIndex L.xs x, closestIndex L.ys y, closestIndex L.zs z), !L.withinRange x y z)

end order

/-! ### element-wise operators, average, rescale -/

/-- same shape test of `__operate_on_lattice` / `average` (`grid_.shape` is `(nx, ny, nz)`) -/
def sameShape (A B : Lat α β) : Bool :=
  decide (A.nx = B.nx) && decide (A.ny = B.ny) && decide (A.nz = B.nz)

/-- `__operate_on_lattice`: a fresh lattice built from `self`'s extents (the zero grid of the constructor is
replaced at once), grid = `operation(self.grid_, other.grid_)` -/
def operate (lin : α → α → Nat → List α) (f : β → β → β) (A B : Lat α β) : Except Err (Lat α β) :=
  if !A.sameShape B then .error .value
  else .ok { toGeom := mkGeom lin A.xmin A.xmax A.ymin A.ymax A.zmin A.zmax A.nx A.ny A.nz,
             grid := List.zipWith f A.grid B.grid }

/-- `average`: `np.mean([self.grid_, l1.grid_, …], axis=0)` = `np.add.reduce` over the stacked grids – a running
element-wise sum in argument order that starts from the additive identity `0.0` (so a lone `-0.0` comes out
as `+0.0`, as numpy does) – then division by the count -/
def average [NatCast β] [Add β] [Div β] (lin : α → α → Nat → List α) (A : Lat α β) (Bs : List (Lat α β)) :
    Except Err (Lat α β) :=
  if !(Bs.all (fun B => A.sameShape B)) then .error .value
  else .ok { toGeom := mkGeom lin A.xmin A.xmax A.ymin A.ymax A.zmin A.zmax A.nx A.ny A.nz,
             grid := (Bs.foldl (fun acc B => List.zipWith (· + ·) acc B.grid)
                        (A.grid.map (fun a => ((0 : Nat) : β) + a))).map
                       (fun s => s / ((Bs.length + 1 : Nat) : β)) }

/-- `rescale`: `grid_ *= factor` -/
def rescale [Mul β] (L : Lat α β) (f : β) : Lat α β := { L with grid := L.grid.map (· * f) }

end Lat

/-! ### histories of set / rescale operations on one lattice -/

inductive Op (α β : Type) where
  | setIdx (i j k : Int) (v : β)
  | setPt (x y z : α) (v : β)
  | setNN (x y z : α) (v : β)
  | rescale (f : β)

section history
variable {α β : Type} [LT α] [LE α] [DecidableLT α] [DecidableLE α] [Sub α] [Neg α] [NatCast α] [Mul β]

/-- one mutating call; an exception or a warning leaves the object as it was -/
def Lat.apply (L : Lat α β) : Op α β → Lat α β
  | .setIdx i j k v => match L.setByIndex i j k v with | .ok (L', _) => L' | .error _ => L
  | .setPt x y z v => match L.setValue x y z v with | .ok (L', _) => L' | .error _ => L
  | .setNN x y z v => match L.setValueNN x y z v with | .ok (L', _) => L' | .error _ => L
  | .rescale f => L.rescale f

def Lat.run (L : Lat α β) (ops : List (Op α β)) : Lat α β := ops.foldl Lat.apply L

end history

/-! ### several live lattices: operators append their result, mutating calls act on one object -/

inductive BinOp where
  | add | sub | mul | div
  deriving DecidableEq, Repr

def BinOp.fn {β : Type} [Add β] [Sub β] [Mul β] [Div β] : BinOp → β → β → β
  | .add => (· + ·) | .sub => (· - ·) | .mul => (· * ·) | .div => (· / ·)

inductive Cmd (α β : Type) where
  /-- a mutating call on lattice number `l` -/
  | op (l : Nat) (o : Op α β)
  /-- `env[a] ∘ env[b]`, result appended -/
  | bin (o : BinOp) (a b : Nat)
  /-- `env[a].average(*[env[b] for b in bs])`, result appended -/
  | avg (a : Nat) (bs : List Nat)

section env
variable {α β : Type} [LT α] [LE α] [DecidableLT α] [DecidableLE α] [Sub α] [Neg α] [NatCast α]
  [Add β] [Sub β] [Mul β] [Div β] [NatCast β]

/-- one command on the list of live objects; a Python exception leaves everything as it was -/
def exec (lin : α → α → Nat → List α) (env : List (Lat α β)) : Cmd α β → List (Lat α β)
  | .op l o => match env[l]? with
    | some L => env.set l (L.apply o)
    | none => env
  | .bin o a b => match env[a]?, env[b]? with
    | some A, some B => match A.operate lin o.fn B with
      | .ok R => env ++ [R]
      | .error _ => env
    | _, _ => env
  | .avg a bs => match env[a]?, bs.mapM (fun b => env[b]?) with
    | some A, some Bs => match A.average lin Bs with
      | .ok R => env ++ [R]
      | .error _ => env
    | _, _ => env

end env

/-! ### CSV: one row `metadata ++ grid_.flatten()` of formatted numbers -/

section csv
variable {α : Type}

/-- `save_to_csv`: the fields of the single row -/
def save (ofNat : Nat → α) (fmt : α → String) (L : Lat α α) : List String :=
  ([L.xmin, L.xmax, L.ymin, L.ymax, L.zmin, L.zmax, ofNat L.nx, ofNat L.ny, ofNat L.nz] ++ L.grid).map fmt

/-- `load_from_csv`: parse every field, unpack nine metadata numbers, rebuild the lattice, reshape the rest
(`ValueError` for an unparsable field, fewer than nine fields, or a grid of the wrong size) -/
def load (lin : α → α → Nat → List α) (toNat : α → Nat) (parse : String → Option α)
    (toks : List String) : Except Err (Lat α α) :=
  match toks.mapM parse with
  | none => .error .value
  | some (xmin :: xmax :: ymin :: ymax :: zmin :: zmax :: a :: b :: c :: g) =>
    if g.length = toNat a * toNat b * toNat c then
      .ok { toGeom := mkGeom lin xmin xmax ymin ymax zmin zmax (toNat a) (toNat b) (toNat c), grid := g }
    else .error .value
  | some _ => .error .value

end csv

end SparkxVerif.Lattice

/-! ### appended for tie T of C17 (`Gen/Lattice.lean`, regenerated from the source): numpy primitives the
generated definitions are written over, and hand mirrors of `reset` and of the derived constructor attributes -/
namespace SparkxVerif.Lattice

/-- `np.searchsorted(values, v, side="left")` on an ascending array: the number of entries below `v` -/
def searchLeft {α : Type} [LT α] [DecidableLT α] (xs : List α) (v : α) : Nat := xs.countP (fun x => decide (x < v))

/-- `np.ndindex((a, b, c))`: all index triples in C order -/
def ndindex (a b c : Nat) : List (Nat × Nat × Nat) :=
  (List.range a).flatMap fun i => (List.range b).flatMap fun j => (List.range c).map fun k => (i, j, k)

/-- `np.mean(grids, axis=0)` for equally long rows: `np.add.reduce` (running sum in list order starting from the
additive identity) divided by the number of rows -/
def npMeanAxis0 {β : Type} [NatCast β] [Add β] [Div β] : List (List β) → List β
  | [] => []
  | g :: gs => (gs.foldl (fun acc h => List.zipWith (· + ·) acc h) (g.map (fun a => ((0 : Nat) : β) + a))).map
      (fun s => s / ((gs.length + 1 : Nat) : β))

/-- `reset`: every node value becomes 0 (the code writes `grid_[i, j, k] = 0` for every `np.ndindex` triple) -/
def Lat.reset {α β : Type} [NatCast β] (L : Lat α β) : Lat α β := { L with grid := L.grid.map (fun _ => ((0 : Nat) : β)) }

section attrs
variable {α : Type} [LT α] [DecidableLT α] [Sub α] [Neg α] [NatCast α] [Mul α] [Div α]

/-- `cell_volume_ = abs((x_max-x_min)*(y_max-y_min)*(z_max-z_min)/(nx*ny*nz))` -/
def cellVolume (xmin xmax ymin ymax zmin zmax : α) (nx ny nz : Nat) : α :=
  absG ((xmax - xmin) * (ymax - ymin) * (zmax - zmin) / ((nx * ny * nz : Nat) : α))

omit [LT α] [DecidableLT α] [Neg α] [NatCast α] [Mul α] [Div α] in
/-- `spacing_x_ = x_values_[1] - x_values_[0] if num_points_x > 1 else None` -/
def spacingOf (xs : List α) (n : Nat) : Except Err (Option α) :=
  if 1 < n then
    match xs[1]?, xs[0]? with
    | some a, some b => .ok (some (a - b))
    | _, _ => .error .index
  else .ok none

omit [LT α] [DecidableLT α] [Neg α] [Mul α] in
/-- `density_x_ = (x_max_ - x_min_) / num_points_x_` -/
def densityOf (lo hi : α) (n : Nat) : α := (hi - lo) / ((n : Nat) : α)

end attrs

end SparkxVerif.Lattice
