/-
C15 — the Jackknife estimate is schedule-independent and equals the delete-d formula.

Property theorems only; helper lemmas are in `Lemmas/Jackknife.lean`, the executable model (the one the driver runs
at `Float`) in `Core/Jackknife.lean`.  The per-task reseed (`reseedPerTask`, `taskSeed`), the loop body (`term`), the
variance-scaling statements (`scale`) and the probe slice (`probeLen`) are *generated* from the current text of
`src/sparkx/Jackknife.py` (`Gen/Jackknife.lean`), so these theorems are re-checked against what the code says on
every run.

Reading of the English statement:
* "deterministic function of (data, statistic, delete_fraction, number_samples, seed)": the returned value is given
  by a closed expression in `data`, `θ`, `d = int(fraction·n)`, `N`, `seed` and the generator `R` (`C15_main`);
  nothing else occurs in it.
* "number of worker processes / how work is scheduled": for every worker count `w`, every assignment of task
  indices to workers and every execution order (`ValidSchedule w N sched`), and every initial generator state of
  every worker (`schedule_independent`).  The real OS scheduler is outside the model; the harness samples it.
* "state of the global random generator / earlier calls": for every state `g` of the parent's generator and every
  history of constructor calls, scrambles and earlier calls (`global_state_irrelevant`, `earlier_calls_irrelevant`).
* "the data array is not modified": `data_unmodified` (for a statistic that does not write into its argument; the
  copies made per task protect the array from everything else — `data_only_probe_slice_exposed`).
* the delete-d formula for every admissible `d`, `d = 1` included: `estimate_formula`.
* scaling / shift: `estimate_scales`, `estimate_scales_abs`, `estimate_shift_mean`.
-/
import SparkxVerif.Lemmas.Jackknife

namespace SparkxVerif.C15
open SparkxVerif.Jackknife SparkxVerif.Gen.Jackknife

variable {σ ρ α : Type}

/-- the `N` delete-d subsample statistics `θ_i = θ(np.delete(data, draw(seed + i)))`, `i = 0 … N-1` -/
def thetas (R : Rng σ) (θ : List ρ → α) (data : List ρ) (seed : Int) (d N : ℕ) : List α :=
  (List.range N).map (theta R θ data seed d)

/-- the delete-d jackknife standard error `sqrt((n-d)/(d·N) · Σ_i (θ_i − mean θ)²)` -/
noncomputable def deleteD (n d : ℕ) (θs : List ℝ) : ℝ :=
  Real.sqrt (((n : ℝ) - d) / (d * θs.length) * (θs.map (fun t => (t - θs.sum / θs.length) ^ 2)).sum)

/-! ### schedule independence -/

/-- For every number of workers, every assignment of tasks to workers, every execution order and every initial
generator state of every worker, `starmap` returns the subsample statistics `θ_0 … θ_{N-1}`. -/
theorem schedule_independent (R : Rng σ) (θ : List ρ → α) (data : List ρ) (seed : Int) (d N w : ℕ)
    (init : ℕ → σ) (sched : List (ℕ × ℕ)) (hs : ValidSchedule w N sched) :
    poolRun R θ data seed d N init sched = some (thetas R θ data seed d N) := by
  have hflag : reseedPerTask = true := rfl
  unfold poolRun thetas
  rw [hflag]
  apply poolRunG_true_of_covers
  intro i hi
  exact (hs.2.mem_iff).mpr (List.mem_range.mpr hi)

/-- two runs with different worker counts, schedules and worker generator states return the same list -/
theorem schedule_independent_pair (R : Rng σ) (θ : List ρ → α) (data : List ρ) (seed : Int) (d N w₁ w₂ : ℕ)
    (init₁ init₂ : ℕ → σ) (s₁ s₂ : List (ℕ × ℕ)) (h₁ : ValidSchedule w₁ N s₁) (h₂ : ValidSchedule w₂ N s₂) :
    poolRun R θ data seed d N init₁ s₁ = poolRun R θ data seed d N init₂ s₂ := by
  rw [schedule_independent R θ data seed d N w₁ init₁ s₁ h₁, schedule_independent R θ data seed d N w₂ init₂ s₂ h₂]

/-! The per-task reseed is what this rests on: the same machine *without* `rd.seed(seed + index)` in
`_helper_unpack` (workers only initialised once by `_init_random_subprocess`) gives schedule-dependent results. -/

/-- toy generator: state = a counter; `sample` returns `d` consecutive residues and advances the counter -/
def toyRng : Rng ℕ :=
  { reseed := fun s => s.toNat
    sample := fun st n d => ((List.range d).map (fun j => (st + j) % n), st + 1) }

theorem no_reseed_schedule_dependent :
    ValidSchedule 2 2 [(0, 0), (0, 1)] ∧ ValidSchedule 2 2 [(0, 0), (1, 1)] ∧
    poolRunG false toyRng List.sum [1, 2, 4, 8] 0 1 2 (fun _ => toyRng.reseed 0) [(0, 0), (0, 1)] = some [14, 13] ∧
    poolRunG false toyRng List.sum [1, 2, 4, 8] 0 1 2 (fun _ => toyRng.reseed 0) [(0, 0), (1, 1)] = some [14, 14] ∧
    poolRunG true toyRng List.sum [1, 2, 4, 8] 0 1 2 (fun _ => toyRng.reseed 0) [(0, 0), (0, 1)] = some [14, 13] ∧
    poolRunG true toyRng List.sum [1, 2, 4, 8] 0 1 2 (fun _ => toyRng.reseed 0) [(0, 0), (1, 1)] = some [14, 13] := by
  refine ⟨⟨by decide, by decide⟩, ⟨by decide, by decide⟩, by decide, by decide, by decide, by decide⟩

/-! ### global generator state and earlier calls -/

section call
variable [Add α] [Sub α] [Mul α] [Neg α] [Div α] [NatCast α]

/-- the returned value does not depend on the state of the parent's global generator -/
theorem global_state_irrelevant (sqrt : α → α) (R : Rng σ) (S : Stat ρ α) (data : List ρ) (seed : Int) (d N : ℕ)
    (g g' : σ) (sched : List (ℕ × ℕ)) :
    (compute sqrt R S data seed d N g sched).value = (compute sqrt R S data seed d N g' sched).value := by
  unfold compute; split <;> rfl

/-- … nor on any history of constructor calls, other uses of the global generator and earlier
`compute_jackknife_estimates` calls -/
theorem earlier_calls_irrelevant (sqrt : α → α) (R : Rng σ) (S : Stat ρ α) (data : List ρ) (seed : Int) (d N : ℕ)
    (hist : List (Op σ)) (g g' : σ) (sched : List (ℕ × ℕ)) :
    (compute sqrt R S data seed d N (hist.foldl (Op.apply R) g) sched).value
      = (compute sqrt R S data seed d N g' sched).value :=
  global_state_irrelevant sqrt R S data seed d N _ _ sched

/-- the call leaves the parent's global generator as it found it -/
theorem compute_keeps_global_rng (sqrt : α → α) (R : Rng σ) (S : Stat ρ α) (data : List ρ) (seed : Int) (d N : ℕ)
    (g : σ) (sched : List (ℕ × ℕ)) :
    (compute sqrt R S data seed d N g sched).grng = g := by
  unfold compute; split <;> rfl

/-! ### the data array -/

/-- whatever the statistic does to the arrays it is handed, only the probe slice `data[: probeLen n]` of the
caller's array is exposed to it (every task works on a copy) -/
theorem data_only_probe_slice_exposed (sqrt : α → α) (R : Rng σ) (S : Stat ρ α) (data : List ρ) (seed : Int)
    (d N : ℕ) (g : σ) (sched : List (ℕ × ℕ)) :
    (compute sqrt R S data seed d N g sched).dataAfter.drop (probeLen data.length)
        = data.drop (probeLen data.length) ∨
      (S.leaves (data.take (probeLen data.length))).length ≠ (data.take (probeLen data.length)).length := by
  by_cases hl : (S.leaves (data.take (probeLen data.length))).length = (data.take (probeLen data.length)).length
  · left
    unfold compute; split
    · rfl
    · simp only [afterProbe]
      rw [List.drop_append, List.drop_eq_nil_of_le (by rw [hl]; simp), List.nil_append, List.drop_drop, hl,
        List.length_take]
      by_cases hm : probeLen data.length ≤ data.length
      · simp [Nat.min_eq_left hm]
      · rw [List.drop_eq_nil_of_le (by omega), List.drop_eq_nil_of_le (by omega)]
  · exact Or.inr hl

/-- the data array is not modified (statistic that leaves the probe slice as it found it) -/
theorem data_unmodified (sqrt : α → α) (R : Rng σ) (S : Stat ρ α) (data : List ρ) (seed : Int) (d N : ℕ)
    (g : σ) (sched : List (ℕ × ℕ))
    (hS : S.leaves (data.take (probeLen data.length)) = data.take (probeLen data.length)) :
    (compute sqrt R S data seed d N g sched).dataAfter = data := by
  unfold compute; split
  · rfl
  · simp [afterProbe, hS]

theorem data_unmodified_pure (sqrt : α → α) (R : Rng σ) (θ : List ρ → α) (data : List ρ) (seed : Int) (d N : ℕ)
    (g : σ) (sched : List (ℕ × ℕ)) :
    (compute sqrt R (Stat.pure θ) data seed d N g sched).dataAfter = data :=
  data_unmodified sqrt R _ data seed d N g sched rfl

end call

/-! ### the delete-d formula -/

/-- the tail of `compute_jackknife_estimates` (mean, loop, generated scaling statements, sqrt) is the delete-d
formula for every admissible `d` — `d = 1` included -/
theorem estimate_formula (n d : ℕ) (hd : 1 ≤ d) (hdn : d ≤ n) (θs : List ℝ) :
    estimate Real.sqrt n d θs = deleteD n d θs := by
  rw [estimate_eq, scale_eq n d θs.length hd hdn, deleteD, mul_comm]

/-- the executable spec side printed by the driver is the same formula -/
theorem specFormula_is_deleteD (n d : ℕ) (θs : List ℝ) : specFormula Real.sqrt n d θs = deleteD n d θs :=
  specFormula_eq n d θs

/-- **C15, value and data.**  For every generator, statistic, data, seed, admissible `d`, sample count, worker
count, schedule, state of the global generator and history of earlier calls, the call returns
`sqrt((n-d)/(d·N)·Σ_i(θ_i − mean θ)²)` over the subsample statistics `θ_i`, and the data are unchanged. -/
theorem C15_main (R : Rng σ) (θ : List ρ → ℝ) (data : List ρ) (seed : Int) (d N w : ℕ)
    (hd : 1 ≤ d) (hdn : d ≤ data.length) (hist : List (Op σ)) (g : σ)
    (sched : List (ℕ × ℕ)) (hs : ValidSchedule w N sched) :
    (compute Real.sqrt R (Stat.pure θ) data seed d N (hist.foldl (Op.apply R) g) sched).value
        = some (deleteD data.length d (thetas R θ data seed d N)) ∧
      (compute Real.sqrt R (Stat.pure θ) data seed d N (hist.foldl (Op.apply R) g) sched).dataAfter = data := by
  refine ⟨?_, data_unmodified_pure _ R θ data seed d N _ sched⟩
  have hp : afterProbe (Stat.pure θ) data = data := by simp [afterProbe, Stat.pure]
  unfold compute
  rw [if_neg (by omega)]
  simp only [hp]
  simp only [Stat.pure]
  rw [schedule_independent R θ data seed d N w _ sched hs]
  simp [estimate_formula data.length d hd hdn]

/-- the value when the call is not admissible: `delete_fraction` too small ⇒ the call raises -/
theorem inadmissible_raises [Add α] [Sub α] [Mul α] [Neg α] [Div α] [NatCast α]
    (sqrt : α → α) (R : Rng σ) (S : Stat ρ α) (data : List ρ) (seed : Int) (N : ℕ) (g : σ)
    (sched : List (ℕ × ℕ)) :
    (compute sqrt R S data seed 0 N g sched).value = none ∧
      (compute sqrt R S data seed 0 N g sched).dataAfter = data := by
  simp [compute]

/-! ### scaling and shift -/

/-- value of a call with a statistic that does not write into its argument -/
noncomputable abbrev value (R : Rng σ) (θ : List ρ → ℝ) (data : List ρ) (seed : Int) (d N : ℕ) (g : σ)
    (sched : List (ℕ × ℕ)) : Option ℝ :=
  (compute Real.sqrt R (Stat.pure θ) data seed d N g sched).value

theorem value_eq (R : Rng σ) (θ : List ρ → ℝ) (data : List ρ) (seed : Int) (d N w : ℕ) (g : σ)
    (sched : List (ℕ × ℕ)) (hs : ValidSchedule w N sched) :
    value R θ data seed d N g sched
      = if d < 1 then none else some (estimate Real.sqrt data.length d (thetas R θ data seed d N)) := by
  have hp : afterProbe (Stat.pure θ) data = data := by simp [afterProbe, Stat.pure]
  unfold value compute
  split
  · rfl
  · simp only [hp]
    simp only [Stat.pure]
    rw [schedule_independent R θ data seed d N w _ sched hs]
    rfl

/-- if transforming every row by `f` multiplies the statistic by `k` (on every array), the estimate is multiplied
by `|k|` -/
theorem estimate_scales_general (R : Rng σ) (θ : List ρ → ℝ) (f : ρ → ρ) (k : ℝ)
    (hθ : ∀ xs, θ (xs.map f) = k * θ xs)
    (data : List ρ) (seed : Int) (d N w : ℕ) (g : σ) (sched : List (ℕ × ℕ)) (hs : ValidSchedule w N sched) :
    value R θ (data.map f) seed d N g sched = (value R θ data seed d N g sched).map (fun e => |k| * e) := by
  rw [value_eq R θ _ seed d N w g sched hs, value_eq R θ _ seed d N w g sched hs]
  split
  · rfl
  · have : thetas R θ (data.map f) seed d N = (thetas R θ data seed d N).map (fun x => k * x) := by
      simp only [thetas, List.map_map]
      apply List.map_congr_left
      intro i _
      simp [theta, deleteIdx_map, hθ]
    simp [this, estimate_map_mul]

/-- multiply all data (1-D: rows of length 1; 2-D: rows) by `c` -/
def scaleRows (c : ℝ) (data : List (List ℝ)) : List (List ℝ) := data.map (List.map (fun x => c * x))
/-- add `s` to all data -/
def shiftRows (s : ℝ) (data : List (List ℝ)) : List (List ℝ) := data.map (List.map (fun x => x + s))

/-- homogeneous statistic (`θ(c·x) = c·θ(x)`): the estimate scales with `|c|` -/
theorem estimate_scales (R : Rng σ) (θ : List (List ℝ) → ℝ) (c : ℝ)
    (hθ : ∀ xs, θ (scaleRows c xs) = c * θ xs)
    (data : List (List ℝ)) (seed : Int) (d N w : ℕ) (g : σ) (sched : List (ℕ × ℕ)) (hs : ValidSchedule w N sched) :
    value R θ (scaleRows c data) seed d N g sched = (value R θ data seed d N g sched).map (fun e => |c| * e) :=
  estimate_scales_general R θ _ c hθ data seed d N w g sched hs

/-- absolutely homogeneous statistic (`θ(c·x) = |c|·θ(x)`, e.g. a spread): the estimate scales with `|c|` too -/
theorem estimate_scales_abs (R : Rng σ) (θ : List (List ℝ) → ℝ) (c : ℝ)
    (hθ : ∀ xs, θ (scaleRows c xs) = |c| * θ xs)
    (data : List (List ℝ)) (seed : Int) (d N w : ℕ) (g : σ) (sched : List (ℕ × ℕ)) (hs : ValidSchedule w N sched) :
    value R θ (scaleRows c data) seed d N g sched = (value R θ data seed d N g sched).map (fun e => |c| * e) := by
  have := estimate_scales_general R θ _ |c| hθ data seed d N w g sched hs
  simpa [scaleRows, abs_abs] using this

/-- statistic = mean: shifting the data leaves the estimate unchanged.  Hypotheses: rows are non-empty, fewer
rows are deleted than there are (`d < n`), and the generator returns at most `d` indices (contract of
`random.sample(range(n), d)`, checked by the harness on every draw it supplies). -/
theorem estimate_shift_mean (R : Rng σ) (s : ℝ) (data : List (List ℝ)) (seed : Int) (d N w : ℕ)
    (hrows : ∀ r ∈ data, r ≠ []) (hdn : d < data.length)
    (hR : ∀ t : Int, (R.draw t data.length d).length ≤ d)
    (g : σ) (sched : List (ℕ × ℕ)) (hs : ValidSchedule w N sched) :
    value R meanAll (shiftRows s data) seed d N g sched = value R meanAll data seed d N g sched := by
  rw [value_eq R meanAll _ seed d N w g sched hs, value_eq R meanAll _ seed d N w g sched hs]
  split
  · rfl
  · have : thetas R meanAll (shiftRows s data) seed d N
        = (thetas R meanAll data seed d N).map (fun x => x + s) := by
      simp only [thetas, List.map_map]
      apply List.map_congr_left
      intro i _
      simp only [theta, shiftRows, deleteIdx_map, List.length_map, Function.comp]
      apply meanAll_shift
      apply flatten_ne_nil_of
      · intro r hr
        exact hrows r (mem_deleteFrom _ _ _ _ hr)
      · intro hnil
        have h1 := length_deleteIdx data (R.draw (seed + i) data.length d)
        have h2 := hR (seed + i)
        rw [hnil] at h1
        simp at h1
        omega
    simp only [List.length_map, shiftRows] at this ⊢
    rw [this, estimate_map_add]

/-! ### the hypotheses are satisfiable by concrete, non-trivial objects -/

/-- a schedule of 4 tasks on 3 workers, out of task order, with one idle worker -/
example : ValidSchedule 3 4 [(2, 3), (0, 1), (2, 0), (0, 2)] := ⟨by decide, by decide⟩

/-- `np.mean` is homogeneous -/
example (c : ℝ) : ∀ xs, meanAll (scaleRows c xs) = c * meanAll xs := fun xs => meanAll_scale c xs

/-- `|np.mean|` is absolutely homogeneous -/
example (c : ℝ) : ∀ xs, (fun x => |meanAll x|) (scaleRows c xs) = |c| * (fun x => |meanAll x|) xs := by
  intro xs; simp [scaleRows, meanAll_scale, abs_mul]

/-- the toy generator meets the contract used by `estimate_shift_mean` -/
example (t : Int) (n d : ℕ) : (toyRng.draw t n d).length ≤ d := by simp [Rng.draw, toyRng]

/-- a statistic that writes into its argument does change the caller's array (through the probe slice only) -/
example : (compute (α := Int) id toyRng ⟨List.sum, List.map (fun _ => 0)⟩ [1, 2, 4, 8] 0 1 2 0
    [(0, 0), (1, 1)]).dataAfter = [0, 2, 4, 8] := by decide

/-- the admissible range of `d` is not empty and contains `d = 1` -/
example : estimate Real.sqrt 10 1 [1, 2, 4] = deleteD 10 1 [1, 2, 4] := estimate_formula 10 1 (by norm_num) (by norm_num) _

/-! ### the defect found in the code as first read (monitor, not a gating obligation)

Before the repair the `d = 1` branch read `variance_samples *= (len(jackknife_samples) - 1) / len(jackknife_samples)`,
i.e. `(N-1)/N` where the delete-d formula has `(n-1)/N`.  Witness `n = 10, d = 1, N = 7`. -/

/-- the scaling statements as found at the base commit (text copy, not generated) -/
noncomputable def scaleAsFound (n d N : ℕ) : ℝ :=
  if d = 1 then ((N - 1 : ℕ) : ℝ) / (N : ℝ) else ((n - d : ℕ) : ℝ) / ((d * N : ℕ) : ℝ)

theorem as_found_d1_witness : scaleAsFound 10 1 7 ≠ ((10 : ℝ) - 1) / (1 * 7) ∧ scaleAsFound 10 1 7 = 6 / 7 := by
  constructor <;> norm_num [scaleAsFound]

end SparkxVerif.C15
