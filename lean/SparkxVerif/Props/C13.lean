/-
C13 — Multi-particle pT correlations equal the sum over distinct tuples.

Property theorems only (helper lemmas live in `Lemmas/`, `Props/C13/Base.lean`).
The polynomials `num k`, `den k`, `kappa k` are *generated* from the current source text of
`MultiParticlePtCorrelations.py` (`Gen/PtCorr.lean`), so these theorems are re-checked against
what the code says on every run.  The model functions (`PtCorr.corr`, `PtCorr.cumulant`) are the
ones the driver executes at `Float`; here they are instantiated at an arbitrary field.
-/
import SparkxVerif.Props.C13.Base
import SparkxVerif.Props.C13.Num7
import SparkxVerif.Props.C13.Num8
import Mathlib.Algebra.BigOperators.Intervals
import Mathlib.Data.Nat.Choose.Basic
import Mathlib.Algebra.Field.Defs
import Mathlib.Tactic.NormNum
import Mathlib.Tactic.IntervalCases

open Finset BigOperators
open SparkxVerif.Gen.PtCorr

namespace SparkxVerif.C13

section ring
variable {R : Type} [CommRing R] {n : ℕ}

/-! ### The generated numerators are the distinct-tuple sums (orders 1–8, any multiplicity) -/

theorem num1_eq (x : Fin n → R) : num1 (powerSums x) = distinctSum 1 x := by
  rw [distinctSum_eq_Dexp]; simp [Dexp, List.range_succ, num1, powerSums]
theorem num2_eq (x : Fin n → R) : num2 (powerSums x) = distinctSum 2 x := by
  rw [distinctSum_eq_Dexp]; simp [Dexp, List.range_succ, num2, powerSums]; ring1
theorem num3_eq (x : Fin n → R) : num3 (powerSums x) = distinctSum 3 x := by
  rw [distinctSum_eq_Dexp]; simp [Dexp, List.range_succ, num3, powerSums]; ring1
theorem num4_eq (x : Fin n → R) : num4 (powerSums x) = distinctSum 4 x := by
  rw [distinctSum_eq_Dexp]; simp [Dexp, List.range_succ, num4, powerSums]; ring1
theorem num5_eq (x : Fin n → R) : num5 (powerSums x) = distinctSum 5 x := by
  rw [distinctSum_eq_Dexp]; simp [Dexp, List.range_succ, num5, powerSums]; ring1
set_option maxHeartbeats 1600000 in
theorem num6_eq (x : Fin n → R) : num6 (powerSums x) = distinctSum 6 x := by
  rw [distinctSum_eq_Dexp]; simp [Dexp, List.range_succ, num6, powerSums]; ring1

/-! ### The denominators are the same polynomials (in the weight power sums) -/

theorem den1_eq_num1 : @den1 R = @num1 R := rfl
theorem den2_eq_num2 : @den2 R _ _ _ = @num2 R _ _ _ := rfl
theorem den3_eq_num3 : @den3 R _ _ _ _ = @num3 R _ _ _ _ := rfl
theorem den4_eq_num4 : @den4 R _ _ _ _ = @num4 R _ _ _ _ := rfl
theorem den5_eq_num5 : @den5 R _ _ _ _ = @num5 R _ _ _ _ := rfl
theorem den6_eq_num6 : @den6 R _ _ _ _ = @num6 R _ _ _ _ := rfl
theorem den7_eq_num7 : @den7 R _ _ _ _ = @num7 R _ _ _ _ := rfl
theorem den8_eq_num8 : @den8 R _ _ _ _ = @num8 R _ _ _ _ := rfl

/-- all eight orders at once: the generated dispatch `num k` returns the distinct-tuple sum -/
theorem num_eq (k : ℕ) (hk : 1 ≤ k ∧ k ≤ 8) (x : Fin n → R) :
    num k (powerSums x) = some (distinctSum k x) := by
  obtain ⟨h1, h8⟩ := hk
  interval_cases k <;>
    simp [num, num1_eq, num2_eq, num3_eq, num4_eq, num5_eq, num6_eq, num7_eq, num8_eq]

theorem den_eq (k : ℕ) (hk : 1 ≤ k ∧ k ≤ 8) (x : Fin n → R) :
    den k (powerSums x) = some (distinctSum k x) := by
  obtain ⟨h1, h8⟩ := hk
  interval_cases k <;>
    simp [den, den1_eq_num1, den2_eq_num2, den3_eq_num3, den4_eq_num4, den5_eq_num5, den6_eq_num6,
      den7_eq_num7, den8_eq_num8, num1_eq, num2_eq, num3_eq, num4_eq, num5_eq, num6_eq, num7_eq, num8_eq]

end ring

/-! ### The estimator as a whole (the function the driver runs), over any field -/

section field
variable {K : Type} [Field K]
open SparkxVerif.PtCorr

/-- sum over all `k`-tuples of distinct positions of a list, of the product of the entries -/
noncomputable def distinctSumL (k : ℕ) (xs : List K) : K :=
  distinctSum k (fun j : Fin xs.length => xs[j.1])

theorem powerSumsL_eq (xs : List K) : powerSumsL xs = powerSums (fun j : Fin xs.length => xs[j.1]) := by
  funext i
  simp only [powerSumsL, powerSums, sumL_eq_sum, npow_eq_pow]
  rw [← Fin.sum_univ_fun_getElem]

theorem eventNum_eq (k : ℕ) (hk : 1 ≤ k ∧ k ≤ 8) (ev : List (Part K)) :
    eventNum k ev = some (distinctSumL k (ev.map (fun p => weight p * p.2))) := by
  unfold eventNum distinctSumL; rw [powerSumsL_eq, num_eq k hk]

theorem eventDen_eq (k : ℕ) (hk : 1 ≤ k ∧ k ≤ 8) (ev : List (Part K)) :
    eventDen k ev = some (distinctSumL k (ev.map weight)) := by
  unfold eventDen distinctSumL; rw [powerSumsL_eq, den_eq k hk]

/-- **C13, correlations.** For every order `1 ≤ k ≤ 8`, any number of events, any multiplicities
(an event with fewer than `k` particles contributes an empty tuple sum, i.e. `0`) and any weights
(unset weight = 1): the returned `k`-particle mean-pT correlation is the sum over events and over
all `k`-tuples of distinct particles of `Π w_i pT_i`, divided by the same sum of `Π w_i`. -/
theorem corr_eq (k : ℕ) (hk : 1 ≤ k ∧ k ≤ 8) (evs : List (List (Part K))) :
    corr k evs = some
      ((evs.map (fun ev => distinctSumL k (ev.map (fun p => weight p * p.2)))).sum /
       (evs.map (fun ev => distinctSumL k (ev.map weight))).sum) := by
  unfold corr
  have hn : evs.mapM (eventNum k) = some (evs.map (fun ev => distinctSumL k (ev.map (fun p => weight p * p.2)))) := by
    induction evs with
    | nil => rfl
    | cons e es ih => simp [List.mapM_cons, eventNum_eq k hk, ih]
  have hd : evs.mapM (eventDen k) = some (evs.map (fun ev => distinctSumL k (ev.map weight))) := by
    clear hn
    induction evs with
    | nil => rfl
    | cons e es ih => simp [List.mapM_cons, eventDen_eq k hk, ih]
  simp [hn, hd]

/-- the moment–cumulant recursion, 0-indexed (`C i` is `C_{i+1}`, `kappaSpec C m` is `κ_{m+1}`):
`κ_k = C_k − Σ_{j=1}^{k−1} binom(k−1, j−1) κ_j C_{k−j}` -/
noncomputable def kappaSpec (C : ℕ → K) : ℕ → K
  | m => C m - ∑ j : Fin m, (Nat.choose m j.1 : K) * kappaSpec C j.1 * C (m - 1 - j.1)
termination_by m => m
decreasing_by exact j.2

theorem kappa1_eq (C : ℕ → K) : kappa1 C = kappaSpec C 0 := by
  rw [kappaSpec]; simp [kappa1]
theorem kappa2_eq (C : ℕ → K) : kappa2 C = kappaSpec C 1 := by
  rw [kappaSpec]; simp [Fin.sum_univ_succ, ← kappa1_eq]; simp [kappa1, kappa2]; ring1
theorem kappa3_eq (C : ℕ → K) : kappa3 C = kappaSpec C 2 := by
  rw [kappaSpec]; simp [Fin.sum_univ_succ, ← kappa1_eq, ← kappa2_eq, Nat.choose]
  simp [kappa1, kappa2, kappa3]; ring1
theorem kappa4_eq (C : ℕ → K) : kappa4 C = kappaSpec C 3 := by
  rw [kappaSpec]; simp [Fin.sum_univ_succ, ← kappa1_eq, ← kappa2_eq, ← kappa3_eq, Nat.choose]
  simp [kappa1, kappa2, kappa3, kappa4]; ring1
theorem kappa5_eq (C : ℕ → K) : kappa5 C = kappaSpec C 4 := by
  rw [kappaSpec]; simp [Fin.sum_univ_succ, ← kappa1_eq, ← kappa2_eq, ← kappa3_eq, ← kappa4_eq, Nat.choose]
  simp [kappa1, kappa2, kappa3, kappa4, kappa5]; ring1
theorem kappa6_eq (C : ℕ → K) : kappa6 C = kappaSpec C 5 := by
  rw [kappaSpec]; simp [Fin.sum_univ_succ, ← kappa1_eq, ← kappa2_eq, ← kappa3_eq, ← kappa4_eq, ← kappa5_eq, Nat.choose]
  simp [kappa1, kappa2, kappa3, kappa4, kappa5, kappa6]; ring1
theorem kappa7_eq (C : ℕ → K) : kappa7 C = kappaSpec C 6 := by
  rw [kappaSpec]; simp [Fin.sum_univ_succ, ← kappa1_eq, ← kappa2_eq, ← kappa3_eq, ← kappa4_eq, ← kappa5_eq,
    ← kappa6_eq, Nat.choose]
  simp [kappa1, kappa2, kappa3, kappa4, kappa5, kappa6, kappa7]; ring1
theorem kappa8_eq (C : ℕ → K) : kappa8 C = kappaSpec C 7 := by
  rw [kappaSpec]; simp [Fin.sum_univ_succ, ← kappa1_eq, ← kappa2_eq, ← kappa3_eq, ← kappa4_eq, ← kappa5_eq,
    ← kappa6_eq, ← kappa7_eq, Nat.choose]
  simp [kappa1, kappa2, kappa3, kappa4, kappa5, kappa6, kappa7, kappa8]; ring1

/-- the generated dispatch `kappa k` is the moment–cumulant recursion for every `1 ≤ k ≤ 8` -/
theorem kappa_eq (k : ℕ) (hk : 1 ≤ k ∧ k ≤ 8) (C : ℕ → K) : kappa k C = some (kappaSpec C (k - 1)) := by
  obtain ⟨h1, h8⟩ := hk
  interval_cases k <;>
    simp [kappa, kappa1_eq, kappa2_eq, kappa3_eq, kappa4_eq, kappa5_eq, kappa6_eq, kappa7_eq, kappa8_eq]

/-- the defining correlation of order `i+1` (0-indexed), as a total function -/
noncomputable def corrSpec (evs : List (List (Part K))) (i : ℕ) : K :=
  (evs.map (fun ev => distinctSumL (i + 1) (ev.map (fun p => weight p * p.2)))).sum /
  (evs.map (fun ev => distinctSumL (i + 1) (ev.map weight))).sum

/-- **C13, cumulants.** `mean_pT_cumulants(...)[k-1]` is the standard cumulant built from the
defining correlations through the moment–cumulant recursion. -/
theorem cumulant_eq (k : ℕ) (hk : 1 ≤ k ∧ k ≤ 8) (evs : List (List (Part K))) :
    cumulant k evs = some (kappaSpec (fun i => if i < k then corrSpec evs i else 0) (k - 1)) := by
  unfold cumulant
  have hC : (List.range k).mapM (fun i => corr (i + 1) evs) = some ((List.range k).map (corrSpec evs)) := by
    have : ∀ l : List ℕ, (∀ i ∈ l, i < k) →
        l.mapM (fun i => corr (i + 1) evs) = some (l.map (corrSpec evs)) := by
      intro l
      induction l with
      | nil => intro _; rfl
      | cons a l ih =>
        intro h
        have ha : a < k := h a (by simp)
        rw [List.mapM_cons, corr_eq (a + 1) ⟨by omega, by omega⟩, ih (fun i hi => h i (by simp [hi]))]
        rfl
    exact this _ (fun i hi => by simpa using hi)
  simp only [hC, Option.bind_eq_bind, Option.bind_some]
  rw [kappa_eq k hk]
  congr 2
  funext i
  by_cases h : i < k <;> simp [h, List.getD_eq_getElem?_getD]

end field

/-! ### Non-vacuity: the hypotheses are met by a concrete non-trivial sample -/

example : PtCorr.corr 2 ([[(none, (1 : ℚ)), (none, 2), (none, 3)]] : List (List (PtCorr.Part ℚ))) = some (11 / 3) := by
  simp [PtCorr.corr, PtCorr.eventNum, PtCorr.eventDen, PtCorr.powerSumsL, PtCorr.weight, num, den, num2, den2,
    sumL, npow]
  norm_num

end SparkxVerif.C13
