/-
C19, tie T — the property theorems restated about the functions REGENERATED from the current source of
`src/sparkx/CentralityClasses.py` (`Gen/Centrality.lean`, written by `harness/translate/centrality.py` on every
run):

  `genBuild rank zero sample bins`   `__create_centrality_classes` (guards, ranking, class loop, stored min / max)
  `genLookup mins x`                 `get_centrality_class`
  `genRank toNat n edge`             the cut index `int(number_events * edge / 100.0)` (`int()` abstract)
  `genInit lo hi edges`              the edge cleaning of `__init__` (sortedness test + sort, duplicate removal, range check)

`gen_build_eq`, `gen_lookup_eq`, `gen_rank_eq`, `gen_init_eq` say that they are the hand-written model of `Core/Centrality.lean`
on every input (proofs in `Lemmas/CentralityGen.lean`); the remaining theorems are the C19 statements of
`Props/C19.lean` with the generated functions in place of the model, under the same hypotheses.  A change of the
source inside the translated fragment changes `Gen/Centrality.lean`; if it changes the meaning, these proofs no
longer check.
-/
import SparkxVerif.Props.C19
import SparkxVerif.Lemmas.CentralityGen

set_option linter.unusedSectionVars false

namespace SparkxVerif.C19
open SparkxVerif.Centrality SparkxVerif.Gen.Centrality SparkxVerif.CentralityGen

/-! ### the generated definitions are the model -/

section eq
variable {α γ : Type} [LE α] [LT α] [DecidableLE α] [DecidableLT α]

/-- **Tie T.** The regenerated constructor equals the model on every input (any sample, any edge list, any
rank function): same exception class, or the same stored minima and maxima. -/
theorem gen_build_eq (rank : γ → Nat) (zero : α) (sample : List α) (bins : List γ) :
    genBuild rank zero sample bins = build zero sample (bins.map rank) :=
  genBuild_eq rank zero sample bins

/-- **Tie T.** The regenerated lookup equals the model for every list of stored minima and every query. -/
theorem gen_lookup_eq (mins : List (Bnd α)) (x : α) : genLookup mins x = lookup mins x :=
  genLookup_eq mins x

/-- **Tie T.** The regenerated cut index is `int(n * edge / 100.0)` as an expression tree over abstract float
operations (`int()` abstract); the only law used is commutativity of the product. -/
theorem gen_rank_eq {F : Type} [Add F] [Sub F] [Mul F] [Div F] [Neg F] [NatCast F]
    (hmul : ∀ a b : F, a * b = b * a) (toNat : F → Nat) (n : Nat) (edge : F) :
    genRank toNat n edge = toNat ((((n : Nat) : F) * edge) / ((100 : Nat) : F)) :=
  genRank_eq hmul toNat n edge

/-- the constructor as a whole (edges cleaned, then the regenerated `__create_centrality_classes`) is `classesOf` -/
theorem gen_classes_eq [LE γ] [LT γ] [DecidableLE γ] [DecidableLT γ] [DecidableEq γ]
    (rank : γ → Nat) (zero : α) (sample : List α) (edges : List γ) :
    genBuild rank zero sample (cleanEdges edges) = classesOf rank zero sample edges := by
  rw [gen_build_eq]; rfl

/-- **Tie T.** The regenerated edge cleaning of `__init__` (sortedness test, in-place sort, duplicate removal,
range check) raises `ValueError` exactly when an edge lies outside `[lo, hi]` and otherwise yields `cleanEdges`. -/
theorem gen_init_eq [LE γ] [LT γ] [DecidableLE γ] [DecidableLT γ] [DecidableEq γ] (lo hi : γ) (edges : List γ) :
    genInit lo hi edges = if edgesInRange lo hi edges then .ok (cleanEdges edges) else .error .value :=
  genInit_eq lo hi edges

/-- **Tie T, the constructor as a whole**: regenerated `__init__` followed by the regenerated
`__create_centrality_classes` on the list it stored = range check, then `classesOf` of the model. -/
theorem gen_constructor_eq [LE γ] [LT γ] [DecidableLE γ] [DecidableLT γ] [DecidableEq γ]
    (rank : γ → Nat) (lo hi : γ) (zero : α) (sample : List α) (edges : List γ) :
    (match genInit lo hi edges with
      | .error e => .error e
      | .ok bins => genBuild rank zero sample bins) =
      if edgesInRange lo hi edges then classesOf rank zero sample edges else .error .value := by
  rw [gen_init_eq]
  by_cases h : edgesInRange lo hi edges = true
  · simp only [h, if_true]; exact gen_classes_eq rank zero sample edges
  · simp only [h]; rfl

end eq

/-! ### the C19 statements about the generated functions -/

section
variable {α γ : Type} [LinearOrder α]

/-- construction (regenerated code) succeeds on every admissible input -/
theorem gen_build_succeeds (rank : γ → Nat) (zero : α) (sample : List α) (bins : List γ)
    (h4 : 4 ≤ sample.length) (hnn : ∀ m ∈ sample, zero ≤ m) (hne : bins ≠ [])
    (hlo : ∀ c ∈ bins.dropLast, rank c < sample.length) (hhi : ∀ c ∈ bins, rank c ≤ sample.length) :
    ∃ C, genBuild rank zero sample bins = .ok C := by
  rw [gen_build_eq]
  refine build_succeeds zero sample (bins.map rank) h4 hnn (by simpa using hne) ?_ ?_
  · intro r hr
    rw [← List.map_dropLast] at hr
    obtain ⟨c, hc, rfl⟩ := List.mem_map.1 hr
    exact hlo c hc
  · intro r hr
    obtain ⟨c, hc, rfl⟩ := List.mem_map.1 hr
    exact hhi c hc

/-- **C19, totality (regenerated code).** Every query is mapped to exactly one class index `0 ≤ c < N`. -/
theorem gen_total {rank : γ → Nat} {zero : α} {sample : List α} {bins : List γ} {C : Classes α}
    (hb : genBuild rank zero sample bins = .ok C) (h2 : 2 ≤ bins.length) (x : α) :
    ∃ c : Nat, genLookup C.mins x = .ok (c : Int) ∧ c + 1 < bins.length := by
  rw [gen_build_eq] at hb
  rw [gen_lookup_eq]
  simpa using total hb (by simpa using h2) x

/-- **C19, monotonicity (regenerated code).** A larger multiplicity is never assigned a more peripheral class. -/
theorem gen_monotone {rank : γ → Nat} {zero : α} {sample : List α} {bins : List γ} {C : Classes α}
    (hb : genBuild rank zero sample bins = .ok C) (hR : (bins.map rank).Pairwise (· ≤ ·)) {x y : α} (hxy : x ≤ y)
    {cx cy : Int} (hx : genLookup C.mins x = .ok cx) (hy : genLookup C.mins y = .ok cy) : cy ≤ cx := by
  rw [gen_build_eq] at hb
  rw [gen_lookup_eq] at hx hy
  exact monotone hb hR hxy hx hy

/-- **C19, consistency with the sample (regenerated code).** An event whose descending rank `r` lies in the rank
interval `[rank c_i, rank c_{i+1})` of class `i` is assigned class `i`, or is tied with the last event before that
interval and is assigned an earlier class whose stored minimum is its multiplicity. -/
theorem gen_rank_consistent {rank : γ → Nat} {zero : α} {sample : List α} {bins : List γ} {C : Classes α}
    (hb : genBuild rank zero sample bins = .ok C) (hR : (bins.map rank).Pairwise (· ≤ ·)) {i r : Nat} {ci cj : γ}
    (hlo : bins[i]? = some ci) (hhi : bins[i + 1]? = some cj) (h1 : rank ci ≤ r) (h2 : r < rank cj) :
    ∃ (x : α) (c : Nat), (sortDesc sample)[r]? = some x ∧ genLookup C.mins x = .ok (c : Int) ∧
      (c = i ∨ (c < i ∧ 0 < rank ci ∧ (sortDesc sample)[rank ci - 1]? = some x ∧ C.mins[c]? = some (.fin x))) := by
  rw [gen_build_eq] at hb
  have := rank_consistent hb hR (i := i) (r := r) (lo := rank ci) (hi := rank cj)
    (by simp [hlo]) (by simp [hhi]) h1 h2
  simpa only [gen_lookup_eq] using this

/-- **C19, stored extremes (regenerated code).** For a class with a non-empty rank interval the stored minimum and
maximum are attained inside the interval and bound every event of it. -/
theorem gen_min_max_extreme {rank : γ → Nat} {zero : α} {sample : List α} {bins : List γ} {C : Classes α}
    (hb : genBuild rank zero sample bins = .ok C) {i : Nat} {ci cj : γ}
    (hlo : bins[i]? = some ci) (hhi : bins[i + 1]? = some cj) (hne : rank ci < rank cj) :
    ∃ m M : α, C.mins[i]? = some (.fin m) ∧ C.maxs[i]? = some M ∧
      (sortDesc sample)[rank cj - 1]? = some m ∧ (sortDesc sample)[rank ci]? = some M ∧
      ∀ (r : Nat) (y : α), rank ci ≤ r → r < rank cj → (sortDesc sample)[r]? = some y → m ≤ y ∧ y ≤ M := by
  rw [gen_build_eq] at hb
  obtain ⟨m, M, h1, h2, h3, h4, _, _, h5⟩ :=
    min_max_extreme hb (i := i) (lo := rank ci) (hi := rank cj) (by simp [hlo]) (by simp [hhi]) hne
  exact ⟨m, M, h1, h2, h3, h4, h5⟩

end

/-! ### the whole constructor with the regenerated cut index -/

section
variable {α F : Type} [LinearOrder α] [LinearOrder F] [Add F] [Sub F] [Mul F] [Div F] [Neg F] [NatCast F]

/-- totality for the constructor as a whole: raw edges cleaned, cut indices through the regenerated expression
`int(n * edge / 100.0)` (any `int()`), regenerated constructor and lookup -/
theorem gen_total_of_edges (toNat : F → Nat) {zero : α} {sample : List α} {edges : List F} {C : Classes α}
    (hc : genBuild (genRank toNat sample.length) zero sample (cleanEdges edges) = .ok C)
    (h2 : 2 ≤ (cleanEdges edges).length) (x : α) :
    ∃ c : Nat, genLookup C.mins x = .ok (c : Int) ∧ c + 1 < (cleanEdges edges).length :=
  gen_total hc h2 x

/-- monotonicity for the constructor as a whole; the contract of `int()` / float arithmetic that is used is only
that the regenerated cut index is non-decreasing in the edge (checked by the harness on every case) -/
theorem gen_monotone_of_edges (toNat : F → Nat) {zero : α} {sample : List α} {edges : List F} {C : Classes α}
    (hmono : ∀ a b : F, a ≤ b → genRank toNat sample.length a ≤ genRank toNat sample.length b)
    (hc : genBuild (genRank toNat sample.length) zero sample (cleanEdges edges) = .ok C) {x y : α} (hxy : x ≤ y)
    {cx cy : Int} (hx : genLookup C.mins x = .ok cx) (hy : genLookup C.mins y = .ok cy) : cy ≤ cx :=
  gen_monotone hc (ranks_sorted _ hmono edges) hxy hx hy

end

/-! ### the generated functions on concrete non-trivial inputs -/

/-- ties across a class boundary, uneven classes, an empty middle class (edges as ranks through `id`) -/
example : genBuild (fun r : Nat => r) (0 : Int) [3, 5, 5, 1, 5, 2, 5, 0] [0, 2, 3, 3, 8] =
    .ok ⟨[.fin 5, .fin 5, .fin 5, .fin 0], [5, 5, 5, 5]⟩ := by rfl

example : [6, 5, 4, 3, 2, 1, 0].map (genLookup [Bnd.fin (5 : Int), .fin 3, .fin 3, .fin 0]) =
    [.ok 0, .ok 0, .ok 1, .ok 1, .ok 3, .ok 3, .ok 3] := by decide

/-- unsorted and duplicated edges; an edge above 100 -/
example : genInit (0 : Int) 100 [50, 0, 100, 50, 0] = .ok [0, 50, 100] := by decide
example : genInit (0 : Int) 100 [0, 10, 10, 100] = .ok [0, 10, 100] := by decide
example : genInit (0 : Int) 100 [0, 50, 120] = .error .value := by decide

/-- an empty leading class stores `inf`; fewer than 4 events, a negative multiplicity, a boundary beyond the sample -/
example : genBuild (fun r : Nat => r) (0 : Int) [10, 9, 8, 7] [0, 0, 2, 4] =
    .ok ⟨[.inf, .fin 9, .fin 7], [10, 10, 8]⟩ := by rfl
example : genBuild (fun r : Nat => r) (0 : Int) [1, 2, 3] [0, 1, 3] = .error .value := by rfl
example : genBuild (fun r : Nat => r) (0 : Int) [1, 2, -3, 4] [0, 2, 4] = .error .value := by rfl
example : genBuild (fun r : Nat => r) (0 : Int) [1, 2, 3, 4] [0, 4, 4] = .error .index := by rfl

end SparkxVerif.C19
